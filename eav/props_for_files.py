#!/usr/bin/env python3
"""props_for_files.py FILE... : the properties whose units read at least one of the given repository files (relative paths);
used by the replay scripts to skip checks that cannot be affected by a change (development aid, not part of any check)"""
import sys, os, importlib, re
HERE = os.path.dirname(os.path.abspath(__file__))
sys.path.insert(0, HERE)
sys.path.insert(0, os.path.join(os.path.dirname(HERE), "units"))
from props import PROPS
files = set(sys.argv[1:])
cache = {}
out = []
for p, P in PROPS.items():
    hit = False
    for u in P["units"]:
        if u not in cache:
            try:
                un = importlib.import_module(u).build()
                fs = {pc.relpath.split("#")[0] for pc in un.pieces}
                src = open(os.path.join(os.path.dirname(HERE), "units", u + ".py")).read()
                fs |= set(re.findall(r'"((?:acmed|acme_common|tacd)/[\w/]+\.rs)"', src))
                # a crate's root file is read for its constants
                fs |= {un.root + "/src/main.rs", un.root + "/src/lib.rs"}
                cache[u] = fs
            except Exception:
                cache[u] = None
        if cache[u] is None or (cache[u] & files):
            hit = True
    if hit:
        out.append(p)
print(" ".join(out))
