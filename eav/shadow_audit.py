import sys,os,importlib,glob,re
sys.path.insert(0,'/verif/eav'); sys.path.insert(0,'/verif/units')
from rustlex import find_fns
units=[os.path.basename(f)[:-3] for f in glob.glob('/verif/units/*.py')]
KW=set("proof assert let ghost forall exists implies by match Some None Ok Err is matches old final crate self true false if else int nat as len push skip take contains_key dom".split())
for u in sorted(units):
    try: un=importlib.import_module(u).build()
    except Exception as e: continue
    for p in un.pieces:
        if p.mode!='verify': continue
        try: fns=find_fns(p.item)
        except Exception: continue
        for name,fs in (p.fnspecs or {}).items():
            fn=fns.get(name)
            if fn is None: continue
            src=p.sf.text[p.sf.toks[fn.k0].start:p.sf.toks[fn.k1].end]
            params=set(re.findall(r'(\w+)\s*:', src[:src.find('{')]))
            lets={}
            for m in re.finditer(r'\blet\s+(?:mut\s+)?(\w+)\b', src): lets[m.group(1)]=lets.get(m.group(1),0)+1
            for m in re.finditer(r'(?:Some|Ok|Err)\((\w+)\)\s*=>', src): lets[m.group(1)]=lets.get(m.group(1),0)+1
            texts=[a[3] for a in fs.at if isinstance(a[3],str)]+[v for v in (fs.loops or {}).values()]
            used=set()
            for t in texts:
                t2=re.sub(r'//@.*','',t)
                for w in re.findall(r'(?<![\w.:$])([a-z_]\w*)(?=\s*[@.\[),;=<>!&| ])', t2):
                    if w not in KW and not w.endswith('__'): used.add(w)
            risky=[w for w in used if (lets.get(w,0)>=2) or (w in params and lets.get(w,0)>=1)]
            if risky: print(f"{u}: {p.spec}::{name}: {sorted(risky)}")
