#!/bin/bash
# mutants_intake.sh <PROP> <tag> : store a batch of small mutants (no demonstrations) and print the verdict of the property's check for each
p=$1; tag=$2; wt=/tmp/wt_${p}${tag}; d=/verif/mutants/${p}_${tag}
mkdir -p $d; cp $wt/_seed/m*.diff $wt/_seed/MUTANTS.md $d/ 2>/dev/null
R=/tmp/rr_mut_$p; rm -rf $R; git clone -q /repo $R; mkdir -p $R/_ev $R/_build
: > $d/verdicts.txt
for f in $d/m*.diff; do
  git -C $R apply $f 2>/dev/null || { echo "$(basename $f): does not apply" | tee -a $d/verdicts.txt; continue; }
  out=$(VERIF_REPO=$R VERIF_EVIDENCE_DIR=$R/_ev VERIF_BUILD_DIR=$R/_build /verif/check $p 2>&1 | grep -E "^VIOL|^UNDEC|^OK|failed obl" | cut -c1-260 | head -2 | tr '\n' ' ')
  git -C $R checkout -q -- .
  echo "$(basename $f): $out" | tee -a $d/verdicts.txt
done
rm -rf $R
