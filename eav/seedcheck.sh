#!/bin/bash
# seedcheck.sh <patch.diff> <PROP>... : apply a seeded change to /repo, run the checks, undo it straight afterwards
patch=$1; shift
git -C ${VERIF_REPO:-/repo} apply $patch || { echo "patch does not apply"; exit 9; }
for p in "$@"; do VERIF_EVIDENCE_DIR=${VERIF_EVIDENCE_DIR:-/tmp/seed_evidence} ${VERIF_HOME:-/verif}/check $p | grep -E "VIOLATION|failed obl|UNDECIDED|^OK|KNOWN" ; echo "rc=$?"; done
git -C ${VERIF_REPO:-/repo} checkout -- .
