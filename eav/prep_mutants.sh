#!/bin/bash
# prep_mutants.sh <tag> <PROP>... : scratch worktrees /tmp/wt_<PROP><tag> for a batch of small mutants (no demonstrations)
tag=$1; shift
for p in "$@"; do
  bash /verif/eav/mkwt.sh $p ${p}${tag} || exit 1
  python3 - "$p" "/tmp/wt_${p}${tag}" <<'PY'
import json,glob,sys
p,wt=sys.argv[1:3]
used=[]
for f in sorted(glob.glob(f'/verif/seeded/S_{p}*/meta.json')):
    m=json.load(open(f)); used.append("- "+m.get("change",""))
for f in sorted(glob.glob(f'/verif/mutants/{p}_*/MUTANTS.md')):
    used.append("- (earlier batch) see: "+open(f).read()[:9000])
open(wt+'/_seed/USED.txt','w').write("Changes already used for this property (do not repeat them or close variants):\n"+"\n".join(used)+"\n")
PY
  sed "s#@@e#${p}${tag}#g; s#@@#${p}#g" /verif/eav/mutants_prompt.txt > /tmp/wt_${p}${tag}/_seed/TASK.txt
done
ls -d /tmp/wt_*${tag}
