"""Extract - annotate - verify: assemble one single-file Verus crate ("unit") from /repo.

The executable text of every extracted item is the repository's text, character for character,
except for the logged applications of the closed list of rewrite rules (DESIGN.md section 2.3).
Contracts are *inserted*; nothing else is touched.  Any lost anchor or unknown construct raises
`Undecided`.
"""
import hashlib
import json
import os
import re

from rustlex import SourceFile, Undecided, lex, match_close, loops_in, find_fns, impl_self_type, OPEN

REPO = os.environ.get("VERIF_REPO", "/repo")
VERIF = os.path.dirname(os.path.dirname(os.path.abspath(__file__)))

_src_cache = {}


_virtual = {}   # pseudo path -> SourceFile built from an item-level macro (T-MACRO-ITEM)


_CONTRACT_KW = set("proof assert assume let ghost tracked forall exists implies by match if else is matches old final crate self true false "
                   "int nat as requires ensures invariant decreases reveal choose broadcast use mut ref in return spec fn".split())


def binder_counts(piece, fname, fs):
    """{name: number of binder occurrences in the function's source} for every lower-case name the contract's texts use;
    None when the function cannot be read"""
    try:
        from alpha import Resolver, expand_shorthand
        fn = find_fns(piece.item).get(fname)
        if fn is None:
            return None
        toks_ = piece.sf.toks
        src = piece.sf.text[toks_[fn.k0].start:toks_[fn.k1].end]
        # (the texts placed inside the body: a name in `requires` / `ensures` denotes a parameter or the result whatever the body binds)
        texts = [fs.body_start or ""] + [str(v) for v in (fs.loops or {}).values()] \
            + [str(a_[3]) for a_ in (fs.at or []) if len(a_) > 3]
        used, own = set(), set()
        for t_ in texts:
            t_ = re.sub(r"//[^\n]*", "", t_)
            t_ = re.sub(r'"(?:[^"\\]|\\.)*"', '""', t_)
            for w_ in re.findall(r"(?<![\w.:$])([a-z_]\w*)\b(?!\s*(?:::|!|\())", t_):
                if w_ not in _CONTRACT_KW and not w_.endswith("__") and w_ != "_":
                    used.add(w_)
            # names the contract text binds itself: quantified variables, closure parameters, `let`, `matches P(x)`, spec match arms
            for m_ in re.finditer(r"\|([^|]*)\|", t_):
                own |= set(re.findall(r"([a-z_]\w*)\s*(?::|,|$)", m_.group(1)))
            own |= set(re.findall(r"\blet\s+(?:ghost\s+|tracked\s+)?(?:mut\s+)?\(?([a-z_]\w*)", t_))
            for m_ in re.finditer(r"\b(?:matches|let|if let)\s+([A-Za-z_][\w:]*\s*[({][^=;]*?[)}])\s*(?:=|==>|&&|\)|,|\{)", t_):
                own |= set(re.findall(r"\b([a-z_]\w*)\b", m_.group(1)))
            for m_ in re.finditer(r"\b[A-Z]\w*\s*\(([^()]*)\)\s*=>", t_):
                own |= set(re.findall(r"\b([a-z_]\w*)\b", m_.group(1)))
        used -= own
        used.discard(fs.ret or "")
        ts = expand_shorthand(lex(src))
        r_ = Resolver(ts)
        r_.run()
        out = {}
        for i_, tk_ in enumerate(ts):
            if tk_.kind == "ident" and tk_.text in used and r_.res[i_] == i_ and r_.zone[i_] == "pat":
                out[tk_.text] = out.get(tk_.text, 0) + 1
        return out
    except Exception:
        return None


ALPHA_LOG = []     # rule T-ALPHA: functions whose text has been replaced by the recorded, alpha-equivalent one
_baseline_src = None


def fn_texts(sf):
    """every function of a source file: key (path of the enclosing impl / trait / mod, name, ordinal) -> (start, end, text)"""
    out = {}

    def rec(items, prefix):
        cnt = {}
        for it in items:
            if it.kind == "fn":
                k_ = prefix + "::" + it.name
                cnt[k_] = cnt.get(k_, 0) + 1
                a_, b_ = sf.toks[it.k0].start, sf.toks[it.k1].end
                out[f"{k_}#{cnt[k_]}"] = (a_, b_, sf.text[a_:b_])
            elif it.kind == "macro_rules":
                a_, b_ = sf.toks[it.k0].start, sf.toks[it.k1].end
                out[f"{prefix}::macro_rules {it.name}#1"] = (a_, b_, sf.text[a_:b_])
            elif it.kind in ("impl", "trait", "mod") and it.children:
                rec(it.children, prefix + "/" + it.kind + " " + it.name)
    rec(sf.items, "")
    return out


def _alpha_normalise(relpath, text):
    """T-ALPHA: a function that differs from its recorded text only by the names of its local variables / parameters (scope-aware
    check of eav/alpha.py; comments, white space and the text of log messages do not count) is given its recorded text back."""
    global _baseline_src
    if os.environ.get("VERIF_NO_ALPHA"):
        return text
    if _baseline_src is None:
        try:
            _baseline_src = json.load(open(os.path.join(VERIF, "baseline_src.json"), encoding="utf-8"))
        except Exception:
            _baseline_src = {}
    base = _baseline_src.get(relpath)
    if not base:
        return text
    try:
        sf = SourceFile(relpath, text)
        cur = fn_texts(sf)
    except Exception:
        return text
    from alpha import alpha_equal, macro_alpha_equal
    repl = []
    for key, (a_, b_, t_) in cur.items():
        bt = base.get(key)
        if bt is None or bt == t_:
            continue
        if (macro_alpha_equal(t_, bt) if "::macro_rules " in key else alpha_equal(t_, bt)):
            repl.append((a_, b_, bt, key))
    # (nested functions: only the outermost replacement of overlapping ones counts)
    repl.sort()
    kept, last_end = [], -1
    for r_ in repl:
        if r_[0] >= last_end:
            kept.append(r_)
            last_end = r_[1]
    for a_, b_, bt, key in reversed(kept):
        ALPHA_LOG.append({"rule": "T-ALPHA", "file": relpath, "item": key, "from": text[a_:b_], "to": bt})
        text = text[:a_] + bt + text[b_:]
    return text


def source(relpath):
    if relpath in _virtual:
        return _virtual[relpath]
    p = os.path.join(REPO, relpath)
    key = (p, os.path.getmtime(p)) if os.path.exists(p) else None
    if key is None:
        raise Undecided(f"source file {relpath} not found")
    if key not in _src_cache:
        _src_cache[key] = SourceFile(relpath, _alpha_normalise(relpath, open(p, encoding="utf-8").read()))
    return _src_cache[key]


class Edit:
    __slots__ = ("start", "end", "text", "rule", "label", "order")

    def __init__(self, start, end, text, rule, order=0):
        self.start, self.end, self.text, self.rule, self.order = start, end, text, rule, order


class FnSpec:
    """Contract for one function (insert-only)."""

    def __init__(self, ret=None, sig="", loops=None, at=None, ghost=False, body_start="",
                 rewrites=None, attrs="", no_unwind=True, generics=None, try_explicit=False, names=None, shape_free=False, counted=None, locks=False):
        self.ret = ret            # name for the return value:  -> T   becomes  -> (ret: T)
        self.sig = sig            # requires/ensures/decreases text, inserted before the body `{`
        self.loops = loops or {}  # ordinal (1-based) -> invariant/decreases text, before loop body `{`
        self.at = at or []        # list of (where, snippet, occurrence, text): where in before/after
        self.ghost = ghost        # add the ghost World parameter
        self.locks = locks        # T-LOCK / T-DROP: make the lock discipline of the function explicit (eav/locks.py)
        self.body_start = body_start  # proof text inserted right after the body's `{`
        self.rewrites = rewrites or []  # list of (rule, regex, replacement[, count]) applied to the fn text
        self.attrs = attrs        # attributes inserted before the fn (e.g. #[verifier::...])
        self.shape_free = shape_free  # the loop contract is anchored on effects, not on the loop's shape: it decides restructured loops too
        self.names = names or {}  # placeholder -> regex with one group, matched on the fn text: `$placeholder` in sig / loops / at / anchors
        #                           stands for the captured name (a local variable), so that renaming the local keeps the contract
        self.counted = counted or {}  # ordinal -> placeholder: loop #ordinal counts its rounds, as `for _ in 0..N` (the ghost iterator counts) or as
        #                           `while X < N` (X counts); `$placeholder` in the loop's contract is the number of completed rounds either way
        self.try_explicit = try_explicit  # T-TRY: write `E?` out as its match (the installed Verus knows nothing of the converted error of `?`)


# method / function names whose calls are total and without effect: a log message made only of these is dropped whole
PURE_LOG = {"as_raw", "display", "to_string", "to_str", "unwrap_or_default", "len", "as_str", "Some", "code", "as_secs", "identifier_list", "get_id",
            "get_one", "map", "unwrap_or", "is_some", "is_none", "clone", "to_owned", "as_ref", "is_empty", "as_u16", "as_millis"}
def fmt_to_cat(lit, cat="crate::vb64::cat2", args=None):
    """T-FMT (exact form): a format string whose placeholders are all `{ident}` naming String/&str variables - or `{}` taking
    the next of the given argument expressions (String/&str values) - is a concatenation; returns the nested
    crate::vb64::cat2 expression, or None when the string has any other shape."""
    body = lit[1:-1]
    args = list(args or [])
    parts, i, cur = [], 0, ""
    while i < len(body):
        ch = body[i]
        if ch == "{":
            if body.startswith("{{", i):
                cur += "{"; i += 2; continue
            j = body.find("}", i)
            name = body[i + 1:j]
            if name == "" and args:
                name = "(" + args.pop(0).strip() + ")"
            elif not re.fullmatch(r"[A-Za-z_][A-Za-z0-9_]*", name):
                return None
            if cur:
                parts.append('"' + cur + '"'); cur = ""
            parts.append("&" + name)
            i = j + 1
            continue
        if ch == "}":
            if body.startswith("}}", i):
                cur += "}"; i += 2; continue
            return None
        if ch == "\\":
            cur += body[i:i + 2]; i += 2; continue
        cur += ch
        i += 1
    if cur:
        parts.append('"' + cur + '"')
    if args:
        return None
    if not parts:
        return 'String::new()'
    expr = None
    for p in parts:
        expr = f"{cat}({p}, \"\")" if expr is None and len(parts) == 1 else (p if expr is None else f"{cat}({expr if expr.startswith('&') or expr.startswith(chr(34)) else '&' + expr}, {p})")
    return expr


def soft_rules(text):
    """the global renaming rules (T-STR literal patterns), for source text a unit's own rewrite carries into its replacement
    (a closure body, say): the token-level pass skips whatever another rewrite replaces"""
    def ren(m):
        kind_ = "char" if m.group(2) == "'" else "str"
        return f".{m.group(1)}_{kind_}({m.group(2)}"
    return re.sub(r"\.(trim_start_matches|trim_end_matches|strip_prefix|strip_suffix)\(\s*(['\"])(?=(?:[^'\"\\]|\\.)+\2\s*\))", ren, text)


GHOST_PARAM = "Tracked(w): Tracked<&mut World>"
GHOST_ARG = "Tracked(&mut *w)"

SERDE_DERIVES = {"Serialize", "Deserialize"}


def all_fn_names(sf):
    """names of all functions (free and methods) defined in a source file"""
    out = set()
    for it in sf._all_items():
        if it.kind == "fn":
            out.add(it.name)
        if it.kind in ("impl", "trait"):
            out |= {c.name for c in it.children if c.kind == "fn"}
    return out


class Piece:
    """One extracted item with its edits, placed in a module of the generated crate."""

    def __init__(self, unit, relpath, spec, module, mode, fnspecs, props, keep_derives=()):
        self.unit, self.relpath, self.spec, self.module = unit, relpath, spec, module
        self.mode = mode  # verify | stub | data
        self.fnspecs = fnspecs or {}
        self.props = props or []
        self.keep_derives = set(keep_derives)
        real = source(relpath)
        ritem = real.find(spec)
        rimpl = real.parent_impl(ritem)
        self.impl_header = None
        if rimpl is not None and ritem is not rimpl:
            k = rimpl.k0
            while rimpl.toks[k].text != "impl":
                k += 1
            self.impl_header = real.text[rimpl.toks[k].start:rimpl.toks[rimpl.body_open].start]
        self.orig_text = real.text[ritem.start:ritem.end]
        self.sha256 = hashlib.sha256(self.orig_text.encode()).hexdigest()
        self.edits = []
        self.rewrites_log = []
        text = self.orig_text
        if mode != "stub":
            text = self._strip_comments(text)
        if mode == "verify":
            text = self._toward_baseline(text)
        # T-MACRO: expand the repository's own single-arm macro_rules! at their call sites (pre-pass)
        if mode != "stub":
            text = self._expand_macros(text)
            text = self._inline_new_helpers(text, real, rimpl if (rimpl is not None and ritem is not rimpl) else (ritem if ritem.kind == "impl" else None))
            if mode == "verify":
                text = self._inline_combinators(text)
        if mode != "stub" and any(getattr(fs, "try_explicit", False) for fs in self.fnspecs.values()):
            text = self._desugar_try(text)
        if mode != "stub":
            text = self._merge_guards(text)
            text = self._desugar_ctrl(text)
        self.sf = SourceFile(relpath + "::" + spec, text)
        if len(self.sf.items) != 1:
            raise Undecided(f"{spec}: expected one item after extraction, got {len(self.sf.items)}")
        self.item = self.sf.items[0]

    def _strip_comments(self, text):
        """T-COMMENT (pre-pass): comments are not code; they are removed (line structure kept) so that a comment added in the middle of
        an expression cannot hide that expression from a rewrite rule or an anchor."""
        toks = lex(text)
        out, pos, n = [], 0, 0
        for t in toks + [None]:
            end = t.start if t is not None else len(text)
            gap = text[pos:end]
            if "//" in gap or "/*" in gap:
                g2 = re.sub(r"/\*.*?\*/", lambda m: "\n" * m.group(0).count("\n"), gap, flags=re.S)
                g2 = re.sub(r"//[^\n]*", "", g2)
                if g2 != gap:
                    n += 1
                gap = g2
            out.append(gap)
            if t is not None:
                out.append(text[t.start:t.end])
                pos = t.end
        if n:
            self.rewrites_log.append({"rule": "T-COMMENT", "file": self.relpath, "item": self.spec, "from": f"{n} comment(s)", "to": ""})
        return "".join(out)

    def _inline_new_helpers(self, text, real, impl_item):
        """T-INLINE: a call of a function that did not exist when the contracts were written (not in the baseline list
        of the file's function names) is replaced by that function's own body, parameters bound by `let`, when that is
        exactly meaning-preserving: no loop, no recursion, no generics, plain identifier parameters, no `return`, and `?`
        only where the call itself is followed by `?` (same error type).  Anything else is left alone (the unknown
        function then makes the unit undecided)."""
        base = self.unit.baseline_fns.get(self.relpath)
        if base is None:
            return text
        cands = {}
        for it in real._all_items():
            if it.kind == "fn" and it.name not in base and it.body_open is not None:
                cands[it.name] = (it, False)
        for it in real._all_items():
            if it.kind == "impl":
                for c in it.children:
                    if c.kind == "fn" and c.name not in base and c.body_open is not None and impl_item is not None \
                            and impl_self_type(it.name) == impl_self_type(impl_item.name):
                        cands[c.name] = (c, True)
        if not cands:
            return text
        for _round in range(20):
            toks = lex(text)
            hit = None
            for k, t in enumerate(toks):
                if t.kind == "ident" and t.text in cands and k + 1 < len(toks) and toks[k + 1].text == "(" and toks[k - 1].text != "fn":
                    it, is_method = cands[t.text]
                    if is_method and not (toks[k - 1].text == "." and toks[k - 2].text == "self" and toks[k - 3].text != "."):
                        continue
                    if not is_method and toks[k - 1].text in (".", ":"):
                        continue
                    hit = k
                    break
            if hit is None:
                return text
            k = hit
            it, is_method = cands[toks[k].text]
            rt = it.toks
            body = real.text[rt[it.body_open].end:rt[it.k1].start]
            btoks = rt[it.body_open + 1:it.k1]
            names = [x.text for x in btoks]
            kf = it.k0
            while rt[kf].text != "fn":
                kf += 1
            if rt[kf + 2].text != "(":
                raise Undecided(f"T-INLINE {it.name}: generic helper")
            pc = match_close(rt, kf + 2)
            # parameters: [&[mut] self ,] ident : type , ...
            params, j = [], kf + 3
            cur = j
            parts = []
            while j <= pc:
                if j == pc or rt[j].text == ",":
                    if j > cur:
                        parts.append((cur, j))
                    cur = j + 1
                    j += 1
                    continue
                if rt[j].text in OPEN:
                    j = match_close(rt, j) + 1
                    continue
                if rt[j].text == "<":
                    depth = 0
                    while True:
                        if rt[j].text == "<":
                            depth += 1
                        elif rt[j].text == ">" and rt[j - 1].text != "-":
                            depth -= 1
                            if depth == 0:
                                break
                        j += 1
                j += 1
            for (a, b) in parts:
                seg = [x.text for x in rt[a:b]]
                if "self" in seg and ":" not in seg:
                    if not is_method:
                        raise Undecided(f"T-INLINE {it.name}: unexpected self")
                    continue
                if rt[a].kind != "ident" or rt[a + 1].text != ":" or rt[a].text == "mut":
                    raise Undecided(f"T-INLINE {it.name}: parameter is not a plain identifier")
                params.append((rt[a].text, real.text[rt[a + 2].start:rt[b - 1].end]))
            if any(x in names for x in ("for", "while", "loop")):
                raise Undecided(f"T-INLINE {it.name}: new helper with a loop (it needs its own contract and invariant)")
            if it.name in names:
                raise Undecided(f"T-INLINE {it.name}: recursive helper")
            if "return" in names:
                raise Undecided(f"T-INLINE {it.name}: new helper with `return` (it needs its own contract)")
            kc = match_close(toks, k + 1)
            after = kc + 1
            if toks[after].text == "." and toks[after + 1].text == "await":
                after += 2
            if "?" in names and toks[after].text != "?":
                raise Undecided(f"T-INLINE {it.name}: helper uses `?` but its result is not propagated with `?` at the call")
            # arguments
            args, cur, j = [], toks[k + 1].end, k + 2
            while j < kc:
                if toks[j].text in OPEN:
                    j = match_close(toks, j) + 1
                    continue
                if toks[j].text == ",":
                    args.append(text[cur:toks[j].start].strip())
                    cur = toks[j].end
                j += 1
            last = text[cur:toks[kc].start].strip()
            if last:
                args.append(last)
            if len(args) != len(params):
                raise Undecided(f"T-INLINE {it.name}: {len(args)} arguments for {len(params)} parameters")
            seen = set()
            lets = []
            for (pn, pt), a in zip(params, args):
                if any(x.kind == "ident" and x.text in seen for x in lex(a)):
                    raise Undecided(f"T-INLINE {it.name}: argument mentions a name bound by an earlier parameter")
                lets.append(f"let {pn}: {pt} = {a};")
                seen.add(pn)
            start = toks[k].start
            if is_method:
                start = toks[k - 2].start
            exp = "({ " + " ".join(lets) + " " + body + " })"
            self.rewrites_log.append({"rule": "T-INLINE", "file": self.relpath, "item": self.spec,
                                      "from": text[start:toks[kc].end], "to": exp,
                                      "note": f"new helper `{it.name}` (absent from the baseline function list) inlined at its call"})
            text = text[:start] + exp + text[toks[kc].end:]
        raise Undecided("T-INLINE did not terminate")

    # ---- T-CANON --------------------------------------------------------------------------------------------------------
    def _toward_baseline(self, text):
        """T-CANON (pre-pass): two spellings that mean the same - `for P in &X` / `for P in X.iter()` (`&mut X` / `X.iter_mut()`), and
        `let N: T = E.collect();` / `let N = E.collect::<T>();` (the same for `parse`) - are brought to the spelling the recorded text of
        the file uses, when (and only when) that makes the loop header / the statement token-identical to one of the recorded text.
        The contracts' anchors and rewrite patterns were written against the recorded spelling."""
        if os.environ.get("VERIF_NO_CANON"):
            return text
        rel = self.relpath.split("#")[0]
        if _baseline_src is None:
            _alpha_normalise(rel, "")
        base = (_baseline_src or {}).get(rel)
        if not base:
            return text
        if not hasattr(self.unit, "_base_norm"):
            self.unit._base_norm = {}
        if rel not in self.unit._base_norm:
            self.unit._base_norm[rel] = " ".join(" ".join(t.text for t in lex(v)) for v in base.values())
        base_norm = " " + self.unit._base_norm[rel] + " "

        def norm(sx):
            return " ".join(t.text for t in lex(sx))
        edits = []
        # loop headers
        for m in re.finditer(r"\bfor\s+([^;{}]*?)\s+in\s+(&mut\s+|&)([A-Za-z_][\w.]*?)\s*\{", text):
            cur = m.group(0)
            alt = f"for {m.group(1)} in {m.group(3)}.{'iter_mut' if 'mut' in m.group(2) else 'iter'}() {{"
            if (" " + norm(cur)) not in base_norm and (" " + norm(alt)) in base_norm:
                edits.append((m.start(), m.end(), alt))
        for m in re.finditer(r"\bfor\s+([^;{}]*?)\s+in\s+([A-Za-z_][\w.]*?)\.(iter|iter_mut)\(\)\s*\{", text):
            cur = m.group(0)
            alt = f"for {m.group(1)} in {'&mut ' if m.group(3) == 'iter_mut' else '&'}{m.group(2)} {{"
            if (" " + norm(cur)) not in base_norm and (" " + norm(alt)) in base_norm:
                edits.append((m.start(), m.end(), alt))
        # collect / parse: turbofish <-> annotation
        T_ = r"((?:[^<>;=]|<(?:[^<>;=]|<[^<>;=]*>)*>)+?)"
        for m in re.finditer(r"\blet\s+(mut\s+)?(\w+)\s*=\s*([^;]*?)\.(collect|parse)::<" + T_ + r">\(\)\s*;", text, re.S):
            cur = m.group(0)
            alt = f"let {m.group(1) or ''}{m.group(2)}: {m.group(5)} = {m.group(3)}.{m.group(4)}();"
            if (" " + norm(cur)) not in base_norm and (" " + norm(alt)) in base_norm:
                edits.append((m.start(), m.end(), alt))
        for m in re.finditer(r"\blet\s+(mut\s+)?(\w+)\s*:\s*" + T_ + r"\s*=\s*([^;]*?)\.(collect|parse)\(\)\s*;", text, re.S):
            cur = m.group(0)
            alt = f"let {m.group(1) or ''}{m.group(2)} = {m.group(4)}.{m.group(5)}::<{m.group(3).strip()}>();"
            if (" " + norm(cur)) not in base_norm and (" " + norm(alt)) in base_norm:
                edits.append((m.start(), m.end(), alt))
        edits.sort()
        out, last = [], -1
        for e_ in edits:
            if e_[0] >= last:
                out.append(e_)
                last = e_[1]
        for a_, b_, alt in reversed(out):
            self.rewrites_log.append({"rule": "T-CANON", "file": self.relpath, "item": self.spec, "from": text[a_:b_], "to": alt})
            text = text[:a_] + alt + text[b_:]
        return text

    # ---- T-COMB ---------------------------------------------------------------------------------------------------------
    COMB_METHODS = {"map", "and_then", "map_or", "map_or_else", "unwrap_or_else", "ok_or_else", "map_err", "or_else",
                    "is_some_and", "is_ok_and", "is_none_or", "then"}
    ITER_SOURCES = {"iter", "iter_mut", "into_iter", "chars", "bytes", "lines", "split", "splitn", "rsplit", "split_whitespace", "keys", "values",
                    "enumerate", "zip", "rev", "skip", "take", "drain", "windows", "chunks", "filter", "filter_map", "flat_map", "peekable",
                    "char_indices", "incoming", "args", "vars", "cloned", "copied", "chain", "step_by", "skip_while", "take_while"}
    ITER_SINKS = {"collect", "sum", "count", "any", "all", "find", "next", "for_each", "fold", "rev", "filter", "enumerate", "last", "nth",
                  "position", "max", "min", "zip", "skip", "take", "peekable", "flatten", "chain", "cloned", "copied", "filter_map", "find_map"}

    def _inline_combinators(self, text):
        """T-COMB (pre-pass): a call of an Option / Result combinator with a closure argument that was not in the function when its contract
        was written - `R.map(|p| B)`, `.and_then`, `.map_or`, `.map_or_else`, `.unwrap_or_else`, `.ok_or_else`, `.map_err`, `.or_else`,
        `.is_some_and`, `.is_ok_and`, `.is_none_or`, `bool.then` - is written out as the `match` it stands for, the closure's body in
        place (so that it is verified like any other code instead of being a closure the verifier knows nothing about).  The receiver may be
        an Option or a Result: `crate::comb::View` splits either into "a value / none", `Wit` / `FromNo` put the result back together (prelude stdx,
        exact specs).  A body with `?`, `return`, `break`, `continue` or `.await` is left alone (it would mean something else in place)."""
        if "stdx" not in self.unit.preludes or os.environ.get("VERIF_NO_COMB"):
            return text
        base = (_baseline_src or {}).get(self.relpath.split("#")[0]) if _baseline_src is not None else None
        if base is None:
            _alpha_normalise(self.relpath.split("#")[0], "")      # loads the recorded texts
            base = (_baseline_src or {}).get(self.relpath.split("#")[0])
        if not base:
            return text
        if not hasattr(self.unit, "_base_norm"):
            self.unit._base_norm = {}
        bkey = self.relpath.split("#")[0]
        if bkey not in self.unit._base_norm:
            self.unit._base_norm[bkey] = " ".join(" ".join(t.text for t in lex(v)) for v in base.values())
        base_norm = self.unit._base_norm[bkey]
        counter = 0
        for _round in range(60):
            toks = lex(text)
            n = len(toks)
            done = True
            for k in range(2, n - 3):
                if not (toks[k].kind == "ident" and toks[k].text in self.COMB_METHODS and toks[k - 1].text == "." and toks[k + 1].text == "("):
                    continue
                close = match_close(toks, k + 1)
                # arguments at top level
                args, cur, j = [], k + 2, k + 2
                while j < close:
                    if toks[j].text in OPEN:
                        j = match_close(toks, j) + 1
                        continue
                    if toks[j].text == "|" and (j == cur or toks[j - 1].text == "move"):
                        # closure parameter list: skip to its closing bar
                        j2 = j + 1
                        while j2 < close and toks[j2].text != "|":
                            if toks[j2].text in OPEN:
                                j2 = match_close(toks, j2)
                            j2 += 1
                        j = j2 + 1
                        continue
                    if toks[j].text == ",":
                        args.append((cur, j))
                        cur = j + 1
                    j += 1
                if cur < close:
                    args.append((cur, close))
                meth = toks[k].text

                def closure(a):
                    """(params text list, body text) of the closure toks[a[0]:a[1]], or None"""
                    i0, i1 = a
                    if toks[i0].text == "move":
                        i0 += 1
                    if toks[i0].text != "|":
                        return None
                    if toks[i0 + 1].text == "|" and toks[i0 + 1].start == toks[i0].end:
                        pe = i0 + 1
                        params = []
                    else:
                        pe = i0 + 1
                        while pe < i1 and toks[pe].text != "|":
                            if toks[pe].text in OPEN:
                                pe = match_close(toks, pe)
                            pe += 1
                        # split parameters, drop type ascriptions
                        params, c0, q, ang = [], i0 + 1, i0 + 1, 0
                        colon = None
                        while q <= pe:
                            tx = toks[q].text if q < pe else ","
                            if q < pe and tx in OPEN:
                                q = match_close(toks, q) + 1
                                continue
                            if tx == "<":
                                ang += 1
                            elif tx == ">" and ang:
                                ang -= 1
                            elif tx == ":" and ang == 0 and colon is None and toks[q + 1].text != ":" and toks[q - 1].text != ":":
                                colon = q
                            elif tx == "," and ang == 0:
                                endp = colon if colon is not None else q
                                params.append(text[toks[c0].start:toks[endp - 1].end])
                                c0, colon = q + 1, None
                            q += 1
                    b0 = pe + 1
                    if b0 >= i1:
                        return None
                    if toks[b0].text == "-" and toks[b0 + 1].text == ">":
                        return None
                    body_toks = toks[b0:i1]
                    if any((t.kind == "ident" and t.text in ("return", "break", "continue", "await", "yield")) or t.text == "?" for t in body_toks):
                        return None
                    return params, text[toks[b0].start:toks[i1 - 1].end]

                def pathfn(a, arity):
                    """a path to a function (`String::new`, `Error::from`) standing where a closure could: read as `|x| PATH(x)` / `|| PATH()`"""
                    i0, i1 = a
                    if i1 <= i0 or not all(t.kind == "ident" or t.text == ":" for t in toks[i0:i1]) or toks[i1 - 1].kind != "ident":
                        return None
                    if not (i1 - i0 >= 4 or toks[i0].text[0].isupper()):
                        return None      # a plain variable holding a closure is not a path to a function
                    ptxt = text[toks[i0].start:toks[i1 - 1].end]
                    return (["x0__"], f"{ptxt}(x0__)") if arity == 1 else ([], f"{ptxt}()")

                cls = [closure(a) for a in args]
                if args and cls[-1] is None:
                    ar_ = {"map": 1, "and_then": 1, "map_or": 1, "map_or_else": 1, "map_err": 1, "is_some_and": 1, "is_ok_and": 1, "is_none_or": 1,
                           "ok_or_else": 0, "then": 0}.get(meth)
                    if ar_ is not None:
                        cls[-1] = pathfn(args[-1], ar_)
                if meth == "map_or_else" and len(args) == 2 and cls[0] is None:
                    cls[0] = pathfn(args[0], 0)
                if not args or cls[-1] is None:
                    continue
                site_norm = " ".join(t.text for t in toks[k - 1:close + 1])
                if site_norm in base_norm:
                    continue          # the call was there when the contract was written: its closure is dealt with by the unit
                # receiver: the postfix chain before `.METHOD`
                j = k - 2
                while j > 0:
                    tx = toks[j].text
                    if tx in (")", "]"):
                        depth = 0
                        while True:
                            if toks[j].text in (")", "]"):
                                depth += 1
                            elif toks[j].text in ("(", "["):
                                depth -= 1
                                if depth == 0:
                                    break
                            j -= 1
                        if toks[j - 1].kind == "ident" or toks[j - 1].text in (")", "]", "?", ">"):
                            j -= 1
                            continue
                        break
                    if tx == "?":
                        j -= 1
                        continue
                    if toks[j].kind in ("ident", "lit"):
                        if toks[j - 1].text == "." and toks[j - 2].text != ".":
                            j -= 2
                            continue
                        if toks[j - 1].text == ":" and toks[j - 2].text == ":":
                            j -= 3
                            continue
                        break
                    if tx == ">":
                        break
                    break
                r0 = j
                if toks[r0].kind not in ("ident", "lit") and toks[r0].text not in ("(", "["):
                    continue
                chain = {toks[q].text for q in range(r0, k) if toks[q].kind == "ident" and toks[q - 1].text == "." and toks[q + 1].text == "("}
                after = toks[close + 2].text if (close + 2 < n and toks[close + 1].text == ".") else ""
                if chain & self.ITER_SOURCES or after in self.ITER_SINKS and meth in ("map", "and_then"):
                    continue
                recv = text[toks[r0].start:toks[k - 2].end]
                counter += 1
                c = f"{counter}__"
                V = "crate::comb::V"
                split = f"let (v{c}, w{c}) = crate::comb::View::view__({recv});"
                params, body = cls[-1]
                pat = "(" + ", ".join(params) + ")" if len(params) != 1 else params[0]
                new = None
                if meth == "map" and len(args) == 1 and len(params) == 1:
                    new = f"{{ {split} match v{c} {{ {V}::Yes({pat}) => crate::comb::Wit::yes__(w{c}, {body}), {V}::No(n{c}) => crate::comb::Wit::no__(w{c}, n{c}) }} }}"
                elif meth == "and_then" and len(args) == 1 and len(params) == 1:
                    new = f"{{ {split} match v{c} {{ {V}::Yes({pat}) => {{ {body} }}, {V}::No(n{c}) => crate::comb::FromNo::from_no__(n{c}) }} }}"
                elif meth == "map_or" and len(args) == 2 and len(params) == 1 and cls[0] is None:
                    dflt = text[toks[args[0][0]].start:toks[args[0][1] - 1].end]
                    new = f"{{ let r{c} = {recv}; let d{c} = {dflt}; let (v{c}, w{c}) = crate::comb::View::view__(r{c}); match v{c} {{ {V}::Yes({pat}) => {{ {body} }}, {V}::No(_) => d{c} }} }}"
                elif meth == "map_or_else" and len(args) == 2 and len(params) == 1 and cls[0] is not None and len(cls[0][0]) <= 1:
                    dp, db = cls[0]
                    new = f"{{ {split} match v{c} {{ {V}::Yes({pat}) => {{ {body} }}, {V}::No({dp[0] if dp else '_'}) => {{ {db} }} }} }}"
                elif meth == "unwrap_or_else" and len(args) == 1 and len(params) <= 1:
                    new = f"{{ {split} match v{c} {{ {V}::Yes(x{c}) => x{c}, {V}::No({params[0] if params else '_'}) => {{ {body} }} }} }}"
                elif meth == "ok_or_else" and len(args) == 1 and not params:
                    new = f"(match {recv} {{ Some(x{c}) => Ok(x{c}), None => Err({body}) }})"
                elif meth == "map_err" and len(args) == 1 and len(params) == 1:
                    new = f"(match {recv} {{ Ok(x{c}) => Ok(x{c}), Err({pat}) => Err({body}) }})"
                elif meth == "or_else" and len(args) == 1 and not params:
                    new = f"(match {recv} {{ Some(x{c}) => Some(x{c}), None => {{ {body} }} }})"
                elif meth == "or_else" and len(args) == 1 and len(params) == 1:
                    new = f"(match {recv} {{ Ok(x{c}) => Ok(x{c}), Err({pat}) => {{ {body} }} }})"
                elif meth == "is_some_and" and len(args) == 1 and len(params) == 1:
                    new = f"(match {recv} {{ Some({pat}) => {{ {body} }}, None => false }})"
                elif meth == "is_none_or" and len(args) == 1 and len(params) == 1:
                    new = f"(match {recv} {{ Some({pat}) => {{ {body} }}, None => true }})"
                elif meth == "is_ok_and" and len(args) == 1 and len(params) == 1:
                    new = f"(match {recv} {{ Ok({pat}) => {{ {body} }}, Err(_) => false }})"
                elif meth == "then" and len(args) == 1 and not params:
                    new = f"(if {recv} {{ Some({body}) }} else {{ None }})"
                if new is None:
                    continue
                self.rewrites_log.append({"rule": "T-COMB", "file": self.relpath, "item": self.spec,
                                          "from": text[toks[r0].start:toks[close].end], "to": new})
                text = text[:toks[r0].start] + new + text[toks[close].end:]
                done = False
                break
            if done:
                return text
        raise Undecided("T-COMB did not terminate")

    def _expand_macros(self, text):
        for _round in range(200):
            toks = lex(text)
            hit = None
            for k, t in enumerate(toks):
                if t.kind == "ident" and t.text in self.unit.macros and k + 2 < len(toks) \
                        and toks[k + 1].text == "!" and toks[k + 2].text in OPEN and (k == 0 or toks[k - 1].text != "macro_rules"):
                    hit = k
                    break
            if hit is None:
                return text
            k = hit
            params, body = self.unit.macros[toks[k].text]
            fnform = self.unit.macro_fns.get(toks[k].text)
            kc = match_close(toks, k + 2)
            # split arguments at top-level commas
            args, cur, j = [], toks[k + 2].end, k + 3
            while j < kc:
                if toks[j].text in OPEN:
                    j = match_close(toks, j) + 1
                    continue
                if toks[j].text == ",":
                    args.append(text[cur:toks[j].start].strip())
                    cur = toks[j].end
                j += 1
            last = text[cur:toks[kc].start].strip()
            if last:
                args.append(last)
            if len(args) != len(params):
                raise Undecided(f"macro {toks[k].text}: {len(args)} arguments for {len(params)} parameters")
            exp = body if fnform is None else fnform
            for pname, a in sorted(zip(params, args), key=lambda x: -len(x[0])):
                exp = re.sub(r"\$" + pname + r"\b", lambda m: a, exp)
            if "$" in exp:
                raise Undecided(f"macro {toks[k].text}: unsubstituted metavariable")
            start = toks[k].start
            # include path prefix `crate::a::` if any
            kk = k
            while kk >= 2 and toks[kk - 1].text == ":" and toks[kk - 2].text == ":":
                kk -= 3
                start = toks[kk].start
            self.rewrites_log.append({"rule": "T-MACRO", "file": self.relpath, "item": self.spec,
                                      "from": text[start:toks[kc].end], "to": exp})
            text = text[:start] + exp + text[toks[kc].end:]
        raise Undecided("macro expansion did not terminate")

    def _desugar_try(self, text):
        """T-TRY (pre-pass, opt-in): `E?` -> `(match E { Ok(v__) => v__, Err(e__) => { return Err(From::from(e__)); } })`, the definition of
        `?` on a Result in a function returning a Result.  Used where a property speaks about the converted error."""
        for _round in range(400):
            toks = lex(text)
            q = next((k for k, t in enumerate(toks) if t.text == "?" and k > 0 and toks[k - 1].text in (")", "]", "}") or
                      (t.text == "?" and k > 0 and toks[k - 1].kind == "ident")), None)
            if q is None:
                return text
            # start of the postfix chain ending at q-1
            j = q - 1
            pairs = {")": "(", "]": "[", "}": "{"}
            while True:
                tx = toks[j].text
                if tx in pairs:
                    depth, o = 0, pairs[tx]
                    while True:
                        if toks[j].text == tx:
                            depth += 1
                        elif toks[j].text == o:
                            depth -= 1
                            if depth == 0:
                                break
                        j -= 1
                    # a call / index / turbofish belongs to what precedes it
                    if toks[j - 1].kind == "ident" or toks[j - 1].text in (")", "]", ">", "!"):
                        j -= 1
                        if toks[j].text == ">":
                            # turbofish `::<..>`
                            depth = 0
                            while True:
                                if toks[j].text == ">":
                                    depth += 1
                                elif toks[j].text == "<":
                                    depth -= 1
                                    if depth == 0:
                                        break
                                j -= 1
                            j -= 3   # `::` before `<`
                        continue
                    break
                if toks[j].kind in ("ident", "lit"):
                    if toks[j - 1].text == "." or (toks[j - 1].text == ":" and toks[j - 2].text == ":"):
                        j -= 2 if toks[j - 1].text == "." else 3
                        continue
                    break
                raise Undecided("T-TRY: unsupported operand of `?`")
            if toks[j].kind == "ident" and toks[j].text in ("await",):
                raise Undecided("T-TRY: `.await?`")
            e = text[toks[j].start:toks[q - 1].end]
            new = "(match " + e + " { Ok(v__) => v__, Err(e__) => { return Err(From::from(e__)); } })"
            self.rewrites_log.append({"rule": "T-TRY", "file": self.relpath, "item": self.spec, "from": e + "?", "to": new})
            text = text[:toks[j].start] + new + text[toks[q].end:]
        raise Undecided("T-TRY did not terminate")

    def _merge_guards(self, text):
        """T-CTRL (guard merge, pre-pass): the installed Verus loses the state after a `match` with a guarded arm.  The one
        shape `P if G => E1, P => E2` (same pattern text, guard arm directly before its unguarded twin) is rewritten to
        `P => if G { E1 } else { E2 }`; any other guard is outside the supported constructs (undecided)."""
        for _round in range(50):
            toks = lex(text)
            n = len(toks)
            found = None
            for k in range(1, n - 1):
                if toks[k].text == "=" and toks[k + 1].text == ">" and toks[k].end == toks[k + 1].start:
                    j = k - 1
                    depth = 0
                    while j > 0:
                        tx = toks[j].text
                        if tx in (")", "]"):
                            depth += 1
                        elif tx in ("(", "["):
                            depth -= 1
                        elif depth == 0 and tx in (",", "{", "}"):
                            break
                        j -= 1
                    arm0 = j + 1
                    gi = next((i for i in range(arm0, k) if toks[i].text == "if"), None)
                    if gi is not None:
                        # (the last guarded arm of the text first: in a chain `P if A => .., P if B => .., _ => ..` each merge then
                        # leaves an unguarded arm behind the guarded arm before it)
                        found = (k, arm0, gi)
            if found is None:
                return text
            k, arm0, gi = found

            def arm_body(kk):
                b0 = kk + 2
                if toks[b0].text == "{":
                    e = match_close(toks, b0)
                    return b0, e, toks[e + 1].text == ","
                i = b0
                while True:
                    tx = toks[i].text
                    if tx in OPEN:
                        i = match_close(toks, i) + 1
                        continue
                    if tx == "," or tx == "}":
                        return b0, i - 1, tx == ","
                    i += 1
            pat1 = text[toks[arm0].start:toks[gi].start].strip()
            b0, b1, comma1 = arm_body(k)
            n0 = b1 + (2 if comma1 else 1)
            kk = n0
            while not (toks[kk].text == "=" and toks[kk + 1].text == ">"):
                if toks[kk].text in ("}", ";"):
                    raise Undecided("match guard outside the supported shape")
                kk += 1
            pat2 = text[toks[n0].start:toks[kk].start].strip()
            c0, c1, comma2 = arm_body(kk)
            guard = text[toks[gi + 1].start:toks[k].start].strip()
            e1 = text[toks[b0].start:toks[b1].end]
            e2 = text[toks[c0].start:toks[c1].end]
            keep_second = False
            if pat2 != pat1:
                # the next arm may also be the same pattern with its bindings replaced by `_`, or the catch-all `_`:
                # it then takes exactly the values the guard rejects (and possibly more), and binds nothing
                ptoks = lex(pat1)
                binders = {t.text for i, t in enumerate(ptoks) if t.kind == "ident" and t.text[0].islower() and t.text not in ("ref", "mut")
                           and not (i + 1 < len(ptoks) and ptoks[i + 1].text in ("(", "{", ":"))}
                wild = "".join("_" if (t.kind == "ident" and t.text in binders) else t.text for t in ptoks if t.text not in ("ref", "mut"))
                p2 = "".join(t.text for t in lex(pat2))
                uses = {t.text for t in lex(e2) if t.kind == "ident"}
                if (p2 == wild or p2 == "_") and (uses & binders) and not any(x in uses for x in ("for", "while", "loop")):
                    # the second arm's text uses a name the guarded pattern binds (it means another variable there, or binds it anew):
                    # the guarded arm's own bindings get fresh names, in its pattern, its guard and its body alike
                    def fresh_(sx):
                        ts_ = lex(sx)
                        out_, pos_ = "", 0
                        for i_, t_ in enumerate(ts_):
                            out_ += sx[pos_:t_.start]
                            if t_.kind == "ident" and t_.text in binders and not (i_ > 0 and ts_[i_ - 1].text == "."):
                                out_ += t_.text + "__g"
                            else:
                                out_ += sx[t_.start:t_.end]
                            pos_ = t_.end
                        return out_ + sx[pos_:]
                    pat1, guard, e1 = fresh_(pat1), fresh_(guard), fresh_(e1)
                    uses = uses - binders
                if p2 == wild and not (uses & binders):
                    keep_second = False
                elif p2 == "_" and not (uses & binders) and not any(x in uses for x in ("for", "while", "loop")):
                    keep_second = True
                else:
                    raise Undecided(f"match guard outside the supported shape (`{pat1} if ..` is followed by `{pat2} =>`)")
            if not e1.startswith("{"):
                e1 = "{ " + e1 + " }"
            e2b = e2 if e2.startswith("{") else "{ " + e2 + " }"
            new = f"{pat1} => if {guard} {e1} else {e2b}"
            if keep_second:
                new += f", {pat2} => {e2}"
            self.rewrites_log.append({"rule": "T-CTRL", "file": self.relpath, "item": self.spec,
                                      "from": text[toks[arm0].start:toks[c1].end], "to": new})
            text = text[:toks[arm0].start] + new + text[toks[c1].end:]
        raise Undecided("guard merge did not terminate")

    def _desugar_ctrl(self, text):
        """T-CTRL (pre-pass), two control-flow shapes the installed Verus cannot take:
        (1) `let P = loop { .. break E; .. };`  ->  `let mut brk__ = None; loop { .. { brk__ = Some(E); break; } .. } let P = brk__.unwrap();`
        (2) in a block, `if C { continue; } REST`  ->  `if C { } else { REST }`  (REST = the rest of the enclosing loop body)
        Any other `break`-with-value or `continue` makes the unit undecided."""
        for _round in range(20):
            toks = lex(text)
            n = len(toks)
            done = True
            for k in range(n - 3):
                # (1) let PAT = loop {
                if toks[k].text == "let":
                    j = k + 1
                    while j < n and toks[j].text not in ("=", ";"):
                        if toks[j].text in OPEN:
                            j = match_close(toks, j)
                        j += 1
                    if j + 2 < n and toks[j].text == "=" and toks[j + 1].text == "loop" and toks[j + 2].text == "{":
                        lo = j + 2
                        lc = match_close(toks, lo)
                        if toks[lc + 1].text != ";":
                            raise Undecided("loop-with-value outside the supported shape")
                        pat = text[toks[k + 1].start:toks[j].start].strip()
                        # breaks with a value directly belonging to this loop (not inside nested loops/closures)
                        edits = []
                        i = lo + 1
                        while i < lc:
                            if toks[i].text in ("loop", "while", "for") and toks[i].kind == "ident":
                                # skip nested loop bodies
                                m = i + 1
                                while toks[m].text != "{":
                                    if toks[m].text in ("(", "["):
                                        m = match_close(toks, m)
                                    m += 1
                                i = match_close(toks, m) + 1
                                continue
                            if toks[i].text == "break" and toks[i + 1].text != ";":
                                e = i + 1
                                while toks[e].text not in (";", ",", "}"):
                                    if toks[e].text in OPEN:
                                        e = match_close(toks, e)
                                    e += 1
                                # `break E;` (a statement) or `break E,` / `break E }` (the value of a match arm / the tail of a block)
                                end = toks[e].end if toks[e].text == ";" else toks[e].start
                                edits.append((toks[i].start, end, "{ brk__ = Some(" + text[toks[i + 1].start:toks[e].start] + "); break; }"))
                                i = e
                            i += 1
                        if not edits:
                            raise Undecided("loop-with-value without a break value")
                        new = text[:toks[k].start] + "let mut brk__ = None; loop "
                        pos = toks[lo].start
                        for (a, b, rep) in edits:
                            new += text[pos:a] + rep
                            pos = b
                        new += text[pos:toks[lc].end] + " let " + pat + " = brk__.unwrap();" + text[toks[lc + 1].end:]
                        self.rewrites_log.append({"rule": "T-CTRL", "file": self.relpath, "item": self.spec,
                                                  "from": "let " + pat + " = loop { .. break E; .. };", "to": "let mut brk__ = None; loop { .. { brk__ = Some(E); break; } .. } let " + pat + " = brk__.unwrap();"})
                        text = new
                        done = False
                        break
                # (2) if C { continue; }
                if toks[k].text == "continue" and toks[k].kind == "ident":
                    # the innermost loop this `continue` belongs to
                    own = None
                    for q in range(k - 1, -1, -1):
                        if toks[q].kind == "ident" and toks[q].text in ("loop", "while", "for") and toks[q + 1].text != "<":
                            m = q + 1
                            while m < n and toks[m].text != "{":
                                if toks[m].text in ("(", "["):
                                    m = match_close(toks, m)
                                m += 1
                            if m < k and match_close(toks, m) > k:
                                own = (q, m)
                                break
                    if own is None:
                        raise Undecided("`continue` outside a loop")
                    if toks[own[0]].text in ("loop", "while"):
                        continue   # the installed Verus takes `continue` in `loop` and `while` as it is
                    new = self._continue_in_for(text, toks, k, own)
                    self.rewrites_log.append({"rule": "T-CTRL", "file": self.relpath, "item": self.spec,
                                              "from": "S(.. continue ..); REST  (S an if / match statement of a `for` body)",
                                              "to": "S with REST moved to the end of its one branch that falls through"})
                    text = new
                    done = False
                    break
            if done:
                return text
        raise Undecided("control-flow desugaring did not terminate")

    def _continue_in_for(self, text, toks, k, own):
        """T-CTRL for `continue` in a `for` loop (the installed Verus refuses it there).  The `continue` must end a branch of an
        `if` / `match` statement S that is a statement of the loop body itself.  When exactly one branch of S falls through (the
        others end in continue / return / break), `S; REST` is the same as S with REST appended to that branch and the
        `continue`s dropped - REST is moved, never duplicated.  Anything else is refused (undecided)."""
        return self._continue_in_block(text, toks, k, own[1])

    def _continue_in_block(self, text, toks, k, bo):
        """(see _continue_in_for) bo: the `{` of the loop body, or of a branch of an `if` / `match` statement that is the LAST statement
        of the loop body (or, again, of such a branch): falling off the end of that branch is the end of the round, so the rest of
        the round after the statement that holds the `continue` is the rest of this block only."""
        n = len(toks)
        bc = match_close(toks, bo)
        DIV = ("continue", "return", "break")
        # the statement of the loop body that contains the `continue`
        i = bo + 1
        S = None
        while i < bc:
            s0 = i
            first = toks[i].text
            j = i
            end = None
            while j < bc:
                t = toks[j].text
                if t in OPEN:
                    jc = match_close(toks, j)
                    if t == "{" and first in ("if", "match", "for", "while", "loop", "unsafe", "{"):
                        nxt = toks[jc + 1].text if jc + 1 < bc else ""
                        if nxt == "else" or nxt in (".", "?"):
                            j = jc + 1
                            continue
                        end = jc + 1 if nxt == ";" else jc
                        break
                    j = jc + 1
                    continue
                if t == ";":
                    end = j
                    break
                j += 1
            if end is None:
                end = bc - 1
            if s0 <= k <= end:
                S = (s0, end)
                break
            i = end + 1
        let_pat = None
        if S is not None and toks[S[0]].text == "let":
            # `let PAT = match X { A => v, B => { ..; continue; }, .. };`: when one arm yields the value and the others leave the round,
            # the binding and the rest of the round go into that arm: `match X { A => { let PAT = v; REST } B => { .. } .. }`
            q = S[0] + 1
            while q < S[1] and not (toks[q].text == "=" and toks[q + 1].text != "=" and toks[q - 1].text not in ("=", "!", "<", ">")):
                if toks[q].text in OPEN:
                    q = match_close(toks, q)
                q += 1
            if q < S[1] and toks[q + 1].text == "match" and toks[S[1]].text == ";" and toks[S[1] - 1].text == "}":
                let_pat = text[toks[S[0]].start:toks[q].end]     # `let PAT =`
                S = (q + 1, S[1])
        if S is None or toks[S[0]].text not in ("if", "match"):
            raise Undecided("`continue` of a `for` loop outside an `if` / `match` statement of the loop body (the installed Verus takes no `continue` in `for` loops)")
        s0, s1 = S
        branches = []   # (kind, a, b): kind "block" -> tokens a..b are `{`..`}` ; kind "expr" -> arm expression a..b (no braces)
        implicit_else = False
        if toks[s0].text == "if":
            j = s0
            while True:
                # condition up to the branch block
                m = j + 1
                while toks[m].text != "{":
                    if toks[m].text in ("(", "["):
                        m = match_close(toks, m)
                    m += 1
                mc = match_close(toks, m)
                branches.append(("block", m, mc))
                if mc + 1 <= s1 and toks[mc + 1].text == "else":
                    if toks[mc + 2].text == "if":
                        j = mc + 2
                        continue
                    m2 = mc + 2
                    branches.append(("block", m2, match_close(toks, m2)))
                else:
                    implicit_else = True
                break
        else:
            m = s0 + 1
            while toks[m].text != "{":
                if toks[m].text in ("(", "["):
                    m = match_close(toks, m)
                m += 1
            mo, mc = m, match_close(toks, m)
            j = mo + 1
            while j < mc:
                # pattern [if guard] =>
                while not (toks[j].text == "=" and toks[j + 1].text == ">" and toks[j].end == toks[j + 1].start):
                    if toks[j].text in OPEN:
                        j = match_close(toks, j)
                    j += 1
                a = j + 2
                if toks[a].text == "{":
                    b = match_close(toks, a)
                    branches.append(("block", a, b))
                    j = b + 1
                    if j < mc and toks[j].text == ",":
                        j += 1
                else:
                    b = a
                    while b < mc and toks[b].text != ",":
                        if toks[b].text in OPEN:
                            b = match_close(toks, b)
                        b += 1
                    branches.append(("expr", a, b - 1))
                    j = b + 1 if b < mc else mc
        def last_stmt_start(a, b):
            """first token of the last statement / tail expression of block a..b"""
            j, last = a + 1, a + 1
            while j < b:
                if toks[j].text in OPEN:
                    j = match_close(toks, j) + 1
                    continue
                if toks[j].text == ";" and j + 1 < b:
                    last = j + 1
                j += 1
            return last
        falls, cont_sites = [], []
        for (kind, a, b) in branches:
            if kind == "block":
                if b == a + 1:
                    falls.append((kind, a, b))
                    continue
                ls = last_stmt_start(a, b)
                if toks[ls].text in DIV or (toks[ls].text == "Err" and False):
                    if toks[ls].text == "continue":
                        cont_sites.append(ls)
                else:
                    falls.append((kind, a, b))
            else:
                if toks[a].text in DIV:
                    if toks[a].text == "continue":
                        cont_sites.append(a)
                else:
                    falls.append((kind, a, b))
        if k not in cont_sites:
            inner = [(a, b) for (kind, a, b) in branches if kind == "block" and a < k < b]
            if inner and all(toks[q].text == ";" for q in range(s1 + 1, bc)):
                return self._continue_in_block(text, toks, k, inner[0][0])
            raise Undecided("`continue` of a `for` loop that does not end a branch of its `if` / `match` statement")
        nfall = len(falls) + (1 if implicit_else else 0)
        if nfall != 1:
            raise Undecided(f"`continue` of a `for` loop: {nfall} branches of the statement fall through (the rest of the round can be moved into exactly one)")
        # no other `continue` may hide deeper in S (it would have to be handled first, and differently)
        for q in range(s0, s1 + 1):
            if toks[q].text == "continue" and toks[q].kind == "ident" and q not in cont_sites:
                raise Undecided("`continue` of a `for` loop nested deeper in the same statement")
        rest = text[toks[s1].end:toks[bc].start]
        edits = [(toks[s1].end, toks[bc].start, "\n")]
        for q in cont_sites:
            e_ = toks[q].end
            if toks[q + 1].text == ";":
                e_ = toks[q + 1].end
            edits.append((toks[q].start, e_, "{}" if toks[q - 1].text == ">" or toks[q - 1].text == "," else ""))
        if let_pat is not None:
            if implicit_else:
                raise Undecided("`continue` of a `for` loop in a `let .. = if ..`")
            kind, a, b = falls[0]
            # the `let PAT =` in front of the match goes away; the value arm binds PAT and carries the rest of the round
            lp0 = toks[s0].start - len(let_pat)
            k_ = s0 - 1
            while toks[k_].text != "let":
                k_ -= 1
            edits.append((toks[k_].start, toks[s0].start, ""))
            if toks[s1].text == ";":
                edits.append((toks[s1].start, toks[s1].end, ""))
            edits.append((toks[a].start, toks[a].start, "{ " + let_pat + " "))
            edits.append((toks[b].end, toks[b].end, ";" + rest + "}"))
        elif implicit_else:
            edits.append((toks[s1].end, toks[s1].end, "")) if False else None
            last_block_close = branches[-1][2]
            edits.append((toks[last_block_close].end, toks[last_block_close].end, " else {" + rest + "}"))
        else:
            kind, a, b = falls[0]
            if kind == "block":
                ls_ = text[toks[a].end:toks[b].start].rstrip()
                sep = "" if (b == a + 1 or ls_.endswith(";") or ls_.endswith("}")) else ";"
                edits.append((toks[b].start, toks[b].start, sep + rest))
            else:
                edits.append((toks[a].start, toks[a].start, "{ "))
                edits.append((toks[b].end, toks[b].end, ";" + rest + "}"))
        out, pos = "", 0
        for (a_, b_, r_) in sorted([e for e in edits if e], key=lambda e: (e[0], e[1])):
            if a_ < pos:
                raise Undecided("`continue` of a `for` loop: overlapping rewrites")
            out += text[pos:a_] + r_
            pos = b_
        return out + text[pos:]

    def _dummy(self):
        pass

    # -- helpers ---------------------------------------------------------------------------
    def _add(self, start, end, text, rule, order=0):
        self.edits.append(Edit(start, end, text, rule, order))
        if rule != "insert":
            self.rewrites_log.append({"rule": rule, "file": self.relpath, "item": self.spec,
                                      "from": self.sf.text[start:end], "to": text})

    def _strip_attrs(self):
        toks, it = self.sf.toks, self.item
        k = it.k0
        while toks[k].text == "#":
            j = k + 1
            close = match_close(toks, j)
            inner = self.sf.text[toks[j].end:toks[close].start]
            name = toks[j + 1].text
            start, end = toks[k].start, toks[close].end
            if name in ("serde", "allow", "cfg", "doc", "test"):
                # (the build script turns the ed25519 / ed448 features on with every OpenSSL >= 1.1.1: a positive cfg on them is true)
                if name == "cfg" and "crypto_openssl" not in inner and "unix" not in inner \
                        and not (("ed25519" in inner or "ed448" in inner) and "not(" not in inner.replace(" ", "")):
                    raise Undecided(f"cfg attribute outside the closed list: {inner}")
                if name == "serde":
                    self._note_serde(inner)
                self._add(start, end, "", "T-ATTR")
            elif name == "derive":
                names = [x.strip() for x in inner[inner.index("(") + 1:inner.rindex(")")].split(",") if x.strip()]
                keep = [n for n in names if n not in SERDE_DERIVES and (n in self.keep_derives or n not in self.unit.drop_derives)]
                if keep != names:
                    self._add(start, end, f"#[derive({', '.join(keep)})]" if keep else "", "T-ATTR")
                    if "Clone" in names and "Clone" not in keep and it.kind in ("struct", "enum"):
                        self.dropped_clone = True
            k = close + 1

    def _note_serde(self, inner, where=""):
        """a dropped #[serde(..)] attribute is part of the type's JSON wire mapping, which the contracts take from the
        trusted JSON model: it is recorded, and a difference with the recorded baseline makes the unit undecided"""
        key = f"{self.relpath}::{self.spec}"
        self.unit.attrsigs.setdefault(key, []).append((where + ":" if where else "") + "".join(inner.split()))

    def _inner_attr_strip(self, k0, k1):
        """strip #[serde(..)] / #[cfg(feature = "crypto_openssl")] attributes inside an item."""
        toks = self.sf.toks
        k = k0
        while k < k1:
            if toks[k].text == "#" and toks[k + 1].text == "[":
                close = match_close(toks, k + 1)
                name = toks[k + 2].text
                inner = self.sf.text[toks[k + 1].end:toks[close].start]
                if name == "serde" or (name == "cfg" and "crypto_openssl" in inner) or name == "allow":
                    if name == "serde":
                        # which field / variant it sits on: the next identifier that is not part of an attribute
                        j_ = close + 1
                        while j_ < k1 and toks[j_].text == "#":
                            j_ = match_close(toks, j_ + 1) + 1
                        while j_ < k1 and toks[j_].text in ("pub", "(", "crate", ")"):
                            j_ += 1
                        self._note_serde(inner, toks[j_].text if j_ < k1 else "?")
                    self._add(toks[k].start, toks[close].end, "", "T-ATTR")
                elif name == "cfg" and ("ed25519" in inner or "ed448" in inner):
                    # the build script turns both features on with every OpenSSL >= 1.1.1: cfg(feature = "ed25519") is true
                    if "not(" in inner.replace(" ", ""):
                        j = close + 1
                        while toks[j].text != ";":
                            if toks[j].text in OPEN:
                                j = match_close(toks, j)
                            j += 1
                        self._add(toks[k].start, toks[j].end, "", "T-ATTR")
                        close = j
                    else:
                        self._add(toks[k].start, toks[close].end, "", "T-ATTR")
                k = close
            k += 1

    def _fn_edits(self, fn, fs):
        toks = self.sf.toks
        k0, kb, k1 = fn.k0, fn.body_open, fn.k1
        if kb is None:
            raise Undecided(f"{fn.name}: no body")
        # locate `fn` keyword and parameter list
        kf = k0
        while toks[kf].text != "fn":
            kf += 1
        # T-ASYNC
        for k in range(k0, kf):
            if toks[k].text == "async":
                self._add(toks[k].start, toks[k].end, "", "T-ASYNC")
        k = kb
        while k < k1:
            t = toks[k]
            if t.text == "await" and toks[k - 1].text == ".":
                if toks[k - 2].text not in (")", "}"):
                    raise Undecided(f"{fn.name}: .await not applied to a call expression")
                self._add(toks[k - 1].start, t.end, "", "T-ASYNC")
                # `timeout(D, FUT).await` (tokio::time): either the time limit fires and FUT is dropped - modelled as "never started" -
                # or FUT runs to its end: `if fires(D) { Err(elapsed) } else { Ok(FUT) }` (a future cut half-way is not modelled)
                if toks[k - 2].text == ")" and "time" in self.unit.preludes:
                    kc_ = k - 2
                    ko_ = kc_
                    depth_ = 0
                    while ko_ > kb:
                        if toks[ko_].text == ")":
                            depth_ += 1
                        elif toks[ko_].text == "(":
                            depth_ -= 1
                            if depth_ == 0:
                                break
                        ko_ -= 1
                    if toks[ko_ - 1].text == "timeout" and toks[ko_ - 2].text != ".":
                        ks_ = ko_ - 1
                        while toks[ks_ - 1].text == ":" and toks[ks_ - 2].text == ":" and toks[ks_ - 3].kind == "ident":
                            ks_ -= 3
                        j_, comma_ = ko_ + 1, None
                        while j_ < kc_:
                            if toks[j_].text in OPEN:
                                j_ = match_close(toks, j_)
                            elif toks[j_].text == ",":
                                comma_ = j_
                                break
                            j_ += 1
                        if comma_ is None:
                            raise Undecided(f"{fn.name}: `timeout` with one argument")
                        self._add(toks[ks_].start, toks[ko_].end, "(if crate::tokio_time::fires(", "T-ASYNC")
                        self._add(toks[comma_].start, toks[comma_].end, ") { Err(crate::tokio_time::elapsed()) } else { Ok(", "T-ASYNC")
                        self._add(toks[kc_].start, toks[kc_].end, ") })", "T-ASYNC")
            if t.text == "async" and k > kb:
                # async block: `async { B }` / `async move { B }` -> `{ B }`
                j = k + 1
                if toks[j].text == "move":
                    j += 1
                if toks[j].text != "{":
                    raise Undecided(f"{fn.name}: unsupported async construct")
                self._add(t.start, toks[j].start, "", "T-CTRL")
            k += 1
        # T-CLOSURE: `|_|` -> `|_unused|` (the installed Verus rejects a wildcard closure parameter)
        for k in range(kb, k1):
            if toks[k].text == "_" and toks[k - 1].text == "|" and toks[k + 1].text == "|":
                self._add(toks[k].start, toks[k].end, "_unused", "T-CLOSURE")
        # T-CLOSURE: a closure parameter that is a pattern (`|(a, b)| BODY`, `|acc, &(n, d)| BODY`) becomes a plain parameter bound by a
        # `let` with the very same pattern at the head of the body (the installed Verus takes only variables as closure parameters)
        k = kb
        while k < k1:
            if toks[k].text == "|" and toks[k - 1].text in ("(", ",", "=", "{", ";", "move", "return", "=>") or (toks[k].text == "|" and toks[k - 1].text == "move"):
                # parameter list up to the closing `|`
                j = k + 1
                params, cur0 = [], j
                ok_ = True
                while j < k1 and toks[j].text != "|":
                    if toks[j].text in OPEN:
                        j = match_close(toks, j)
                    elif toks[j].text == ",":
                        params.append((cur0, j))
                        cur0 = j + 1
                    elif toks[j].text in (";", "{", "}"):
                        ok_ = False
                        break
                    j += 1
                if ok_ and j < k1 and j > k + 1:
                    params.append((cur0, j))
                    pats = [(a_, b_) for (a_, b_) in params if a_ < b_ and (toks[a_].text == "(" or (toks[a_].text == "&" and toks[a_ + 1].text == "("))]
                    if pats and toks[j + 1].text != "-":
                        # body: a block, or an expression up to the `,` / `)` / `;` that ends the closure
                        bs = j + 1
                        if toks[bs].text == "{":
                            be = match_close(toks, bs)
                            lets = []
                            for n_, (a_, b_) in enumerate(pats):
                                # the pattern ends before an optional `: TYPE`
                                e_ = match_close(toks, a_ if toks[a_].text == "(" else a_ + 1)
                                pat_txt = self.sf.text[toks[a_].start:toks[e_].end]
                                self._add(toks[a_].start, toks[e_].end, f"p__{k}_{n_}", "T-CLOSURE", order=-99)
                                lets.append(f"let {pat_txt} = p__{k}_{n_};")
                            self._add(toks[bs].end, toks[bs].end, " " + " ".join(lets) + " ", "T-CLOSURE", order=-99)
                        else:
                            e2 = bs
                            while e2 < k1 and toks[e2].text not in (",", ")", ";", "]", "}"):
                                if toks[e2].text in OPEN:
                                    e2 = match_close(toks, e2)
                                e2 += 1
                            lets = []
                            for n_, (a_, b_) in enumerate(pats):
                                e_ = match_close(toks, a_ if toks[a_].text == "(" else a_ + 1)
                                pat_txt = self.sf.text[toks[a_].start:toks[e_].end]
                                self._add(toks[a_].start, toks[e_].end, f"p__{k}_{n_}", "T-CLOSURE", order=-99)
                                lets.append(f"let {pat_txt} = p__{k}_{n_};")
                            self._add(toks[bs].start, toks[bs].start, "{ " + " ".join(lets) + " ", "T-CLOSURE", order=-99)
                            self._add(toks[e2 - 1].end, toks[e2 - 1].end, " }", "T-CLOSURE", order=-99)
                    k = j
            k += 1
        # T-CLOSURE (projection closures): `|p| p.a.b`, `|| v`, `|a, b| (a.x, b)`, `|h| !h.flag` .. - plain parameters, and a body made of
        # variables, field accesses, literals, tuples, `&` `*` `!` and comparisons only (no call) - say what they return:
        # `|p: _| -> (r__: _) ensures equal(r__, BODY) { BODY }`.  Nothing is assumed: the verifier proves the clause from the body.
        k = kb
        while k < k1 - 2:
            if toks[k].text == "|" and (toks[k - 1].text in ("(", ",", "=", "{", ";", "move", "return") or (toks[k - 1].text == ">" and toks[k - 2].text == "=")):
                j = k + 1
                names, ok_ = [], True
                if toks[j].text == "|" and toks[j].start == toks[k].end:
                    pass
                else:
                    while j < k1 and toks[j].text != "|":
                        if toks[j].kind == "ident" and toks[j].text != "_" and toks[j + 1].text in (",", "|"):
                            names.append(j)
                        elif toks[j].text != ",":
                            ok_ = False
                            break
                        j += 1
                bs = j + 1
                if ok_ and j < k1 and toks[j].text == "|" and toks[bs].text not in ("{", "-"):
                    e2 = bs
                    while e2 < k1 and toks[e2].text not in (",", ")", ";", "]", "}"):
                        if toks[e2].text == "(":
                            e2 = match_close(toks, e2)
                        elif toks[e2].text in ("[", "{"):
                            ok_ = False
                            break
                        e2 += 1
                    body = toks[bs:e2]
                    ALLOWED_P = set(". ( ) , & * ! = < >".split())
                    for q_, t_ in enumerate(body):
                        if t_.kind == "ident":
                            if t_.text in ("move", "return", "if", "match", "as", "mut", "async", "await", "loop", "while", "for", "unsafe") or \
                                    (q_ + 1 < len(body) and body[q_ + 1].text in ("(", "!", ":")):
                                ok_ = False
                        elif t_.kind == "lit":
                            pass
                        elif t_.kind == "punct":
                            if t_.text not in ALLOWED_P:
                                ok_ = False
                        else:
                            ok_ = False
                    if ok_ and body and e2 < k1:
                        btxt = self.sf.text[toks[bs].start:toks[e2 - 1].end]
                        for n_ in names:
                            self._add(toks[n_].end, toks[n_].end, ": _", "T-CLOSURE", order=-99)
                        self._add(toks[bs].start, toks[bs].start, f"-> (r__: _) ensures equal(r__, {btxt}) {{ ", "T-CLOSURE", order=-99)
                        self._add(toks[e2 - 1].end, toks[e2 - 1].end, " }", "T-CLOSURE", order=-99)
                        k = e2
                        continue
            k += 1
        # allocation guard: `with_capacity(N)` / `reserve(N)` / `vec![x; N]` panic ("capacity overflow") or abort (allocation failure)
        # for a large N, and vstd states no bound for them.  N may be a literal, a constant or the length of something that exists;
        # any other size is one the contracts do not bound: undecided (never passed silently, never an alarm)
        for k in range(kb, k1 - 2):
            if toks[k].kind == "ident" and toks[k].text in ("with_capacity", "reserve", "reserve_exact", "try_reserve") and toks[k + 1].text == "(":
                c_ = match_close(toks, k + 1)
                arg = "".join(self.sf.text[toks[k + 2].start:toks[c_].start].split()) if c_ > k + 2 else ""
                if not (re.fullmatch(r"\d[\d_]*(?:usize|u64|u32)?", arg) or re.fullmatch(r"(?:[A-Za-z_]\w*::)*[A-Z][A-Z0-9_]*", arg)
                        or re.fullmatch(r"[\w.&*]+\.len\(\)(?:[+*]\d+)?", arg) or arg == ""):
                    if toks[k].text == "with_capacity" and toks[k - 1].text == ":" and toks[k - 3].text == "Vec" and "stdx" in self.unit.preludes:
                        # Vec::with_capacity(N): through a helper that states the bound under which no `capacity overflow` can occur
                        self._add(toks[k - 3].start, toks[k].end, "crate::stdcap::vec_with_capacity", "T-ALLOC", order=-99)
                        continue
                    raise Undecided(f"{fn.name}: `{toks[k].text}({arg})`: an allocation sized by a value the contracts do not bound "
                                    "(a huge size panics with `capacity overflow` or aborts on allocation failure)")
        # T-CFG: the unix build is the one verified (acmed only ships for unix): cfg!(unix) is `true`
        for k in range(kb, k1):
            if toks[k].text == "cfg" and toks[k + 1].text == "!" and toks[k + 2].text == "(" and toks[k + 3].text == "unix" and toks[k + 4].text == ")":
                self._add(toks[k].start, toks[k + 4].end, "true", "T-CFG")
        # T-CONST-STD: associated constants of std types (the installed Verus cannot read them) go through a function of the time prelude
        if "time" in self.unit.preludes:
            for k in range(kb, k1 - 3):
                if toks[k].text == "Duration" and toks[k + 1].text == ":" and toks[k + 2].text == ":" and toks[k + 3].text in ("ZERO", "MAX") \
                        and toks[k - 1].text != ":":
                    self._add(toks[k].start, toks[k + 3].end, "crate::duration_zero()" if toks[k + 3].text == "ZERO" else "crate::duration_max()", "T-CONST-STD", order=-99)
        # T-STR: `PathBuf::from(X)` goes through the path model's conversion (prelude fs), whatever text-like type X has
        if "fs" in self.unit.preludes:
            for k in range(kb, k1 - 4):
                if toks[k].text == "PathBuf" and toks[k + 1].text == ":" and toks[k + 2].text == ":" and toks[k + 3].text == "from" and toks[k + 4].text == "(" \
                        and toks[k - 1].text != ":":
                    self._add(toks[k].start, toks[k + 3].end, "crate::vpath::to_path", "T-STR", order=-99)
        # T-STR: `.trim_start_matches(P)` / `.trim_end_matches(P)` / `.strip_prefix(P)` / `.starts_with(P)` .. take any pattern type;
        # with a character or string literal the call goes to the method of the same meaning for that pattern type (prelude stdx,
        # trait StrExt, exact specs) - only the method's name changes
        if "stdx" in self.unit.preludes:
            for k in range(kb, k1 - 3):
                if toks[k].text == "." and toks[k + 1].kind == "ident" and toks[k + 1].text in ("trim_start_matches", "trim_end_matches", "strip_prefix", "strip_suffix", "starts_with", "ends_with", "contains") \
                        and toks[k + 2].text == "(" and toks[k + 4].text == ")":
                    lit = toks[k + 3]
                    kind_ = "char" if lit.text.startswith("'") and lit.kind != "lifetime" else "str" if lit.text.startswith('"') else None
                    if kind_:
                        self._add(toks[k + 1].start, toks[k + 1].end, f"{toks[k + 1].text}_{kind_}", "T-STR", order=-99)
                # `.extend(X)` takes anything iterable: for a Vec given a Vec, a slice or a reference to a Vec the call goes to the
                # method of the same meaning (trait VecExtendX, exact spec: the elements are appended in order); anything else does not resolve
                if toks[k].text == "." and toks[k + 1].text == "extend" and toks[k + 2].text == "(":
                    self._add(toks[k + 1].start, toks[k + 1].end, "extend_x", "T-STR", order=-99)
                if toks[k].text == "." and toks[k + 1].text == "as_deref" and toks[k + 2].text == "(" and toks[k + 3].text == ")":
                    self._add(toks[k + 1].start, toks[k + 1].end, "as_deref_str", "T-STR", order=-99)
                # `.replace(P, R)`: a character, a string literal or an array of characters as the pattern
                if toks[k].text == "." and toks[k + 1].text == "replace" and toks[k + 2].text == "(":
                    lit = toks[k + 3]
                    if lit.text == "[":
                        kc_ = match_close(toks, k + 3)
                        if toks[kc_ + 1].text == "," and all(t_.text == "," or (t_.kind == "lit" and t_.text.startswith("'")) for t_ in toks[k + 4:kc_]):
                            self._add(toks[k + 1].start, toks[k + 1].end, "replace_chars", "T-STR", order=-99)
                            self._add(lit.start, lit.start, "&", "T-STR", order=-99)
                    elif toks[k + 4].text == ",":
                        kind_ = "char" if lit.text.startswith("'") and lit.kind != "lifetime" else "str" if lit.text.startswith('"') else None
                        if kind_:
                            self._add(toks[k + 1].start, toks[k + 1].end, f"replace_{kind_}", "T-STR", order=-99)
        # T-MAP: `M[&K]` (indexing a map by a borrowed key) is `*M.get(&K).unwrap()` - the panic on a missing key becomes the
        # precondition of `unwrap`
        for k in range(kb + 2, k1 - 2):
            if toks[k].text == "[" and toks[k + 1].text == "&" and toks[k - 1].kind == "ident" and toks[k].start == toks[k - 1].end \
                    and toks[k - 1].text not in ("mut", "in", "return", "let", "if", "match", "else", "move"):
                kc_ = match_close(toks, k)
                j_ = k - 1
                while j_ - 2 > kb and toks[j_ - 1].text == "." and toks[j_ - 2].kind == "ident":
                    j_ -= 2
                if toks[j_ - 1].text in (".", "#", "!", ")", "]", "?") or (toks[j_ - 1].text == ":" and toks[j_ - 2].text == ":"):
                    continue
                self._add(toks[j_].start, toks[j_].start, "(*", "T-MAP", order=-99)
                self._add(toks[k].start, toks[k].end, ".get(", "T-MAP", order=-99)
                self._add(toks[kc_].start, toks[kc_].end, ").unwrap())", "T-MAP", order=-99)
        # T-CONST: a function-local `const NAME: &T = ..;` gets the `'static` the elision stands for (Verus wants it written)
        for k in range(kb + 1, k1 - 4):
            if toks[k].text == "const" and toks[k + 1].kind == "ident" and toks[k + 2].text == ":" and toks[k + 3].text == "&" \
                    and toks[k + 4].kind != "lifetime" and toks[k - 1].text in (";", "{", "}"):
                self._add(toks[k + 3].end, toks[k + 3].end, "'static ", "T-CONST")
        # T-STATIC: a function-local `static NAME: TYPE = INIT;` keeps its content from one call to the next: within one call it is a
        # local whose content at entry is unknown (OnceLock is modelled in prelude stdx)
        if "stdx" in self.unit.preludes:
            k = kb + 1
            while k < k1:
                if toks[k].text == "static" and toks[k + 1].kind == "ident" and toks[k + 2].text == ":" and toks[k - 1].text in (";", "{", "}"):
                    j = k + 3
                    while toks[j].text != "=" or toks[j + 1].text == "=":
                        j += 1
                    e = j
                    while toks[e].text != ";":
                        if toks[e].text in OPEN:
                            e = match_close(toks, e)
                        e += 1
                    ty = self.sf.text[toks[k + 3].start:toks[j].start].strip()
                    ty = re.sub(r"^(?:std::sync::)?OnceLock<", "crate::vsync::OnceLock<", ty)
                    self._add(toks[k].start, toks[e].end, f"let {toks[k + 1].text}: {ty} = crate::vsync::unknown();", "T-STATIC")
                    k = e
                k += 1
        # T-STATIC (top level): a `static NAME: OnceLock<T> = OnceLock::new();` of the source file that this function names holds
        # whatever earlier calls (of any function, on any thread) have left in it: at entry its content is unknown
        if "stdx" in self.unit.preludes and self.mode == "verify":
            try:
                file_text_ = source(self.relpath).text
            except Exception:
                file_text_ = ""
            for ms_ in re.finditer(r"(?m)^(?:pub(?:\([^)]*\))?\s+)?static\s+(\w+)\s*:\s*(?:std::sync::)?OnceLock<(.+?)>\s*=\s*(?:std::sync::)?OnceLock::new\(\);", file_text_):
                nm_, ty_ = ms_.group(1), ms_.group(2)
                if any(toks[q].kind == "ident" and toks[q].text == nm_ for q in range(kb, k1)):
                    self._add(toks[kb].end, toks[kb].end, f"\n    let {nm_}: crate::vsync::OnceLock<{ty_}> = crate::vsync::unknown();\n", "T-STATIC")
        # T-LOG: log::level!( .. )
        k = kb
        while k < k1:
            t = toks[k]
            if t.text == "log" and toks[k + 1].text == ":" and toks[k + 4].text == "!" and toks[k + 5].text == "(":
                close = match_close(toks, k + 5)
                inner = toks[k + 6:close]
                if any(x.text == "(" and inner[i - 1].kind == "ident" and inner[i - 1].text not in PURE_LOG
                       for i, x in enumerate(inner) if i > 0):
                    if not (inner[0].kind == "lit" and inner[0].text.startswith('"')):
                        raise Undecided(f"{fn.name}: log macro without a literal format string")
                    self._add(t.start, toks[close].end, "{ " + self._log_arg_stmts(k + 6, close) + " }", "T-LOG")
                else:
                    self._add(t.start, toks[close].end, "()", "T-LOG")
                k = close
            k += 1
        # T-ATTR inside bodies: #[cfg(feature = "crypto_openssl")] on statements/blocks (feature is on in every shipped build)
        self._inner_attr_strip(kb, k1)
        # T-FMT (opaque): `format!(..).into()` builds an error message; its text is irrelevant to every property
        k = kb
        while k < k1:
            t = toks[k]
            if t.text == "format" and toks[k + 1].text == "!" and toks[k + 2].text == "(":
                close = match_close(toks, k + 2)
                into_err = toks[close + 1].text == "." and toks[close + 2].text == "into" and toks[k - 1].text != "&"
                from_err = toks[k - 1].text == "(" and toks[k - 2].text == "from" and toks[k - 4].text == ":" and toks[k - 5].text == "Error"
                let_msg = False
                if toks[k - 1].text == "=" and toks[k - 2].kind == "ident" and toks[k - 3].text == "let" and toks[close + 1].text == ";":
                    # `let X = format!(..);` where X is only ever turned into an error (`X.into()`) or handed to the logger (`L.warn(&X)`)
                    name, uses, ok = toks[k - 2].text, 0, True
                    for j in range(close + 2, k1):
                        if toks[j].kind == "ident" and toks[j].text == name and toks[j - 1].text != ".":
                            uses += 1
                            to_err = toks[j + 1].text == "." and toks[j + 2].text == "into" and toks[j + 3].text == "("
                            to_log = toks[j - 1].text == "&" and toks[j - 2].text == "(" and toks[j - 3].text in ("warn", "info", "debug", "trace") and toks[j - 4].text == "."
                            if toks[j - 1].text == "let":
                                break   # shadowed from here on
                            if not (to_err or to_log):
                                ok = False
                    let_msg = ok and uses > 0
                if into_err or from_err or let_msg:
                    inner = toks[k + 3:close]
                    if not any(x.text == "(" and i > 0 and inner[i - 1].kind == "ident" and inner[i - 1].text not in PURE_LOG
                               for i, x in enumerate(inner)):
                        self._add(t.start, toks[close].end, "crate::opaque_string()", "T-FMT", order=(-99 if (let_msg and not (into_err or from_err)) else 0))
                k = close
            k += 1
        # T-LOG (3): bare debug!(..) / info!(..) ... imported from the log crate
        k = kb
        while k < k1:
            t = toks[k]
            if t.kind == "ident" and t.text in ("trace", "debug", "info", "warn", "error") and toks[k + 1].text == "!" \
                    and toks[k + 2].text == "(" and toks[k - 1].text not in (":", "."):
                close = match_close(toks, k + 2)
                inner = toks[k + 3:close]
                if any(x.text == "(" and i > 0 and inner[i - 1].kind == "ident" and inner[i - 1].text not in PURE_LOG
                       for i, x in enumerate(inner)):
                    if not (inner[0].kind == "lit" and inner[0].text.startswith('"')):
                        raise Undecided(f"{fn.name}: log macro without a literal format string")
                    self._add(t.start, toks[close].end, "{ " + self._log_arg_stmts(k + 3, close) + " }", "T-LOG")
                else:
                    self._add(t.start, toks[close].end, "()", "T-LOG")
                k = close
            k += 1
        # T-LOG (2): LOGGER.trace|debug|info|warn(&format!(..)) through the HasLogger trait
        PURE = PURE_LOG
        k = kb
        while k < k1:
            t = toks[k]
            if t.kind == "ident" and toks[k + 1].text == "." and toks[k + 2].text in ("trace", "debug", "info", "warn") \
                    and toks[k + 3].text == "(" and toks[k + 4].text == "&" and toks[k + 5].text == "format" \
                    and toks[k + 6].text == "!" and toks[k - 1].text != ".":
                close = match_close(toks, k + 3)
                inner = toks[k + 8:close]
                impure = any(x.text == "(" and i > 0 and inner[i - 1].kind == "ident" and inner[i - 1].text not in PURE
                             for i, x in enumerate(inner))
                if not impure:
                    self._add(t.start, toks[close].end, "()", "T-LOG")
                else:
                    # the message is dropped but its arguments are still evaluated (they may fail with `?`)
                    fclose = match_close(toks, k + 7)
                    stmts = self._log_arg_stmts(k + 8, fclose)
                    self._add(t.start, toks[close].end, "{ " + stmts + " }", "T-LOG")
                k = close
            k += 1
        # parameter list
        kp = kf + 2
        if toks[kp].text == "<":
            depth = 0
            while True:
                if toks[kp].text == "<":
                    depth += 1
                elif toks[kp].text == ">" and toks[kp - 1].text != "-":
                    depth -= 1
                    if depth == 0:
                        break
                kp += 1
            kp += 1
        if toks[kp].text != "(":
            raise Undecided(f"{fn.name}: cannot find parameter list")
        kpc = match_close(toks, kp)
        if fs.ghost:
            last = toks[kpc - 1]
            empty = kpc == kp + 1
            sep = "" if empty or last.text == "," else ", "
            self._add(toks[kpc].start, toks[kpc].start, sep + GHOST_PARAM, "T-GHOST")
        # return type naming
        if fs.ret:
            if toks[kpc + 1].text == "-" and toks[kpc + 2].text == ">":
                # return type ends at `where` or body `{` at depth 0
                j = kpc + 3
                depth = 0
                while j < kb:
                    tj = toks[j]
                    if tj.text in ("(", "["):
                        j = match_close(toks, j) + 1
                        continue
                    if tj.text == "where" and depth == 0:
                        break
                    j += 1
                self._add(toks[kpc + 3].start, toks[kpc + 3].start, f"({fs.ret}: ", "T-RET")
                self._add(toks[j - 1].end, toks[j - 1].end, ")", "T-RET")
            else:
                raise Undecided(f"{fn.name}: ret name given but no return type")
        # signature contract
        # loops are verified with the facts of their context (no loop isolation): naming a sub-expression before a loop, or any other
        # harmless movement of a `let`, must not lose what the invariant relies on
        if self.mode != "stub" and "loop_isolation" not in (fs.attrs or "") and "external_body" not in (fs.attrs or "") \
                and loops_in(toks, kb, k1) and os.environ.get("VERIF_LOOP_ISOLATION", "0") != "1" \
                and not any(("ensures" in v_ or "invariant_except_break" in v_) for v_ in fs.loops.values()):
            import copy as _copy
            fs = _copy.copy(fs)
            fs.attrs = ((fs.attrs + "\n") if fs.attrs else "") + "#[verifier::loop_isolation(false)]"
        if fs.attrs:
            self._add(toks[k0].start, toks[k0].start, fs.attrs + "\n", "insert")
        if self.mode == "stub":
            self._add(toks[k0].start, toks[k0].start, "#[verifier::external_body]\n", "insert", order=1)
            if fs.sig:
                self._add(toks[kb].start, toks[kb].start, "\n" + fs.sig + "\n", "insert")
            # body replaced
            self._add(toks[kb].end, toks[k1].start, " unimplemented!() ", "STUB-BODY")
            # drop edits that fall inside the removed body
            body_s, body_e = toks[kb].end, toks[k1].start
            self.edits = [e for e in self.edits if not (e.start >= body_s and e.end <= body_e and e.rule != "STUB-BODY")]
            self.rewrites_log = [r for r in self.rewrites_log if r["rule"] not in ("T-LOG",) or True]
            return
        if fs.names:
            import copy
            body_text = self.sf.text[toks[k0].start:toks[k1].end]
            bound = {}
            for ph, pat in fs.names.items():
                m_ = re.search(pat, body_text, re.S)
                if not m_:
                    raise Undecided(f"{fn.name}: no local matches /{pat}/ (needed by the contract as ${ph})")
                bound[ph] = m_.group(1)
            def sub_(t):
                if not isinstance(t, str):
                    return t
                for ph in sorted(bound, key=len, reverse=True):
                    t = t.replace("$" + ph, bound[ph])
                return t
            fs = copy.copy(fs)
            fs.sig, fs.body_start = sub_(fs.sig), sub_(fs.body_start)
            fs.loops = {k_: sub_(v_) for k_, v_ in fs.loops.items()}
            fs.at = [tuple(sub_(x) if i_ in (1, 3) else x for i_, x in enumerate(a_)) for a_ in fs.at]
            fs.rewrites = [tuple(sub_(x) if (i_ in (1, 2) and isinstance(x, str)) else x for i_, x in enumerate(r_)) for r_ in fs.rewrites]
        if fs.sig:
            self._add(toks[kb].start, toks[kb].start, "\n" + fs.sig + "\n", "insert")
        if fs.body_start:
            self._add(toks[kb].end, toks[kb].end, "\n" + fs.body_start + "\n", "insert")
        # loops
        lps = loops_in(toks, kb, k1)
        if not lps and (fs.loops or getattr(fs, "counted", None) or any(a_[0].startswith("loop_") for a_ in fs.at)):
            # the function has no loop any more: its loop contracts (invariants, the proof steps placed in or around loops) have nothing
            # left to say, and what remains is straight-line code that the postconditions are checked against directly
            import copy as _copy0
            fs = _copy0.copy(fs)
            fs.loops, fs.counted = {}, {}
            fs.at = [a_ for a_ in fs.at if not a_[0].startswith("loop_")]
            self.unit.loopless.add(fn.name)
        # a loop may be named by its ordinal or by a regex over its header (`for x in xs.iter()` ..): a keyed contract follows its
        # loop when statements are moved around
        def _loop_no(key):
            if isinstance(key, int):
                return key
            hits = [n_ + 1 for n_, (kw_, ko_) in enumerate(lps) if re.search(key, " ".join(self.sf.text[toks[kw_].start:toks[ko_].start].split()))]
            if len(hits) != 1:
                raise Undecided(f"{fn.name}: {len(hits)} loops match /{key}/ (the contract names one loop by its header)")
            return hits[0]
        keyed_ = bool(fs.loops) and all(isinstance(k_, str) for k_ in list(fs.loops) + list(getattr(fs, "counted", None) or {})
                                        + [a_[2] for a_ in fs.at if a_[0] in ("loop_start", "loop_iter", "loop_end", "loop_after")])
        if any(isinstance(k_, str) for k_ in list(fs.loops) + list(getattr(fs, "counted", None) or {})) or any(a_[0].startswith("loop_") and isinstance(a_[2], str) for a_ in fs.at):
            import copy as _copy
            fs = _copy.copy(fs)
            fs.loops = {_loop_no(k_): v_ for k_, v_ in fs.loops.items()}
            fs.counted = {_loop_no(k_): v_ for k_, v_ in (getattr(fs, "counted", None) or {}).items()}
            fs.at = [tuple([a_[0], a_[1], _loop_no(a_[2])] + list(a_[3:])) if a_[0].startswith("loop_") else a_ for a_ in fs.at]
        if self.unit.vacuity and "external_body" not in (fs.attrs or ""):
            self._add(toks[kb].end, toks[kb].end, f"\nproof {{ assert(false); }} //@VACUITY.entry.{fn.name}\n", "insert", order=-5)
            isolated = "loop_isolation(false)" not in (fs.attrs or "")
            if isolated:
                for n, (kw, ko) in enumerate(lps):
                    self._add(toks[ko].end, toks[ko].end, f"\nproof {{ assert(false); }} //@VACUITY.loop{n+1}.{fn.name}\n", "insert", order=-5)
            self.unit.vacuity_expected.append(f"VACUITY.entry.{fn.name}")
            if isolated:
                self.unit.vacuity_expected += [f"VACUITY.loop{n+1}.{fn.name}" for n in range(len(lps))]
        counted_sub = {}
        for ordinal, ph in (getattr(fs, "counted", None) or {}).items():
            if ordinal < 1 or ordinal > len(lps):
                raise Undecided(f"{fn.name}: loop #{ordinal} not found (has {len(lps)})")
            kw, ko = lps[ordinal - 1]
            if toks[kw].text == "for":
                j_ = kw + 1
                while j_ < ko and not (toks[j_].text == "in" and toks[j_].kind == "ident"):
                    if toks[j_].text in OPEN:
                        j_ = match_close(toks, j_)
                    j_ += 1
                if j_ >= ko:
                    raise Undecided(f"{fn.name}: loop #{ordinal}: no `in`")
                rng = self.sf.text[toks[j_ + 1].start:toks[ko].start].strip()
                if not re.match(r"^\(?\s*0\s*\.\.=?\s*[^=\s]", rng):
                    raise Undecided(f"{fn.name}: loop #{ordinal}: counted loop over `{rng}` (only `0..N` counts rounds from zero)")
                gname = f"cnt{ordinal}__"
                self._add(toks[j_ + 1].start, toks[j_ + 1].start, gname + ": ", "insert")
                counted_sub[ordinal] = (ph, f"{gname}.index@", "")
            elif toks[kw].text == "while":
                cond = self.sf.text[toks[kw].end:toks[ko].start].strip()
                m_ = re.match(r"^(\w+)\s*<\s*([\w:]+(?:\s+as\s+\w+)?)$", cond)
                if not m_:
                    raise Undecided(f"{fn.name}: loop #{ordinal}: `while {cond}` is not of the form `while COUNTER < BOUND`")
                x_, e_ = m_.group(1), m_.group(2)
                counted_sub[ordinal] = (ph, f"({x_} as int)", f"        {x_} <= {e_},\n    decreases {e_} - {x_},\n")
            else:
                raise Undecided(f"{fn.name}: loop #{ordinal} is a bare `loop`: its contract counts rounds of a `for`/`while` loop")
        lock_extra = {}
        if getattr(fs, "locks", False):
            import locks as _locks
            l_ins, lock_extra, l_n = _locks.plan(self.sf.text, toks, kb, k1, lps, fn.name)
            for pos_, txt_ in l_ins:
                self._add(pos_, pos_, txt_, "T-DROP" if "release" in txt_ or "lkh_" in txt_ else "T-LOCK")
            for n_ in lock_extra:
                if n_ not in fs.loops:
                    self._add(toks[lps[n_ - 1][1]].start, toks[lps[n_ - 1][1]].start, f"\n    invariant {lock_extra[n_]},\n", "T-DROP")
        for ordinal, text in fs.loops.items():
            if ordinal < 1 or ordinal > len(lps):
                raise Undecided(f"{fn.name}: loop #{ordinal} not found (has {len(lps)})")
            kw, ko = lps[ordinal - 1]
            if ordinal in lock_extra:
                text = re.sub(r"\binvariant\b", "invariant " + lock_extra[ordinal] + ",", text, count=1)
                text = re.sub(r"\bensures\b", "ensures " + lock_extra[ordinal] + ",", text, count=1)
            if ordinal in counted_sub:
                ph, repl_, extra_ = counted_sub[ordinal]
                text = text.replace("$" + ph, repl_)
                if extra_:
                    if "decreases" in text:
                        raise Undecided(f"{fn.name}: loop #{ordinal}: counted loop contract already has a decreases clause")
                    text = text.rstrip() + "\n" + extra_
            self._add(toks[ko].start, toks[ko].start, "\n" + text + "\n", "insert")
        self.nloops = len(lps)
        # the control skeleton of each loop: kind + the jumps out of / around its body, in order.  A loop contract (invariant, loop
        # ensures) is written for one skeleton; when a loop has been restructured, failures in the function are not verdicts.
        sig_parts = []
        for (kw_, ko_) in lps:
            kc_ = match_close(toks, ko_)
            inner = [t_.text for t_ in toks[ko_ + 1:kc_] if (t_.kind == "ident" and t_.text in ("break", "continue", "return", "loop", "for", "while")) or t_.text == "?"]
            valued = "=" if (toks[kw_ - 1].text == "=" or any(t_.text == "brk__" for t_ in toks[ko_ + 1:kc_])) else ""
            sig_parts.append(valued + toks[kw_].text + ":" + ",".join(inner))
        lsig = "|".join(sig_parts)
        lkey = f"{self.relpath}::{self.spec}::{fn.name}"
        self.unit.loopsigs[lkey] = lsig
        want_sig = self.unit.baseline_loopsigs.get(lkey)
        def _same_but_more_exits(a, b):
            # the loops are the same ones (kind, value-yielding or not, nesting, `continue`s); only the exits out of their bodies
            # (`?`, return, break) differ: the invariant at the loop head still means what it meant, and every path through the
            # body - old or new - is checked against it and against the function's postconditions
            pa, pb = a.split("|"), b.split("|")
            if keyed_ and len(pb) < len(pa) and not (getattr(fs, "counted", None) or {}):
                # loops without a contract of their own have gone (their work is now straight-line code or a helper call): every loop
                # that does carry a contract - named by its header, and found - must still be of the kind it was, with the same `continue`s
                def core(z):
                    h_, _, j_ = z.partition(":")
                    return (h_, tuple(t for t in j_.split(",") if t == "continue"))
                return all(any(core(pb[c_ - 1]) == core(x_) for x_ in pa) for c_ in fs.loops)
            if len(pa) != len(pb):
                return False
            if keyed_ and not (getattr(fs, "counted", None) or {}):
                # every loop contract of this function is keyed by its loop's header: the order of the (top-level) loops is free
                pa, pb = sorted(pa), sorted(pb)
            for n_, (x, y) in enumerate(zip(pa, pb), 1):
                hx, _, jx = x.partition(":")
                hy, _, jy = y.partition(":")
                keep = ("loop", "for", "while", "continue")
                if n_ in (getattr(fs, "counted", None) or {}):
                    # a counted loop: its contract speaks of the number of completed rounds, which a `for _ in 0..N` and a
                    # `while i < N` both have; every path back to the loop head (a `continue` too) is checked against it
                    hx, hy = hx.replace("while", "for"), hy.replace("while", "for")
                    keep = ("loop", "for", "while")
                if hx != hy:
                    return False
                if [t for t in jx.split(",") if t in keep] != [t for t in jy.split(",") if t in keep]:
                    return False
            return True
        if want_sig is not None and want_sig != lsig and lps and not getattr(fs, "shape_free", False) and not _same_but_more_exits(want_sig, lsig):
            self.unit.reshaped.add(fn.name)
        self.unit.shapes[f"{self.relpath}::{self.spec}::{fn.name}"] = len(lps)
        want = self.unit.baseline_shapes.get(f"{self.relpath}::{self.spec}::{fn.name}")
        if want is not None and want != len(lps) and len(lps) > 0 and not (len(lps) < want and keyed_):
            # (fewer loops than before, every contracted loop named by its header and found: the loops that went away carried no
            # contract of their own - what replaced them is verified as it stands)
            raise Undecided(f"{fn.name}: has {len(lps)} loops, the contract was written for {want} (a new loop needs its own invariant)")
        # anchors
        fstart, fend = toks[kb].start, toks[k1].end
        ftext = self.sf.text[fstart:fend]
        _skip = os.environ.get("VERIF_SKIP_ANCHOR", "")
        for _ai, anchor in enumerate(fs.at):
            if _skip == f"{self.unit.name}:{fn.name}:{_ai}":
                continue
            if os.environ.get("VERIF_LIST_ANCHORS"):
                print(f"ANCHORLIST\t{self.unit.name}\t{fn.name}\t{_ai}\t{anchor[0]}\t{str(anchor[1])[:40]}\t{anchor[3].strip()[:30]!r}")
            where, snippet, occ, text = anchor[:4]
            # ("opt:KIND", ..): a proof step that belongs to one statement; when the statement is gone the step is left out (what the
            # function must achieve is stated in its contract, which is checked either way)
            # ("hint:KIND", ..): a proof *hint* that belongs to one statement: when the statement is gone the hint is left out too, and a failure in
            # the function is then not a verdict (the proof may only be missing its hint)
            hint_ = where.startswith("hint:")
            if hint_:
                where = "opt:" + where[5:]
            optional_ = where.startswith("opt:")
            where = where[4:] if optional_ else where
            for ph_, repl_, _x in counted_sub.values():
                if isinstance(text, str):
                    text = text.replace("$" + ph_, repl_)
            arule = anchor[4] if len(anchor) > 4 else "insert"
            if where == "loop_start":
                # ("loop_start", None, k, text): right after the `{` of loop #k
                if occ < 1 or occ > len(lps):
                    raise Undecided(f"{fn.name}: loop #{occ} not found")
                p = toks[lps[occ - 1][1]].end
                self._add(p, p, "\n" + text + "\n", arule)
                continue
            if where == "loop_iter":
                # ("loop_iter", None, k, "name:"): name the ghost iterator of `for` loop #k (`for x in name: EXPR`), whatever EXPR is spelled like
                if occ < 1 or occ > len(lps):
                    raise Undecided(f"{fn.name}: loop #{occ} not found")
                kw_, ko_ = lps[occ - 1]
                if toks[kw_].text != "for":
                    raise Undecided(f"{fn.name}: loop #{occ} is not a `for` loop")
                j_ = kw_ + 1
                while j_ < ko_ and not (toks[j_].text == "in" and toks[j_].kind == "ident"):
                    if toks[j_].text in OPEN:
                        j_ = match_close(toks, j_)
                    j_ += 1
                if j_ >= ko_:
                    raise Undecided(f"{fn.name}: loop #{occ}: no `in`")
                p = toks[j_ + 1].start
                self._add(p, p, text + " ", arule)
                continue
            if where == "exits":
                # before every `return` of the body and (unit functions only) at the end of the body
                for k in range(kb, k1):
                    if toks[k].text == "return":
                        p = self._stmt_bound(k, kb, k1, True)
                        self._add(p, p, "\n" + text + "\n", arule)
                if toks[k1 - 1].text in (";", "}"):
                    self._add(toks[k1].start, toks[k1].start, "\n" + text + "\n", arule)
                continue
            if where == "after_tail":
                # right after the function's final expression (before the closing brace of the body): with a `before_tail` of
                # `let r__ = ` this names the value the function returns, for a proof step about it
                if toks[k1 - 1].text in (";",):
                    raise Undecided(f"{fn.name}: the body does not end with an expression")
                p = toks[k1 - 1].end
                self._add(p, p, "\n" + text + "\n", arule)
                continue
            if where == "before_tail":
                # before the function's final expression (the value it returns when no `return` fires)
                kt = k1 - 1
                if toks[kt].text in (";",):
                    raise Undecided(f"{fn.name}: the body does not end with an expression")
                # walk back over the tail expression: balanced groups are skipped; it starts after the previous `;`,
                # after the `{` of the body, or after a `}` that ends a block statement
                j, pairs = kt, {")": "(", "]": "[", "}": "{"}
                while j > kb:
                    tx = toks[j].text
                    if tx in pairs and not (tx == "}" and j != kt and toks[j + 1].text not in (".", "?", ")", ",", "]")):
                        depth, o = 0, pairs[tx]
                        while True:
                            if toks[j].text == tx:
                                depth += 1
                            elif toks[j].text == o:
                                depth -= 1
                                if depth == 0:
                                    break
                            j -= 1
                        j -= 1
                        continue
                    if tx in (";", "{", "}"):
                        break
                    j -= 1
                p = toks[j + 1].start
                self._add(p, p, "\n" + text + "\n", arule)
                continue
            if where == "loop_after":
                # right after the closing brace of loop #k (whatever statement follows it)
                if occ < 1 or occ > len(lps):
                    raise Undecided(f"{fn.name}: loop #{occ} not found")
                p = toks[match_close(toks, lps[occ - 1][1])].end
                self._add(p, p, "\n" + text + "\n", arule)
                continue
            if where == "loop_end":
                if occ < 1 or occ > len(lps):
                    raise Undecided(f"{fn.name}: loop #{occ} not found")
                p = toks[match_close(toks, lps[occ - 1][1])].start
                self._add(p, p, "\n" + text + "\n", arule)
                continue
            if where.endswith("_re"):
                # regex needle: its capture groups (names of locals, as a rule) are available to the inserted text as $1..$9,
                # so that renaming a local does not lose the anchor
                where = where[:-3]
                ms_ = list(re.finditer(snippet, ftext, re.S))
                if len(ms_) < occ:
                    if optional_:
                        if hint_:
                            self.unit.rebound.add(fn.name)
                            self.unit.rewired.add(fn.name)
                        continue
                    raise Undecided(f"{fn.name}: anchor /{snippet}/ #{occ} not found")
                m_ = ms_[occ - 1]
                pos = m_.start()
                for gi_, g_ in enumerate(m_.groups(), 1):
                    text = text.replace(f"${gi_}", g_ or "")
                snippet = m_.group(0)
            else:
                pos = -1
                for _ in range(occ):
                    pos = ftext.find(snippet, pos + 1)
                    if pos < 0:
                        break
                if pos < 0:
                    if optional_:
                        if hint_:
                            self.unit.rebound.add(fn.name)
                            self.unit.rewired.add(fn.name)
                        continue
                    raise Undecided(f"{fn.name}: anchor `{snippet}` #{occ} not found")
            if where in ("before", "after"):
                p = fstart + pos + (len(snippet) if where == "after" else 0)
                if os.environ.get("VERIF_ANCHOR_DEBUG") and where == "before" and text.strip().endswith(":"):
                    for n_, (kw_, ko_) in enumerate(lps):
                        if toks[kw_].start < p < toks[ko_].start:
                            print(f"ANCHORDBG\t{self.unit.name}\t{fn.name}\t{snippet}\t{n_ + 1}\t{text.strip()}")
            elif where == "after_open":
                kt = next(k for k in range(kb, k1 + 1) if toks[k].start >= fstart + pos)
                while toks[kt].text != "{":
                    if toks[kt].text in ("(", "["):
                        kt = match_close(toks, kt)
                    kt += 1
                    if kt >= k1:
                        raise Undecided(f"{fn.name}: no block after `{snippet}`")
                p = toks[kt].end
            elif where in ("before_stmt", "after_stmt"):
                kt = next(k for k in range(kb, k1 + 1) if toks[k].start >= fstart + pos)
                p = self._stmt_bound(kt, kb, k1, where == "before_stmt")
            else:
                raise Undecided(f"unknown anchor kind {where}")
            self._add(p, p, "\n" + text + "\n", arule)
        # regex rewrites (closed rule names, logged)
        for rw in fs.rewrites:
            rule, pat, repl = rw[0], rw[1], rw[2]
            want = rw[3] if len(rw) > 3 else 1
            wstart = toks[kf].start
            wtext = self.sf.text[wstart:fend]
            ms = list(re.finditer(pat, wtext, re.S))
            # text inside a log macro that is dropped (T-LOG) is not rewritten
            logs = [e for e in self.edits if e.rule == "T-LOG"]
            ms = [m for m in ms if not any(e.start <= wstart + m.start() and wstart + m.end() <= e.end for e in logs)]
            if want is not None and len(ms) != want:
                if fn.name in self.unit.loopless and len(ms) == 0:
                    continue   # the text the rule was for (a loop's) is gone with the loops; whatever replaced it is verified as it stands
                raise Undecided(f"{fn.name}: rewrite {rule} pattern matched {len(ms)} times, expected {want}")
            # a rule that applies "wherever its pattern occurs": how many times it applied is recorded; another number than when the contract
            # was written means that code the contract counted on being rewritten (an idiom replaced by its model, a loop by a helper) now
            # stands as it is - a failure in the function is then not a verdict
            rkey_ = f"{self.relpath}::{self.spec}::{fn.name}"
            self.unit.rwcounts.setdefault(rkey_, []).append(len(ms))
            self.unit.rwloops.setdefault(rkey_, []).append(bool(re.search(r"\b(?:for|while|loop)\b", pat)))
            for m in ms:
                new = m.expand(repl) if isinstance(repl, str) else repl(m)
                self._add(wstart + m.start(), wstart + m.end(), new, rule)
        # ghost arguments at call sites
        self._ghost_calls(kb, k1, fn.name)

    def _decl_edits(self, fn, fs):
        """contract on a trait method declaration (no body): name the result, put the clauses before the `;`"""
        toks = self.sf.toks
        k = fn.k0
        while toks[k].text != "fn":
            k += 1
        kp = k + 2
        while toks[kp].text != "(":
            kp += 1
        kpc = match_close(toks, kp)
        if fs.ret and toks[kpc + 1].text == "-":
            self._add(toks[kpc + 3].start, toks[kpc + 3].start, f"({fs.ret}: ", "T-RET")
            self._add(toks[fn.k1 - 1].end, toks[fn.k1 - 1].end, ")", "T-RET")
        if fs.sig:
            self._add(toks[fn.k1].start, toks[fn.k1].start, "\n" + fs.sig + "\n", "insert")

    def _log_arg_stmts(self, kfirst, kclose):
        """the arguments after the format string of a log/format macro (tokens kfirst..kclose), each kept as `let _ = ARG;`:
        the message is dropped but whatever its arguments evaluate (and may fail on) stays in the verified text"""
        toks = self.sf.toks
        args, cur, j = [], None, kfirst
        while j < kclose:
            if toks[j].text in OPEN:
                j = match_close(toks, j) + 1
                continue
            if toks[j].text == ",":
                if cur is not None:
                    args.append(self.sf.text[cur:toks[j].start].strip())
                cur = toks[j].end
            j += 1
        if cur is not None:
            last = self.sf.text[cur:toks[kclose].start].strip()
            if last:
                args.append(last)
        return " ".join("let _ = " + (a.split("=", 1)[1].strip() if re.match(r"^\w+\s*=[^=]", a) else a) + ";" for a in args)

    def _stmt_bound(self, kt, kb, k1, before):
        """char position of the start (before=True) or end of the statement containing token kt"""
        toks = self.sf.toks
        if before:
            k = kt
            while k > kb + 1:
                t = toks[k - 1]
                if t.text in (";", "{"):
                    break
                if t.text == "}":
                    # a preceding block-statement ends here unless it is `} else`-chained into ours
                    break
                if t.text in (")", "]"):
                    # skip the balanced group backwards
                    depth = 0
                    j = k - 1
                    while True:
                        if toks[j].text in (")", "]", "}"):
                            depth += 1
                        elif toks[j].text in ("(", "[", "{"):
                            depth -= 1
                            if depth == 0:
                                break
                        j -= 1
                    k = j
                    continue
                k -= 1
            return toks[k].start
        k = kt
        while k < k1:
            t = toks[k]
            if t.text == ";":
                return t.end
            if t.text in ("(", "["):
                k = match_close(toks, k) + 1
                continue
            if t.text == "{":
                k = match_close(toks, k)
                nxt = toks[k + 1].text
                if nxt == "else":
                    k += 2
                    continue
                if nxt == ";":
                    return toks[k + 1].end
                if nxt in (".", "?"):
                    k += 1
                    continue
                return toks[k].end
            if t.text == "}":
                return toks[k - 1].end
            k += 1
        raise Undecided("statement end not found")

    def _ghost_calls(self, kb, k1, fname):
        toks = self.sf.toks
        gfree, gmeth = self.unit.ghost_free, self.unit.ghost_methods
        k = kb
        while k < k1:
            t = toks[k]
            if t.kind == "ident" and toks[k + 1].text == "(" or (
                    t.kind == "ident" and toks[k + 1].text == ":" and toks[k + 2].text == ":" and toks[k + 3].text == "<"):
                prev = toks[k - 1].text
                is_method = prev == "."
                name = t.text
                hit = (is_method and name in gmeth) or (not is_method and name in gfree and prev != "fn")
                if hit and not is_method and prev == ":":
                    # path call  a::b::name( -- check qualifier when the registry demands one
                    q = toks[k - 3].text
                    need = gfree[name]
                    if need and q not in need:
                        hit = False
                elif hit and not is_method:
                    need = gfree[name]
                    if need and "" not in need:
                        hit = False
                if hit:
                    ko = k + 1
                    if toks[ko].text != "(":
                        # turbofish
                        j = ko + 2
                        depth = 0
                        while True:
                            if toks[j].text == "<":
                                depth += 1
                            elif toks[j].text == ">":
                                depth -= 1
                                if depth == 0:
                                    break
                            j += 1
                        ko = j + 1
                    kc = match_close(toks, ko)
                    if is_method and kc == ko + 2 and toks[ko + 1].text in ("true", "false"):
                        # a builder switch of the same name (OpenOptions::write(true) next to File::write(data)): no ghost state involved
                        k += 1
                        continue
                    empty = kc == ko + 1
                    sep = "" if empty or toks[kc - 1].text == "," else ", "
                    self._add(toks[kc].start, toks[kc].start, sep + GHOST_ARG, "T-GHOST")
            k += 1

    # -- main ------------------------------------------------------------------------------
    def _env_rewrite(self):
        """T-ENV: env!("NAME") is a build-time string constant; its content is irrelevant to every property"""
        toks = self.sf.toks
        for k in range(self.item.k0, self.item.k1):
            if toks[k].text == "env" and toks[k + 1].text == "!" and toks[k + 2].text == "(":
                kc = match_close(toks, k + 2)
                val = '"<build-time constant>"'
                # a default the crate's build script sets when the variable is absent at build time (`set_env_var_if_absent!("NAME", "VALUE")`):
                # the shipped default is that literal
                if kc == k + 4 and toks[k + 3].kind == "lit" and toks[k + 3].text.startswith('"'):
                    try:
                        bs = open(os.path.join(REPO, self.unit.root, "build.rs"), encoding="utf-8").read()
                        mb = re.search(r"set_env_var_if_absent!\(\s*" + re.escape(toks[k + 3].text) + r"\s*,\s*(\"(?:[^\"\\]|\\.)*\")\s*,?\s*\)", bs)
                        if mb:
                            val = mb.group(1)
                        else:
                            # `set_data_path_if_absent!` / `set_cfg_path_if_absent!` / `set_runstate_path_if_absent!("NAME", "FILE")`: FILE under the
                            # data / configuration / run-state directory of the build (the directory itself stays symbolic)
                            mb = re.search(r"set_(data|cfg|runstate)_path_if_absent!\(\s*" + re.escape(toks[k + 3].text) + r"\s*,\s*\"((?:[^\"\\]|\\.)*)\"\s*,?\s*\)", bs)
                            if mb:
                                val = f'"<{mb.group(1)} directory>/{mb.group(2)}"'
                    except OSError:
                        pass
                self._add(toks[k].start, toks[kc].end, val, "T-ENV", order=-99)

    def render(self):
        if getattr(self, "_rendered", None) is not None:
            return self._rendered
        self._rendered = self._render()
        return self._rendered

    def _render(self):
        it = self.item
        self._strip_attrs()
        self._env_rewrite()
        if it.kind in ("struct", "enum"):
            kk = it.k0
            while self.sf.toks[kk].text == "#":
                kk = match_close(self.sf.toks, kk + 1) + 1
            self._inner_attr_strip(kk, it.k1)
        if it.kind in ("struct", "enum"):
            toks = self.sf.toks
            kk = it.k0
            while toks[kk].text == "#":
                kk = match_close(toks, kk + 1) + 1
            if toks[kk].text != "pub":
                self._add(toks[kk].start, toks[kk].start, "pub ", "T-VIS")
        if it.kind == "struct" and it.body_open is not None:
            # T-VIS: private fields become `pub` (visibility has no run-time meaning; Verus treats a type with
            # any private field as opaque in contracts of public functions)
            toks = self.sf.toks
            k = it.body_open + 1
            expect_field = True
            while k < it.k1:
                t = toks[k]
                if t.text in ("(", "[", "{"):
                    k = match_close(toks, k) + 1
                    continue
                if t.text == "<":
                    depth = 0
                    while True:
                        if toks[k].text == "<":
                            depth += 1
                        elif toks[k].text == ">":
                            depth -= 1
                            if depth == 0:
                                break
                        k += 1
                    k += 1
                    continue
                if t.text == "#":
                    k = match_close(toks, k + 1) + 1
                    continue
                if expect_field and t.kind == "ident":
                    if t.text != "pub":
                        self._add(t.start, t.start, "pub ", "T-VIS")
                    expect_field = False
                if t.text == ",":
                    expect_field = True
                k += 1
        if it.kind == "const" and self.sf.toks[it.k1 - 1].kind == "lit" and self.sf.toks[it.k1 - 1].text.startswith('b"') \
                and self.sf.toks[it.k1 - 2].text == "=":
            # T-BYTES: a byte-string constant; the tool decodes the literal and states its bytes as the constant's spec
            toks = self.sf.toks
            lit = toks[it.k1 - 1].text
            body, out, i = lit[2:-1], [], 0
            while i < len(body):
                ch = body[i]
                if ch == "\\":
                    e = body[i + 1]
                    if e == "x":
                        out.append(int(body[i + 2:i + 4], 16)); i += 4; continue
                    m = {"n": 10, "r": 13, "t": 9, "\\": 92, "0": 0, '"': 34, "'": 39}
                    if e not in m:
                        raise Undecided("T-BYTES: unsupported escape")
                    out.append(m[e]); i += 2; continue
                if ord(ch) > 127:
                    raise Undecided("T-BYTES: non-ASCII byte literal")
                out.append(ord(ch)); i += 1
            kc = it.k0
            while toks[kc].text != "const":
                kc += 1
            name = toks[kc + 1].text
            self._add(toks[it.k0].start, toks[it.k0].start, "#[verifier::external_body]\n", "T-BYTES")
            self._add(toks[kc].start, toks[kc].start, "exec ", "T-BYTES")
            self._add(toks[it.k1 - 2].start, toks[it.k1 - 2].end,
                      f"ensures {name}@ == seq![{', '.join(str(b) + 'u8' for b in out)}] {{", "T-BYTES")
            self._add(toks[it.k1].start, toks[it.k1].end, "}", "T-BYTES")
        if it.kind == "const" and "time" in self.unit.preludes:
            # T-CONST-STD: `const NAME: Duration = Duration::from_secs(N);` (from_millis / from_micros / from_nanos; N a literal or a
            # constant): Verus constants cannot call an executable function; an `exec const` can, and its contract states the length
            toks = self.sf.toks
            txt_ = self.sf.text[toks[it.k0].start:toks[it.k1].end]
            m_ = re.search(r"const\s+(\w+)\s*:\s*(?:std::time::)?Duration\s*=\s*(?:std::time::)?Duration::from_(secs|millis|micros|nanos)\(\s*([A-Za-z_0-9:]+)\s*\)\s*;\s*$", txt_)
            if m_:
                unit_ = {"secs": 1_000_000_000, "millis": 1_000_000, "micros": 1_000, "nanos": 1}[m_.group(2)]
                kc = it.k0
                while toks[kc].text != "const":
                    kc += 1
                ke = next(k for k in range(kc, it.k1) if toks[k].text == "=")
                self._add(toks[kc].start, toks[kc].start, "exec ", "T-CONST-STD")
                self._add(toks[ke].start, toks[ke].end, f"ensures crate::dur({m_.group(1)}) == ({m_.group(3)}) as nat * {unit_} {{", "T-CONST-STD")
                self._add(toks[it.k1].start, toks[it.k1].end, "}", "T-CONST-STD")
        if it.kind == "const":
            # the elided lifetime of a const reference is 'static; Verus wants it written out
            toks = self.sf.toks
            for k in range(it.k0, it.k1):
                if toks[k].text == "=":
                    break
                if toks[k].text == "&" and toks[k + 1].kind != "lifetime":
                    self._add(toks[k].end, toks[k].end, "'static ", "T-CONST")
        fns = find_fns(it)
        if it.kind in ("fn", "impl", "trait"):
            for name, fn in fns.items():
                fs = self.fnspecs.get(name)
                if fs is None:
                    if it.kind == "fn":
                        fs = FnSpec()
                    else:
                        fs = FnSpec()
                if fn.body_open is not None:
                    self._fn_edits(fn, fs)
                elif fs.sig or fs.ret:
                    self._decl_edits(fn, fs)
        for name in self.fnspecs:
            if name not in fns:
                raise Undecided(f"{self.spec}: contract for unknown fn `{name}`")
        # apply edits
        text = self.sf.text
        # a generic rewrite (order -99) gives way to a unit's own rewrite of the same text
        hard = [e for e in self.edits if e.order != -99 and e.end > e.start]
        soft_dropped = [e for e in self.edits if e.order == -99 and any(h.start < e.end and e.start < h.end for h in hard)]
        if soft_dropped:
            self.edits = [e for e in self.edits if e not in soft_dropped]
            self.rewrites_log = [r for r in self.rewrites_log if not any(r.get("from") == text[e.start:e.end] and r.get("to") == e.text for e in soft_dropped)]
        self.edits.sort(key=lambda e: (e.start, e.end == e.start and -1 or 0, -e.order))
        out, segs, pos = [], [], it.start
        for e in self.edits:
            if e.start < pos:
                raise Undecided(f"{self.spec}: overlapping edits at {e.start} ({e.rule})")
            if e.start > pos:
                segs.append(("orig", text[pos:e.start], None))
            segs.append((e.rule, e.text, text[e.start:e.end]))
            pos = e.end
        if pos < it.end:
            segs.append(("orig", text[pos:it.end], None))
        # erasure check
        back = "".join(s[1] if s[0] == "orig" else s[2] for s in segs)
        if back != text[it.start:it.end]:
            raise Undecided(f"{self.spec}: erasure check failed")
        # wrap methods of inherent impls
        pre, post = "", ""
        if self.impl_header is not None:
            pre, post = self.impl_header + "{\n", "\n}"
        return pre, segs, post

    def _impl_kw(self):
        k = self.impl.k0
        while self.impl.toks[k].text != "impl":
            k += 1
        return k


def opaque_closures(text):
    """number of closure literals in (rendered) text that carry no requires / ensures clause: what such a closure returns is unknown
    to the verifier.  Closures whose value cannot matter to a caller's proof are not counted: the argument of map_err / ok_or_else /
    unwrap_or_else / or_else / for_each / spawn."""
    toks = lex(text)
    n, k = 0, 0
    IGN = ("map_err", "ok_or_else", "unwrap_or_else", "or_else", "for_each", "spawn", "inspect", "inspect_err")
    while k < len(toks) - 1:
        t = toks[k]
        if t.text == "|" and k > 0 and (toks[k - 1].text in ("(", ",", "=", "move", "{", ";", "return", "[") or (toks[k - 1].text == ">" and toks[k - 2].text == "=")):
            j = k + 1
            if not (toks[j].text == "|" and toks[j].start == t.end):
                depth = 0
                while j < len(toks) and not (toks[j].text == "|" and depth == 0):
                    if toks[j].text in OPEN:
                        depth += 1
                    elif toks[j].text in (")", "]", "}"):
                        depth -= 1
                        if depth < 0:
                            break
                    j += 1
            if j >= len(toks) or toks[j].text != "|":
                k += 1
                continue
            q = j + 1
            if q + 1 < len(toks) and toks[q].text == "-" and toks[q + 1].text == ">":
                q += 2
                if toks[q].text == "(":
                    q = match_close(toks, q) + 1
                else:
                    while q < len(toks) and toks[q].text not in ("{", "ensures", "requires"):
                        q += 1
            annotated = q < len(toks) and toks[q].text in ("ensures", "requires")
            b = k - 1
            if toks[b].text == "move":
                b -= 1
            callee = toks[b - 1].text if toks[b].text == "(" and b > 0 else ""
            if not annotated and callee not in IGN:
                n += 1
            k = j + 1
            continue
        k += 1
    return n


def _model_path_exists(text, segs):
    """does the trusted text define the item a::b::NAME, module by module (`pub mod a { .. pub mod b { .. struct NAME ..`)?"""
    lo, hi = 0, len(text)
    for seg in segs[:-1]:
        m = re.compile(r"\bpub mod " + re.escape(seg) + r"\s*\{").search(text, lo, hi)
        if not m:
            return False
        depth, i = 1, m.end()
        while i < hi and depth:
            ch = text[i]
            depth += ch == "{"
            depth -= ch == "}"
            i += 1
        lo, hi = m.end(), i
    return bool(re.compile(r"\b(?:struct|enum|type|fn|const|trait|mod)\s+" + re.escape(segs[-1]) + r"\b").search(text, lo, hi))


class Unit:
    def __init__(self, name, root):
        self.name, self.root = name, root
        self.modules = {}   # module path -> {"header": str, "parts": [Piece|str]}
        self.order = []
        self.preludes = []
        self.ghost_free = {}   # fn name -> set of allowed qualifiers ('' = unqualified), empty = any
        self.ghost_methods = set()
        self.drop_derives = set()
        self.pieces = []
        self.macros = {}   # name -> ([param names], body text)
        self.shapes = {}
        try:
            import json as _json
            self.baseline_shapes = _json.load(open(os.path.join(VERIF, "baseline_shapes.json"))).get(name, {})
        except Exception:
            self.baseline_shapes = {}
        try:
            self.baseline_fns = _json.load(open(os.path.join(VERIF, "baseline_shapes.json"))).get("__fns__", {})
        except Exception:
            self.baseline_fns = {}
        try:
            self.baseline_loopsigs = _json.load(open(os.path.join(VERIF, "baseline_shapes.json"))).get("__loopsig__", {}).get(name, {})
        except Exception:
            self.baseline_loopsigs = {}
        try:
            self.baseline_attrs = _json.load(open(os.path.join(VERIF, "baseline_shapes.json"))).get("__attrs__", {}).get(name)
        except Exception:
            self.baseline_attrs = None
        self.attrsigs = {}   # item -> the serde attributes the extraction dropped from it (T-ATTR): the JSON wire mapping of the type
        self.loopsigs = {}
        self.opaque = {}        # verified item -> number of closures without a contract in its verified text
        self.more_opaque = set()  # functions that have more of them than when the contracts were written
        try:
            import json as _json2
            self.baseline_opaque = _json2.load(open(os.path.join(VERIF, "baseline_shapes.json"))).get("__opaque__", {}).get(name)
        except Exception:
            self.baseline_opaque = None
        self.rwcounts = {}      # verified function -> how many times each of its rewrite rules applied, in the order of the rules
        self.rwloops = {}       # ... and whether the rule's pattern is a loop (a rule that replaces a loop by its model)
        try:
            import json as _json4
            self.baseline_rwcounts = _json4.load(open(os.path.join(VERIF, "baseline_shapes.json"))).get("__rewrites__", {}).get(name)
        except Exception:
            self.baseline_rwcounts = None
        self.bindsigs = {}      # verified function -> {name used by its contract: number of bindings of that name in the function}
        self.rebound = set()    # functions in which such a name is bound another number of times than when the contract was written
        self.rewired = set()    # functions in which a rewrite rule applied another number of times than when the contract was written
        try:
            import json as _json3
            self.baseline_binders = _json3.load(open(os.path.join(VERIF, "baseline_shapes.json"))).get("__binders__", {}).get(name)
        except Exception:
            self.baseline_binders = None
        self.loopless = set()   # functions that had loops when their contracts were written and have none now
        self.reshaped = set()   # functions whose loops have another control skeleton than the one their contracts were written for
        self.macro_fns = {}  # name -> call template (T-MACRO-FN: the macro body lives in a verified helper fn)
        self.vacuity = False
        self.vacuity_expected = []
        self.module("", "")

    def prelude(self, *names):
        self.preludes += names

    def module(self, path, header=""):
        if path not in self.modules:
            self.modules[path] = {"header": header, "parts": []}
            self.order.append(path)
        elif header:
            self.modules[path]["header"] += "\n" + header

    def raw(self, module, text, trusted=False):
        self.module(module)
        self.modules[module]["parts"].append(("raw", text, trusted))

    def ghost_call(self, name, method=False, quals=()):
        if method:
            self.ghost_methods.add(name)
        else:
            self.ghost_free[name] = set(quals)

    def take(self, relpath, spec, module, mode="data", fns=None, props=None, keep_derives=()):
        self.module(module)
        p = Piece(self, relpath, spec, module, mode, fns, props, keep_derives)
        if mode == "verify" and fns:
            # a function serves every property one of its clauses is labelled for: an unlabelled failure in it (a proof step, a
            # safety obligation) then concerns each of them
            txt_ = ""
            for fs in fns.values():
                txt_ += "\n".join([fs.sig or "", fs.body_start or ""] + [str(x) for x in (fs.loops or {}).values()]
                                  + [str(a_[3]) for a_ in (fs.at or []) if len(a_) > 3])
            extra_ = sorted({m_.group(1) for m_ in re.finditer(r"\b(C\d\d)\.\w", " ".join(re.findall(r"//@([^\n]*)", txt_)))} - set(p.props or []))
            if extra_:
                p.props = list(p.props or []) + extra_
        self.modules[module]["parts"].append(("piece", p))
        self.pieces.append(p)
        # register ghost call patterns
        for name, fs in (fns or {}).items():
            if fs.ghost:
                fn = find_fns(p.item)[name]
                toks = p.sf.toks
                is_method = any(toks[k].text == "self" for k in range(fn.k0, fn.body_open)
                                if toks[k].kind == "ident")
                if is_method:
                    self.ghost_methods.add(name)
                    self.ghost_free.setdefault(name, set())
                else:
                    self.ghost_free.setdefault(name, set())
        return p

    def macro(self, relpath, name):
        """register one of the repository's own single-arm macro_rules! for T-MACRO expansion"""
        sf = source(relpath)
        it = sf.find(name)
        if it.kind != "macro_rules":
            raise Undecided(f"{name} is not a macro_rules item")
        toks = sf.toks
        ko = it.body_open
        # single arm: ( params ) => { body } ;?
        if toks[ko + 1].text != "(":
            raise Undecided(f"macro {name}: unexpected shape")
        pc = match_close(toks, ko + 1)
        params = [toks[j + 1].text for j in range(ko + 2, pc) if toks[j].text == "$"]
        j = pc + 1
        if not (toks[j].text == "=" and toks[j + 1].text == ">"):
            raise Undecided(f"macro {name}: unexpected shape")
        bo = j + 2
        bc = match_close(toks, bo)
        rest = [t.text for t in toks[bc + 1:it.k1]]
        if any(x not in (";",) for x in rest):
            raise Undecided(f"macro {name}: more than one arm")
        body = sf.text[toks[bo].end:toks[bc].start]
        self.macros[name] = (params, body)

    def macro_items(self, relpath, name, args):
        """T-MACRO-ITEM: an item-level invocation `name!(args);` of one of the repository's single-arm macros is
        replaced by the macro's own body text with the metavariables substituted by the invocation's arguments.
        Returns a pseudo path whose items can be taken like those of a file.  The invocation must exist."""
        self.macro(relpath, name)
        params, body = self.macros.pop(name)
        sf = source(relpath)
        inv = re.compile(r"(?m)^\s*" + re.escape(name) + r"!\(\s*" + r"\s*,\s*".join(re.escape(a) for a in args) + r"\s*\);")
        if len(inv.findall(sf.text)) != 1:
            raise Undecided(f"macro {name}: invocation with ({', '.join(args)}) not found exactly once in {relpath}")
        if len(params) != len(args):
            raise Undecided(f"macro {name}: {len(params)} parameters, {len(args)} arguments")
        b = body
        for pname, rep in sorted(zip(params, args), key=lambda x: -len(x[0])):
            b = re.sub(r"\$" + pname + r"\b", lambda m: rep, b)
        if "$" in b:
            raise Undecided(f"macro {name}: unsubstituted metavariable")
        pseudo = f"{relpath}#{name}!({','.join(args)})"
        _virtual[pseudo] = SourceFile(pseudo, b)
        self.macro_items_log = getattr(self, "macro_items_log", []) + [
            {"rule": "T-MACRO-ITEM", "file": relpath, "item": f"{name}!({', '.join(args)})",
             "note": "item-level macro invocation replaced by the macro's own body with its metavariables substituted"}]
        return pseudo

    def macro_as_fn(self, relpath, name, module, header, subst, call, props=None):
        """T-MACRO-FN: expand a statement macro into a call of a helper function whose body is the macro's own
        text (metavariables replaced per `subst`), verified against `header`'s contract.  Used where inlining
        N copies of a branching body makes the verifier's path count explode."""
        self.macro(relpath, name)
        params, body = self.macros[name]
        b = body
        for pname, rep in sorted(subst.items(), key=lambda x: -len(x[0])):
            b = re.sub(r"\$" + pname + r"\b", lambda m: rep, b)
        if "$" in b:
            raise Undecided(f"macro {name}: unsubstituted metavariable in helper body")
        self.raw(module, f"// T-MACRO-FN helper: body is the text of macro `{name}` in {relpath}\n{header}\n{{\n{b}\n}}\n")
        self.macro_fns[name] = call
        self.macro_fn_props = props or []

    def new_methods(self, relpath, type_name):
        """methods of `impl TYPE` in the source file that did not exist when the contracts were written (absent from
        baseline_shapes.json:__fns__): [(name, receiver)] with receiver in {"&mut self", "&self", "self", ""}"""
        sf = source(relpath)
        known = set(self.baseline_fns.get(relpath, []))
        if not known:
            return []
        out = []
        for it in sf._all_items():
            if it.kind == "impl" and re.search(r"impl(?:<[^>]*>)?\s+" + re.escape(type_name) + r"\b", sf.text[it.start:it.start + 200].split("{")[0]) \
                    and " for " not in sf.text[it.start:it.start + 200].split("{")[0]:
                for c in it.children:
                    if c.kind == "fn" and c.name not in known:
                        hdr = " ".join(sf.text[c.start:c.end].split("{")[0].split())
                        m = re.search(r"\(\s*(&\s*mut\s+self|&\s*self|mut\s+self|self)\b", hdr)
                        out.append((c.name, " ".join(m.group(1).split()) if m else ""))
        return out

    def verify(self, relpath, spec, module, fns=None, props=None):
        return self.take(relpath, spec, module, "verify", fns, props)

    def stub(self, relpath, spec, module, fns=None, props=None):
        return self.take(relpath, spec, module, "stub", fns, props)

    # ------------------------------------------------------------------------------------
    def _auto_items(self, m, rendered):
        """T-USE / T-CONST (automatic): a `use std::..` line or a top-level `const` that the source file of a verified piece has,
        that the unit's module does not declare, and that the verified text mentions, is carried over - a change that
        imports a std type or names a number by a new constant stays within the unit.  Paths outside std/core/alloc
        are not resolvable here (no external crate is present) and are left alone: the unit is then undecided as before."""
        body = m["header"] + "\n"
        vtexts = {}
        for part in m["parts"]:
            if part[0] == "raw":
                body += part[1] + "\n"
            else:
                pre, segs, post = rendered[id(part[1])]
                t_ = pre + "".join(x[1] for x in segs) + post
                body += t_ + "\n"
                if part[1].mode == "verify":
                    vtexts.setdefault(part[1].relpath, "")
                    vtexts[part[1].relpath] += t_ + "\n"
        # whatever the unit's preludes and shims define may reach the module through a glob import: never shadowed by an automatic import
        glob_ = ""
        for pn in self.preludes:
            glob_ += open(os.path.join(VERIF, "prelude", pn + ".rs"), encoding="utf-8").read() + "\n"
        for m2 in self.modules.values():
            for part in m2["parts"]:
                if part[0] == "raw":
                    glob_ += part[1] + "\n"
        def declared(name):
            if re.search(r"\b(?:struct|enum|type|fn|const|static|mod|trait|union)\s+" + re.escape(name) + r"\b", glob_):
                return True
            return bool(re.search(r"\b(?:struct|enum|type|fn|const|static|mod|trait|union)\s+" + re.escape(name) + r"\b", body)
                        or re.search(r"(?m)^\s*(?:pub\s+)?use\s[^;]*\b" + re.escape(name) + r"\b[^;]*;", body))
        def flatten(prefix, rest, out):
            rest = rest.strip()
            if rest.startswith("{") and rest.endswith("}"):
                depth, cur, items = 0, "", []
                for ch in rest[1:-1]:
                    if ch == "," and depth == 0:
                        items.append(cur); cur = ""
                    else:
                        depth += ch == "{"
                        depth -= ch == "}"
                        cur += ch
                if cur.strip():
                    items.append(cur)
                for it in items:
                    flatten(prefix, it, out)
                return
            if "::" in rest and "{" in rest:
                head, _, tail = rest.partition("::{")
                flatten(prefix + head.strip() + "::", "{" + tail, out)
                return
            mm = re.match(r"^([\w:]+?)(?:\s+as\s+(\w+))?$", rest)
            if mm:
                full = prefix + mm.group(1)
                name = mm.group(2) or full.split("::")[-1]
                out.append((name, full + (f" as {mm.group(2)}" if mm.group(2) else "")))
        uses, consts = [], []
        # a constant may be used from another module of the unit (`http::HEADER_X` from acme_proto/http.rs): every source file
        # that has a piece in this module is searched, against the verified text of the whole unit
        if not hasattr(self, "_all_vtext"):
            self._all_vtext = ""
            for m2 in self.modules.values():
                for part in m2["parts"]:
                    if part[0] != "raw" and part[1].mode == "verify":
                        pre2, segs2, post2 = part[1].render()
                        self._all_vtext += pre2 + "".join(x[1] for x in segs2) + post2 + "\n"
        for relpath in sorted({part[1].relpath for part in m["parts"] if part[0] != "raw" and "#" not in part[1].relpath} - set(vtexts)):
            try:
                src = open(os.path.join(REPO, relpath), encoding="utf-8").read()
            except OSError:
                continue
            for mc in re.finditer(r"(?m)^(?:pub(?:\([^)]*\))?\s+)?const\s+(\w+)\s*:[^;]+;", src):
                name = mc.group(1)
                if re.search(r"\b" + re.escape(name) + r"\b", self._all_vtext) and not declared(name) and mc.group(0) not in consts:
                    consts.append(mc.group(0))
                    self.auto_log.append({"rule": "T-CONST", "file": relpath, "item": name, "from": mc.group(0), "to": mc.group(0)})
        for relpath, vt in vtexts.items():
            try:
                src = open(os.path.join(REPO, relpath), encoding="utf-8").read()
            except OSError:
                continue
            # (a carried-over constant may itself name an imported type: `const T: Duration = Duration::from_secs(10);`)
            for mc0 in re.finditer(r"(?m)^(?:pub(?:\([^)]*\))?\s+)?const\s+(\w+)\s*:[^;]+;", src):
                if re.search(r"\b" + re.escape(mc0.group(1)) + r"\b", vt + self._all_vtext) and not declared(mc0.group(1)):
                    vt = vt + "\n" + mc0.group(0)
            for mu in re.finditer(r"(?m)^(?:pub(?:\([^)]*\))?\s+)?use\s+([^;]+);", src):
                flat = []
                flatten("", re.sub(r"\s+", " ", mu.group(1)), flat)
                for name, full in flat:
                    root_ = full.split("::")[0]
                    if name in ("self", "*"):
                        continue
                    if root_ not in ("std", "core", "alloc"):
                        # a crate the unit's trusted prelude models as a top-level module (`pub mod openssl { .. }`): the import is
                        # carried over to that model when the model defines the item
                        nm_ = full.split(" as ")[0].split("::")[-1]
                        # (an item the model defines once: with two definitions of the name, the unit's own header decides which one is meant)
                        if _model_path_exists(glob_, full.split(" as ")[0].split("::")) and \
                                len(re.findall(r"\b(?:struct|enum|type|fn|const|trait|mod)\s+" + re.escape(nm_) + r"\b", glob_)) == 1:
                            full = "crate::" + full
                        else:
                            continue
                    modelled_ = full.startswith("crate::")
                    in_body_ = bool(re.search(r"\b(?:struct|enum|type|fn|const|static|mod|trait|union)\s+" + re.escape(name) + r"\b", body)
                                    or re.search(r"(?m)^\s*(?:pub\s+)?use\s[^;]*\b" + re.escape(name) + r"\b[^;]*;", body))
                    if re.search(r"\b" + re.escape(name) + r"\b", vt) and not (in_body_ if modelled_ else declared(name)) and f"{full}" not in uses:
                        uses.append(full)
                        self.auto_log.append({"rule": "T-USE", "file": relpath, "item": name, "from": f"use {full};", "to": f"use {full};"})
            for mc in re.finditer(r"(?m)^(?:pub(?:\([^)]*\))?\s+)?const\s+(\w+)\s*:[^;]+;", src):
                name = mc.group(1)
                if re.search(r"\b" + re.escape(name) + r"\b", vt + self._all_vtext) and not declared(name) and mc.group(0) not in consts:
                    consts.append(mc.group(0))
                    self.auto_log.append({"rule": "T-CONST", "file": relpath, "item": name, "from": mc.group(0), "to": mc.group(0)})
            # T-STATIC (automatic): a top-level `static NAME: AtomicT = AtomicT::new(..)` is a cell shared by all threads (prelude stdx,
            # vatomic: every read yields any value)
            if "stdx" in self.preludes:
                for ms in re.finditer(r"(?m)^(?:pub(?:\([^)]*\))?\s+)?static\s+(\w+)\s*:\s*(?:[\w:]+::)?(AtomicUsize|AtomicU64|AtomicBool)\s*=\s*(?:[\w:]+::)?\2::new\([^;]*\);", src):
                    name, ty = ms.group(1), ms.group(2)
                    if re.search(r"\b" + re.escape(name) + r"\b", vt + self._all_vtext) and not declared(name):
                        c_ = f"pub const {name}: crate::vatomic::{ty} = crate::vatomic::{ty} {{ x: 0 }};"
                        if c_ not in consts:
                            consts.append(c_)
                            self.auto_log.append({"rule": "T-STATIC", "file": relpath, "item": name, "from": ms.group(0), "to": c_})
        # inside verus! a reference type in a const needs its lifetime spelled out (as for the constants a unit takes by name)
        consts = [re.sub(r":\s*&\s*(?!')", ": &'static ", c_, count=1) for c_ in consts]
        if "time" in self.preludes:
            # T-CONST-STD: a Duration constant built by Duration::from_secs(N) and the like becomes an `exec const` whose contract states its length
            def dur_const(c_):
                m_ = re.fullmatch(r"((?:pub(?:\([^)]*\))?\s+)?)const\s+(\w+)\s*:\s*((?:std::time::)?Duration)\s*=\s*((?:std::time::)?Duration::from_(secs|millis|micros|nanos)\(\s*([A-Za-z_0-9:]+)\s*\))\s*;", c_.strip())
                if not m_:
                    return c_
                unit_ = {"secs": 1_000_000_000, "millis": 1_000_000, "micros": 1_000, "nanos": 1}[m_.group(5)]
                new = f"{m_.group(1)}exec const {m_.group(2)}: {m_.group(3)} ensures crate::dur({m_.group(2)}) == ({m_.group(6)}) as nat * {unit_} {{ {m_.group(4)} }}"
                self.auto_log.append({"rule": "T-CONST-STD", "file": "", "item": m_.group(2), "from": c_, "to": new})
                return new
            consts = [dur_const(c_) for c_ in consts]
        return uses, consts

    def sf_text_of(self, p):
        return p.sf.text[p.item.start:p.item.end]

    def build(self):
        """Return (text, regions, meta). regions: list of dicts with gen byte range + origin."""
        self.auto_log = []
        out = []
        regions = []
        pos = 0

        def emit(s, **meta):
            nonlocal pos
            if not s:
                return
            b = s.encode("utf-8")
            regions.append(dict(start=pos, end=pos + len(b), **meta))
            out.append(s)
            pos += len(b)

        whole_unit_text = ""
        for pn in self.preludes:
            whole_unit_text += open(os.path.join(VERIF, "prelude", pn + ".rs"), encoding="utf-8").read() + "\n"
        for m2 in self.modules.values():
            for part in m2["parts"]:
                if part[0] == "raw":
                    whole_unit_text += part[1] + "\n"
        emit("#![feature(allocator_api)]\n", kind="glue")
        emit("#![allow(unused_imports, dead_code, unused_variables, unused_mut, unused_parens, "
             "unused_braces, unreachable_code, non_snake_case, unused_assignments, unused_macros)]\n"
             "use vstd::prelude::*;\n", kind="glue")
        for pn in self.preludes:
            ptxt = open(os.path.join(VERIF, "prelude", pn + ".rs"), encoding="utf-8").read()
            emit(f"// ---- trusted prelude: {pn} ----\n", kind="glue")
            emit(ptxt + "\n", kind="prelude", name=pn)
        # modules as a tree
        tree = {}
        for path in self.order:
            node = tree
            if path:
                for seg in path.split("::"):
                    node = node.setdefault(seg, {})
        def emit_module(path, node, depth):
            m = self.modules.get(path)
            if path:
                emit(f"pub mod {path.split('::')[-1]} {{\nuse vstd::prelude::*;\n", kind="glue")
            if m:
                rendered = {id(part[1]): part[1].render() for part in m["parts"] if part[0] != "raw"}
                auto_use, auto_const = self._auto_items(m, rendered)
                if m["header"]:
                    emit(m["header"] + "\n", kind="glue")
                if auto_use:
                    emit("".join(f"use {u_};\n" for u_ in auto_use), kind="glue")
                emit("verus! {\n", kind="glue")
                if auto_const:
                    emit("".join(c_ + "\n" for c_ in auto_const), kind="glue")
                for part in m["parts"]:
                    if part[0] == "raw":
                        emit(part[1] + "\n", kind="trusted" if part[2] else "spec", module=path)
                    else:
                        p = part[1]
                        pre, segs, post = rendered[id(p)]
                        if p.mode == "verify":
                            okey_ = f"{p.relpath}::{p.spec}"
                            try:
                                self.opaque[okey_] = opaque_closures("".join(x[1] for x in segs))
                            except Exception:
                                self.opaque[okey_] = -1
                            # the names a contract uses, and how many times each is bound in the function (parameter, `let`, pattern):
                            # when that differs from what was recorded, a name in the contract may denote another variable than the
                            # one it was written for (a shadowing removed or introduced) - a failure is then not a verdict
                            for nm_ in (p.fnspecs or {}):
                                rk_ = f"{okey_}::{nm_}"
                                wantr_ = (self.baseline_rwcounts or {}).get(rk_)
                                gotr_ = self.rwcounts.get(rk_, [])
                                # (what matters is a *loop* the contract counted on being replaced by its model and that now stands as it is -
                                # without an invariant; a rule that applies more often, or a rule for a call that is now spelt another way,
                                # leaves code that is verified as it stands or not accepted at all)
                                if wantr_ is not None and (len(gotr_) != len(wantr_) or any(
                                        lp_ and g_ < w_ for g_, w_, lp_ in zip(gotr_, wantr_, self.rwloops.get(rk_, [])))):
                                    self.rebound.add(nm_)
                                    self.rewired.add(nm_)
                            for nm_, fs_ in (p.fnspecs or {}).items():
                                bkey_ = f"{okey_}::{nm_}"
                                self.bindsigs[bkey_] = binder_counts(p, nm_, fs_)
                                wantb_ = (self.baseline_binders or {}).get(bkey_)
                                if wantb_ is not None and self.bindsigs[bkey_] != wantb_:
                                    # (a name bound many times - the `e` of every `Err(e) =>` arm and `|e|` closure - is local to its
                                    # arm; one more or one fewer of those says nothing about the others)
                                    got_ = self.bindsigs[bkey_]
                                    if got_ is None or any(got_.get(w_, 0) != c_ and min(got_.get(w_, 0), c_) <= 2 for w_, c_ in wantb_.items()) \
                                            or any(w_ not in wantb_ and c_ <= 2 for w_, c_ in got_.items()):
                                        self.rebound.add(nm_)
                            want_ = (self.baseline_opaque or {}).get(okey_)
                            if want_ is not None and (self.opaque[okey_] < 0 or self.opaque[okey_] > want_):
                                # a closure whose result the verifier knows nothing about has been added: a failed obligation of this
                                # function may be nothing but that lack of knowledge
                                for nm_ in find_fns(p.item):
                                    self.more_opaque.add(nm_)
                        emit(f"// ---- {p.mode}: {p.relpath}::{p.spec} ----\n", kind="glue")
                        emit(pre, kind="glue")
                        for rule, txt, frm in segs:
                            emit(txt, kind=("orig" if rule == "orig" else "insert" if rule == "insert" else "rewrite"),
                                 rule=rule, piece=p, src_from=frm)
                        emit(post + "\n", kind="glue")
                        if getattr(p, "dropped_clone", False) and p.item.kind in ("struct", "enum") and getattr(p.item, "name", None):
                            nm = p.item.name
                            hdr_ = self.sf_text_of(p)
                            generic = bool(re.search(r"\b(?:struct|enum)\s+" + re.escape(nm) + r"\s*<", hdr_))
                            if not generic and not re.search(r"impl\s+(?:std::clone::)?Clone\s+for\s+" + re.escape(nm) + r"\b", whole_unit_text):
                                # #[derive(Clone)] (dropped by T-ATTR because of field types Verus cannot derive through) restated: a structural copy
                                emit(f"impl Clone for {nm} {{ #[verifier::external_body] fn clone(&self) -> (r: Self) ensures r == *self {{ unimplemented!() }} }}\n",
                                     kind="trusted", module=path)
                emit("} // verus!\n", kind="glue")
            for seg, sub in node.items():
                emit_module((path + "::" if path else "") + seg, sub, depth + 1)
            if path:
                emit("}\n", kind="glue")
        emit_module("", tree, 0)
        # T-CONST (automatic, crate root): `crate::NAME` in the verified text, NAME a constant of a primitive type defined in the crate's
        # root file (main.rs / lib.rs) and not declared by the unit: the definition is carried over as it stands
        sofar_ = "".join(out)
        vtext_ = "".join(o_ for o_, r_ in zip(out, regions) if r_.get("kind") in ("orig", "rewrite"))
        root_src_ = ""
        for cand_ in ("main.rs", "lib.rs"):
            try:
                root_src_ += open(os.path.join(REPO, self.root, "src", cand_), encoding="utf-8").read() + "\n"
            except OSError:
                pass
        added_ = []
        for nm_ in sorted(set(re.findall(r"\bcrate::([A-Z][A-Z0-9_]+)\b", vtext_))):
            if re.search(r"\b(?:const|static|fn)\s+" + nm_ + r"\b", sofar_):
                continue
            mc_ = re.search(r"(?m)^pub\s+const\s+" + nm_ + r"\s*:\s*(u8|u16|u32|u64|u128|usize|i32|i64|isize|bool|&str|&'static str)\s*=\s*([^;]+);", root_src_)
            if mc_:
                ty_ = "&'static str" if mc_.group(1) == "&str" else mc_.group(1)
                c_ = f"pub const {nm_}: {ty_} = {mc_.group(2).strip()};"
                added_.append(c_)
                self.auto_log.append({"rule": "T-CONST", "file": self.root + "/src", "item": nm_, "from": mc_.group(0), "to": c_})
        if added_:
            emit("verus! {\n" + "\n".join(added_) + "\n}\n", kind="glue")
        emit("fn main() {}\n", kind="glue")
        files_ = {p.relpath for p in self.pieces}
        self.auto_log += [e_ for e_ in ALPHA_LOG if e_["file"] in files_]
        if self.baseline_attrs is not None:
            for key in sorted(set(self.attrsigs) | set(self.baseline_attrs)):
                if self.attrsigs.get(key, []) != self.baseline_attrs.get(key, []):
                    raise Undecided(f"{key}: its serde attributes differ from the recorded ones ({self.baseline_attrs.get(key, [])} -> {self.attrsigs.get(key, [])}): "
                                    "the JSON wire mapping of this type is part of the trusted model the contracts were written against")
        return "".join(out), regions
