#!/bin/bash
# t.sh <mutants-dir> <mN> <PROP> : verdict of one stored mutant on the scratch clone /tmp/repo_dev (development aid)
[ -d /tmp/repo_dev/.git ] || git clone -q /repo /tmp/repo_dev; mkdir -p /tmp/repo_dev/_b /tmp/repo_dev/_ev
cd /tmp/repo_dev && git checkout -q -- . && git apply /verif/mutants/$1/$2.diff || exit 3
cd /verif && VERIF_REPO=/tmp/repo_dev VERIF_BUILD_DIR=/tmp/repo_dev/_b VERIF_EVIDENCE_DIR=/tmp/repo_dev/_ev ./check $3 2>&1 | grep -E "^VIOL|^UNDEC|^OK|failed obl" | cut -c1-${W:-400}
cd /tmp/repo_dev && git checkout -q -- .
