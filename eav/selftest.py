#!/usr/bin/env python3
"""setup: nothing to build (the tool is Python); check the installed tools respond."""
import shutil, subprocess, sys
ok = True
for tool in ("verus",):
    if not shutil.which(tool):
        print("missing tool", tool); ok = False
r = subprocess.run(["verus", "--version"], capture_output=True, text=True)
print(r.stdout.strip().splitlines()[0] if r.stdout else r.stderr[:200])
sys.exit(0 if ok else 1)
