#!/bin/bash
# benigncheck.sh <diff>... : apply a behaviour-preserving change to /repo, run every check, report the verdicts; undo.
# A VIOLATION here is a false alarm of the machinery.
for patch in "$@"; do
  git -C ${VERIF_REPO:-/repo} apply $patch || { echo "$patch: does not apply"; continue; }
  res=$(printf "%s\n" C01 C02 C03 C04 C05 C06 C07 C08 C09 C10 C11 C13 C14 C15 C16 C17 C18 C19 | xargs -P 9 -I{} sh -c 'VERIF_EVIDENCE_DIR=${VERIF_EVIDENCE_DIR:-/tmp/seed_evidence} ${VERIF_HOME:-/verif}/check {} > ${VERIF_EVIDENCE_DIR:-/tmp/seed_evidence}/{}.out 2>&1; echo "{}:$?"' | sort | tr '\n' ' ')
  git -C ${VERIF_REPO:-/repo} checkout -- .
  viol=$(echo "$res" | tr ' ' '\n' | grep ":1" | tr '\n' ' ')
  und=$(echo "$res" | tr ' ' '\n' | grep ":2" | tr '\n' ' ')
  echo "$(basename $(dirname $(dirname $patch)))/$(basename $patch): violations=[${viol}] undecided=[${und}]"
  for v in $viol; do p=${v%%:*}; grep -E "failed obl" ${VERIF_EVIDENCE_DIR:-/tmp/seed_evidence}/$p.out | head -2 | cut -c1-300; done
  for v in $und; do p=${v%%:*}; grep -E "^UNDECIDED" ${VERIF_EVIDENCE_DIR:-/tmp/seed_evidence}/$p.out | head -1 | cut -c1-250; done
done
