#!/bin/bash
# prep_benign.sh <tag> : six scratch worktrees /tmp/wt_B<k><tag>, one per code area, for a batch of behaviour-preserving refactorings
tag=$1
areas=(
"acmed/src/acme_proto.rs acmed/src/acme_proto/account.rs acmed/src/acme_proto/certificate.rs acmed/src/acme_proto/http.rs acmed/src/acme_proto/structs/*.rs"
"acmed/src/http.rs acmed/src/endpoint.rs acmed/src/jws.rs acmed/src/duration.rs"
"acmed/src/config.rs acmed/src/main_event_loop.rs acmed/src/main.rs acmed/src/template.rs"
"acmed/src/account.rs acmed/src/account/*.rs acmed/src/storage.rs acmed/src/logs.rs"
"acmed/src/certificate.rs acmed/src/hooks.rs acmed/src/identifier.rs"
"acme_common/src/*.rs acme_common/src/crypto/*.rs tacd/src/*.rs"
)
k=1
for a in "${areas[@]}"; do
  n=B${k}${tag}
  bash /verif/eav/mkwt.sh C01 $n || exit 1
  rm -f /tmp/wt_$n/_seed/*
  sed "s#@@e#${n}#g; s#@@FILES#${a}#g" ${BENIGN_PROMPT:-/verif/eav/benign_prompt.txt} > /tmp/wt_$n/_seed/TASK.txt
  k=$((k+1))
done
ls -d /tmp/wt_B*${tag}
