"""T-ALPHA: alpha-equivalence of two versions of one function (token level, scope aware).

Two texts of a function are *alpha-equivalent* when they are the same token for token except for the names of local variables
(parameters, `let` / `if let` / `while let` / `for` / `match` arm / closure parameter bindings), each use resolving to the same
binding in both.  Comments and white space do not count.  A function whose text differs from the recorded one but is
alpha-equivalent to it means exactly the same; the tool then verifies the recorded text (rule T-ALPHA, logged), so that renaming a
local or a parameter - with or without removing / introducing a shadowing - neither loses a contract's anchors nor lets a name in a
contract mean another variable than the one it was written for.

The resolver is deliberately small and conservative: whatever it does not understand raises `NotComparable` and the function goes
the normal way (its own text, anchors and all).  Both texts go through the same resolver, and every token that is not recognised
as a local (field names, paths, types, macros, functions, constants, literals, punctuation) must be equal in both.
"""
import re
from rustlex import lex, match_close, OPEN


class NotComparable(Exception):
    pass


KEYWORDS = {"as", "break", "const", "continue", "crate", "else", "enum", "extern", "false", "fn", "for", "if", "impl", "in", "let",
            "loop", "match", "mod", "move", "mut", "pub", "ref", "return", "self", "Self", "static", "struct", "super", "trait",
            "true", "type", "unsafe", "use", "where", "while", "async", "await", "dyn", "box", "_"}
NESTED_ITEMS = {"fn", "struct", "enum", "impl", "trait", "mod", "union", "macro_rules"}
CAPTURE = re.compile(r"(?<!\{)\{([A-Za-z_][A-Za-z0-9_]*)(\s*(?::[^{}]*)?)\}(?!\})")


def _blank_names(lit):
    """a format string with the names of its inline captures blanked (`{e:02x}` -> `{#:02x}`): everything else - the format specifications
    included - stays"""
    return CAPTURE.sub(lambda m: "{#" + m.group(2) + "}", lit)


def _is_binder_name(s):
    return s not in KEYWORDS and (s[0].islower() or (s[0] == "_" and len(s) > 1))


class Resolver:
    def __init__(self, toks):
        self.t = toks
        self.n = len(toks)
        self.res = [-1] * self.n          # for ident tokens: index of the binder token it denotes, -1 = not a local
        self.zone = [None] * self.n       # 'pat' / 'type' : tokens that are not expressions
        self.scopes = []                  # stack of [end_index, {name: binder idx}]
        self.activate = {}                # token index -> list of (name, binder idx) that come into scope there (end of a `let`)
        self.push_at = {}                 # token index -> list of (end index, {name: idx})
        self.caps = {}                    # literal token index -> tuple of resolutions of its {captures}
        self.fixed = set()                # identifier tokens that must be spelled the same in both texts whatever they denote

    # ---- helpers -------------------------------------------------------------------------------------------------
    def txt(self, i):
        return self.t[i].text if 0 <= i < self.n else ""

    def skip_group(self, i):
        return match_close(self.t, i)

    def is_path_sep_before(self, i):
        return self.txt(i - 1) == ":" and self.txt(i - 2) == ":" and self.t[i - 1].start == self.t[i - 2].end

    def is_path_sep_after(self, i):
        return self.txt(i + 1) == ":" and self.txt(i + 2) == ":" and self.t[i + 2].start == self.t[i + 1].end

    def single_colon_after(self, i):
        return self.txt(i + 1) == ":" and not self.is_path_sep_after(i)

    def binders_in(self, lo, hi):
        """binder tokens of the pattern toks[lo:hi]; marks the zone"""
        out = {}
        for i in range(lo, hi):
            self.zone[i] = "pat"
            tk = self.t[i]
            if tk.kind != "ident" or not _is_binder_name(tk.text):
                continue
            nxt = self.txt(i + 1) if i + 1 < hi else ""
            if nxt in ("(", "{", "!") or self.is_path_sep_after(i) or self.is_path_sep_before(i):
                continue
            if nxt == ":" and i + 1 < hi:
                continue    # field name of a struct pattern
            if self.txt(i - 1) == "." and i - 1 >= lo:
                continue
            first = out.setdefault(tk.text, i)
            self.res[i] = first
        return out

    def mark_type(self, lo, hi):
        for i in range(lo, hi):
            self.zone[i] = "type"

    def find_depth0(self, i, hi, stops, angle=False):
        """first index >= i (< hi) of a token in `stops` outside every bracket group (and outside <> when angle)"""
        a = 0
        while i < hi:
            x = self.txt(i)
            if x in OPEN:
                i = self.skip_group(i) + 1
                continue
            if angle:
                if x == "-" and self.txt(i + 1) == ">":
                    i += 2
                    continue
                if x == "<":
                    a += 1
                elif x == ">" and a > 0:
                    a -= 1
            if x in stops and a == 0:
                return i
            i += 1
        return hi

    def params(self, lo, hi, closure):
        """parameter list toks[lo:hi] (without the delimiters): PAT [: TYPE] , ...  -> binders"""
        out = {}
        i = lo
        while i < hi:
            e = self.find_depth0(i, hi, {":", ","}, angle=False)
            # `a::b` inside a pattern: skip path separators
            while e < hi and self.txt(e) == ":" and (self.txt(e + 1) == ":" or self.txt(e - 1) == ":"):
                e = self.find_depth0(e + 1, hi, {":", ","}, angle=False)
            seg = [self.txt(k) for k in range(i, e)]
            if "self" in seg and not closure:
                for k in range(i, e):
                    self.zone[k] = "pat"
            else:
                for name, idx in self.binders_in(i, e).items():
                    out.setdefault(name, idx)
            if e < hi and self.txt(e) == ":":
                e2 = self.find_depth0(e + 1, hi, {","}, angle=True)
                self.mark_type(e, e2)
                e = e2
            i = e + 1
        return out

    # ---- the walk ------------------------------------------------------------------------------------------------
    def lookup(self, name):
        for end, env in reversed(self.scopes):
            if name in env:
                return env[name]
        return -1

    def run(self):
        t = self.t
        k = 0
        while k < self.n and not (t[k].kind == "ident" and t[k].text == "fn"):
            k += 1
        if k >= self.n:
            raise NotComparable("no fn")
        # generics
        j = k + 2
        if self.txt(j) == "<":
            a = 0
            while j < self.n:
                x = self.txt(j)
                if x == "-" and self.txt(j + 1) == ">":
                    j += 2
                    continue
                if x == "<":
                    a += 1
                elif x == ">":
                    a -= 1
                    if a == 0:
                        j += 1
                        break
                j += 1
        if self.txt(j) != "(":
            raise NotComparable("no parameter list")
        pc = self.skip_group(j)
        pbind = self.params(j + 1, pc, closure=False)
        b = pc + 1
        while b < self.n and self.txt(b) != "{":
            if self.txt(b) in ("(", "["):
                b = self.skip_group(b)
            if self.txt(b) == ";":
                return self          # declaration without a body
            b += 1
        if b >= self.n:
            return self
        self.mark_type(pc + 1, b)
        bend = self.skip_group(b)
        self.scopes.append([bend, dict(pbind)])
        self.walk(b + 1, bend)
        return self

    def walk(self, lo, hi):
        t = self.t
        i = lo
        while i < hi:
            # scopes that end here / begin here
            while self.scopes and self.scopes[-1][0] == i and len(self.scopes) > 1:
                self.scopes.pop()
            for end, env in self.push_at.pop(i, []):
                self.scopes.append([end, dict(env)])
            tk = t[i]
            x = tk.text
            if self.zone[i] is not None:
                i += 1
                continue
            if tk.kind == "punct":
                if x == "{":
                    self.scopes.append([self.skip_group(i), {}])
                elif x == ";":
                    for name, idx in self.activate.pop(i, []):
                        self.scopes[-1][1][name] = idx
                elif x == "|":
                    i = self.maybe_closure(i, hi)
                    continue
                i += 1
                continue
            if tk.kind == "lit":
                if x.startswith('"') or x.startswith('r"') or x.startswith('r#'):
                    self.caps[i] = tuple(self.lookup(m.group(1)) for m in CAPTURE.finditer(x))
                i += 1
                continue
            if tk.kind != "ident":
                i += 1
                continue
            if x in NESTED_ITEMS and not (x == "fn" and False):
                if x == "impl" or self.txt(i + 1) != "(":
                    raise NotComparable(f"nested item `{x}`")
            if x == "let":
                i = self.do_let(i, hi)
                continue
            if x == "for" and self.txt(i + 1) != "<":
                i = self.do_for(i, hi)
                continue
            if x == "match":
                self.do_match(i, hi)
                i += 1
                continue
            if x in KEYWORDS:
                i += 1
                continue
            # an identifier in expression position
            prev, prev2 = self.txt(i - 1), self.txt(i - 2)
            if prev == "." and prev2 != ".":
                pass                                   # field / method
            elif self.is_path_sep_before(i) or self.is_path_sep_after(i):
                pass                                   # path segment
            elif self.txt(i + 1) == "!" and self.txt(i + 2) in OPEN and t[i + 1].start == tk.end:
                pass                                   # macro name
            elif self.single_colon_after(i) and prev != "?":
                pass                                   # field name of a struct literal (or a labelled item)
            elif prev == "$":
                pass
            elif _is_binder_name(x):
                self.res[i] = self.lookup(x)
            i += 1

    def stmt_end(self, i, hi):
        j = self.find_depth0(i, hi, {";"})
        if j >= hi:
            raise NotComparable("statement without end")
        return j

    def block_after(self, i, hi, what):
        """the `{` of the block that follows the head expression starting at i"""
        j = i
        while j < hi:
            x = self.txt(j)
            if x in ("(", "["):
                j = self.skip_group(j) + 1
                continue
            if x == "{":
                return j
            if self.t[j].kind == "ident" and x in ("match", "if", "loop", "while", "unsafe", "async", "move", "for") and j > i:
                raise NotComparable(f"{what}: block-like head expression")
            if x == "|":
                raise NotComparable(f"{what}: closure in the head expression")
            if x == ";":
                break
            j += 1
        raise NotComparable(f"{what}: no block")

    def do_let(self, i, hi):
        prev = self.txt(i - 1)
        cond = prev in ("if", "while")
        if not cond and prev in ("&", "|"):
            raise NotComparable("let chain")
        if cond:
            e = self.find_depth0(i + 1, hi, {"="})
            if e >= hi:
                raise NotComparable("if let without =")
            binders = self.binders_in(i + 1, e)
            blk = self.block_after(e + 1, hi, "if let")
            # `if let A = x && ..` (let chains) are not handled
            for k in range(e + 1, blk):
                if self.txt(k) == "let":
                    raise NotComparable("let chain")
            self.push_at.setdefault(blk + 1, []).append((self.skip_group(blk), binders))
            return e + 1
        end = self.stmt_end(i, hi)
        e = self.find_depth0(i + 1, end, {"=", ":"})
        while e < end and self.txt(e) == ":" and (self.txt(e + 1) == ":" or self.txt(e - 1) == ":"):
            e = self.find_depth0(e + 1, end, {"=", ":"})
        binders = self.binders_in(i + 1, e)
        nxt = e
        if e < end and self.txt(e) == ":":
            e2 = self.find_depth0(e + 1, end, {"="}, angle=True)
            self.mark_type(e, e2)
            nxt = e2
        self.activate.setdefault(end, []).extend(binders.items())
        return nxt + 1 if nxt < end else end

    def do_for(self, i, hi):
        e = i + 1
        while e < hi and not (self.t[e].kind == "ident" and self.txt(e) == "in"):
            if self.txt(e) in OPEN:
                e = self.skip_group(e)
            e += 1
        if e >= hi:
            raise NotComparable("for without in")
        binders = self.binders_in(i + 1, e)
        blk = self.block_after(e + 1, hi, "for")
        self.push_at.setdefault(blk + 1, []).append((self.skip_group(blk), binders))
        return e + 1

    def do_match(self, i, hi):
        blk = self.block_after(i + 1, hi, "match")
        close = self.skip_group(blk)
        k = blk + 1
        while k < close:
            # (attributes of the arm)
            while self.txt(k) == "#" and self.txt(k + 1) == "[":
                k = self.skip_group(k + 1) + 1
            # pattern up to `=>` or a guard
            p0 = k
            g = None
            while k < close:
                x = self.txt(k)
                if x in OPEN:
                    k = self.skip_group(k) + 1
                    continue
                if x == "=" and self.txt(k + 1) == ">" and self.t[k + 1].start == self.t[k].end:
                    break
                if self.t[k].kind == "ident" and x == "if":
                    g = k
                    break
                k += 1
            if k >= close:
                raise NotComparable("match arm without =>")
            p1 = k
            binders = self.binders_in(p0, p1)
            if g is not None:
                k = g + 1
                while k < close and not (self.txt(k) == "=" and self.txt(k + 1) == ">" and self.t[k + 1].start == self.t[k].end):
                    if self.txt(k) in OPEN:
                        k = self.skip_group(k)
                    k += 1
                if k >= close:
                    raise NotComparable("match guard without =>")
            arrow = k
            b0 = arrow + 2
            if self.txt(b0) == "{":
                b1 = self.skip_group(b0) + 1
                # `{ .. }.method()` / `{ .. }?` / `{ .. } as T` continue the arm expression; otherwise the arm ends with its block
                if b1 < close and (self.txt(b1) in (".", "?") or (self.t[b1].kind == "ident" and self.txt(b1) == "as")):
                    b1 = self.find_depth0(b1, close, {","})
            else:
                b1 = self.find_depth0(b0, close, {","})
            start = (g + 1) if g is not None else b0
            self.push_at.setdefault(start, []).append((b1, binders))
            k = b1 + 1 if (b1 < close and self.txt(b1) == ",") else b1

    def maybe_closure(self, i, hi):
        """`|` at i: the start of a closure's parameter list, or an operator"""
        t = self.t
        prev = self.txt(i - 1)
        pk = t[i - 1].kind if i > 0 else "punct"
        starts = (pk == "punct" and prev in ("(", ",", "=", "{", ";", ">", "[", "&", "!", ":", "?", "}", "|", "+", "-", "*", "/", "<")) \
            or (pk == "ident" and prev in ("move", "return", "in", "else", "break"))
        if prev == "|" and self.txt(i - 2) != "|":
            starts = False     # second bar of an `||` operator or of an empty parameter list (handled from the first bar)
        if not starts:
            return i + 1
        if prev in (")", "]") or pk == "lit":
            return i + 1
        # parameter list
        if self.txt(i + 1) == "|" and t[i + 1].start == tk_end(t[i]):
            pend = i + 1
            binders = {}
        else:
            pend = self.find_depth0(i + 1, hi, {"|"}, angle=True)
            if pend >= hi:
                raise NotComparable("closure parameters without end")
            binders = self.params(i + 1, pend, closure=True)
        b0 = pend + 1
        if self.txt(b0) == "-" and self.txt(b0 + 1) == ">":
            blk = self.find_depth0(b0, hi, {"{"})
            if blk >= hi:
                raise NotComparable("closure return type without a block")
            self.mark_type(b0, blk)
            b0 = blk
        if self.txt(b0) == "{":
            b1 = self.skip_group(b0) + 1
        else:
            b1 = self.find_depth0(b0, hi, {",", ";", ")", "]", "}"})
        self.push_at.setdefault(b0, []).append((b1, binders))
        return b0


def tk_end(tok):
    return tok.end


def expand_shorthand(toks):
    """`Name { field }` (struct literal or struct pattern, short form) is spelled out as `Name { field: field }`: the first is a field
    name (never a local), the second the variable.  A brace group counts as a struct body when a capitalised name stands before it."""
    from rustlex import Tok
    out = []
    structy = []      # per open bracket: is it a struct body
    for i, tk in enumerate(toks):
        x = tk.text
        if tk.kind == "punct" and x in OPEN:
            prev = toks[i - 1] if i > 0 else None
            structy.append(x == "{" and prev is not None and prev.kind == "ident" and prev.text[0].isupper())
        elif tk.kind == "punct" and x in (")", "]", "}"):
            if structy:
                structy.pop()
        out.append(tk)
        if tk.kind == "ident" and structy and structy[-1] and i > 0 and i + 1 < len(toks) \
                and toks[i - 1].text in ("{", ",") and toks[i + 1].text in (",", "}") and tk.text not in KEYWORDS:
            out.append(Tok("punct", ":", tk.end, tk.end))
            out.append(Tok("ident", tk.text, tk.end, tk.end))
    return out


def resolve(text):
    toks = expand_shorthand(lex(text))
    r = Resolver(toks)
    r.run()
    # scopes left open / events never reached mean the walk lost its way
    if r.activate or r.push_at:
        raise NotComparable("unbalanced scopes")
    return toks, r


def _in_macro(toks, i):
    """is literal token i an argument of a macro invocation `name!( .. )` (format strings live there)"""
    depth = 0
    j = i - 1
    while j >= 0:
        x = toks[j].text
        if x in (")", "]", "}"):
            depth += 1
        elif x in ("(", "[", "{"):
            if depth == 0:
                if j >= 2 and toks[j - 1].text == "!" and toks[j - 2].kind == "ident":
                    return True
                if x == "{":
                    return False
            else:
                depth -= 1
        j -= 1
    return False


LOG_MACROS = {"debug", "info", "warn", "error", "trace"}


def _log_message(toks, i):
    """is literal token i the format string of a log macro: `debug!(LIT ..` / `log::debug!(LIT ..`"""
    return i >= 3 and toks[i - 1].text == "(" and toks[i - 2].text == "!" and toks[i - 3].kind == "ident" and toks[i - 3].text in LOG_MACROS \
        and (i < 4 or toks[i - 4].text != ".")


def alpha_equal(new_text, base_text):
    """True iff the two function texts are alpha-equivalent (see the module text); never raises"""
    try:
        ta, ra = resolve(new_text)
        tb, rb = resolve(base_text)
    except Exception:
        return False
    if len(ta) != len(tb):
        return False
    for i, (a, b) in enumerate(zip(ta, tb)):
        if a.kind != b.kind:
            return False
        if a.kind == "ident":
            if ra.res[i] != rb.res[i] or ra.zone[i] != rb.zone[i]:
                return False
            if ra.res[i] == -1 and a.text != b.text:
                return False
            if ra.res[i] != -1 and (a.text in KEYWORDS or b.text in KEYWORDS):
                return False
            if (i in ra.fixed or i in rb.fixed) and a.text != b.text:
                return False
        elif a.kind == "lit" and a.text == b.text:
            if ra.caps.get(i) != rb.caps.get(i) and _in_macro(ta, i):
                return False
        elif a.kind == "lit" and a.text != b.text and _log_message(ta, i) and _log_message(tb, i):
            # the text of a log message (rule T-LOG drops it from the verified text; its arguments are kept and compared as tokens)
            if -1 in ra.caps.get(i, ()) or -1 in rb.caps.get(i, ()):
                return False
        elif a.kind == "lit" and a.text != b.text:
            if i not in ra.caps or i not in rb.caps or not _in_macro(ta, i) or not _in_macro(tb, i):
                return False
            if ra.caps[i] != rb.caps[i] or -1 in ra.caps[i]:
                return False
            if _blank_names(a.text) != _blank_names(b.text):
                return False
        elif a.text != b.text:
            return False
    return True


def macro_alpha_equal(new_text, base_text):
    """the same for a single-arm `macro_rules! name { (PARAMS) => { BODY } }`: everything outside BODY identical token for token, BODY
    alpha-equivalent (read as the body of a function without parameters; `$name` fragments are not locals)"""
    try:
        def split(text):
            toks = lex(text)
            k = next(i for i in range(len(toks) - 1) if toks[i].text == "=" and toks[i + 1].text == ">" and toks[i + 1].start == toks[i].end)
            if toks[k + 2].text != "{":
                raise NotComparable("macro arm without a block")
            c = match_close(toks, k + 2)
            head = [(t.kind, t.text) for t in toks[:k + 2]] + [(t.kind, t.text) for t in toks[c + 1:]]
            # one arm only
            if any(t.text == "=" and toks[i + 1].text == ">" and toks[i + 1].start == t.end and toks[i - 1].text == ")"
                   for i, t in enumerate(toks[c + 1:-1], c + 1)):
                raise NotComparable("several arms")
            return head, text[toks[k + 2].start:toks[c].end]
        ha, ba = split(new_text)
        hb, bb = split(base_text)
        if ha != hb:
            return False
        return alpha_equal("fn m__() " + ba, "fn m__() " + bb)
    except Exception:
        return False


if __name__ == "__main__":
    import sys
    print(alpha_equal(open(sys.argv[1]).read(), open(sys.argv[2]).read()))
