#!/bin/bash
# allseeds.sh : apply every stored seeded change in turn and print the verdict of the checks of its property
declare -A PR=( [C01]="C01" [C02]="C02" [C03]="C03" [C04]="C04" [C05]="C05" [C06]="C06" [C07]="C07" [C08]="C08" [C09]="C09" [C10]="C10" [C11]="C11" [C13]="C13" [C14]="C14" [C15]="C15" [C16]="C16" [C17]="C17" [C18]="C18" [C19]="C19" )
for d in /verif/seeded/S_*; do
  s=$(basename $d); p=${s#S_}; p=${p%%_*}
  pf=$d/patch.diff; [ -f $d/patch_rebased.diff ] && pf=$d/patch_rebased.diff
  out=$(bash ${VERIF_HOME:-/verif}/eav/seedcheck.sh $pf ${PR[$p]} 2>&1 | grep -E "^VIOLATION|^UNDECIDED|^OK|failed obl" | cut -c1-220 | head -3 | tr '\n' ' ')
  echo "$s: $out"
done
git -C ${VERIF_REPO:-/repo} status --short
