#!/bin/bash
# mutants_rerun.sh [dir...] : verdict of the property's check for every stored mutant (default: all of /verif/mutants), on a scratch clone
dirs="$@"; [ -z "$dirs" ] && dirs=$(ls -d /verif/mutants/*/)
R=/tmp/rr_mutrerun; rm -rf $R; git clone -q /repo $R; mkdir -p $R/_ev $R/_build
for d in $dirs; do
  d=${d%/}; p=$(basename $d); p=${p%%_*}
  : > $d/verdicts_after.txt
  for f in $d/m*.diff; do
    git -C $R apply $f 2>/dev/null || { echo "$(basename $f): does not apply" >> $d/verdicts_after.txt; continue; }
    out=$(VERIF_REPO=$R VERIF_EVIDENCE_DIR=$R/_ev VERIF_BUILD_DIR=$R/_build ${VERIF_HOME:-/verif}/check $p 2>&1 | grep -E "^VIOL|^UNDEC|^OK|failed obl" | cut -c1-260 | head -2 | tr '\n' ' ')
    git -C $R checkout -q -- .
    echo "$(basename $f): $out" >> $d/verdicts_after.txt
  done
  echo "$p: $(grep -c VIOLATION $d/verdicts_after.txt) violation, $(grep -c UNDECIDED $d/verdicts_after.txt) undecided, $(grep -c '^m.*: OK' $d/verdicts_after.txt) ok"
done
rm -rf $R
