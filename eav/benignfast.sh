#!/bin/bash
# benignfast.sh <diff>... : as benigncheck.sh, but only the checks whose units read a file the change touches are run (the others
# read nothing that changed).  A VIOLATION here is a false alarm of the machinery.
H=${VERIF_HOME:-/verif}; R=${VERIF_REPO:-/repo}; E=${VERIF_EVIDENCE_DIR:-/tmp/seed_evidence}
for patch in "$@"; do
  git -C $R apply $patch || { echo "$patch: does not apply"; continue; }
  files=$(git -C $R diff --name-only)
  props=$(python3 $H/eav/props_for_files.py $files 2>/dev/null)
  res=$(printf "%s\n" $props | xargs -P 12 -I{} sh -c "VERIF_EVIDENCE_DIR=$E $H/check {} > $E/{}.out 2>&1; echo \"{}:\$?\"" | sort | tr '\n' ' ')
  git -C $R checkout -- .
  viol=$(echo "$res" | tr ' ' '\n' | grep ":1" | tr '\n' ' ')
  und=$(echo "$res" | tr ' ' '\n' | grep ":2" | tr '\n' ' ')
  echo "$(basename $patch): checks=[$props] violations=[${viol}] undecided=[${und}]"
  for v in $viol; do p=${v%%:*}; grep -E "failed obl" $E/$p.out | head -2 | cut -c1-300; done
  for v in $und; do p=${v%%:*}; grep -E "^UNDECIDED" $E/$p.out | head -1 | cut -c1-250; done
done
