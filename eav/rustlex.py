"""Minimal Rust lexer + item locator used by the extract-annotate-verify tool.

It never rewrites anything by itself: it only yields byte-exact (char-exact) spans of the
source text, located by *name*.  Everything it cannot classify makes the caller raise
`Undecided` (exit 2), never a violation.
"""
import re


class Undecided(Exception):
    """The machinery cannot decide (lost anchor, unknown construct, tool error)."""


KEYWORDS_ITEM = {"fn", "struct", "enum", "impl", "const", "static", "type", "trait", "mod", "use",
                 "macro_rules", "union", "extern"}

_ident_re = re.compile(r"[A-Za-z_][A-Za-z0-9_]*")
_num_re = re.compile(r"[0-9][0-9A-Za-z_]*(\.[0-9][0-9A-Za-z_]*)?")


class Tok:
    __slots__ = ("kind", "text", "start", "end")

    def __init__(self, kind, text, start, end):
        self.kind, self.text, self.start, self.end = kind, text, start, end

    def __repr__(self):
        return f"<{self.kind} {self.text!r} {self.start}>"


def lex(src):
    """Return the list of significant tokens (comments and whitespace are skipped)."""
    toks = []
    i, n = 0, len(src)
    while i < n:
        c = src[i]
        if c.isspace():
            i += 1
            continue
        if src.startswith("//", i):
            j = src.find("\n", i)
            i = n if j < 0 else j
            continue
        if src.startswith("/*", i):
            depth, j = 1, i + 2
            while j < n and depth:
                if src.startswith("/*", j):
                    depth += 1
                    j += 2
                elif src.startswith("*/", j):
                    depth -= 1
                    j += 2
                else:
                    j += 1
            i = j
            continue
        # raw strings / byte strings
        m = re.match(r"(b?r)(#*)\"", src[i:i + 40])
        if m:
            hashes = m.group(2)
            close = '"' + hashes
            j = src.find(close, i + len(m.group(0)))
            if j < 0:
                raise Undecided("unterminated raw string")
            j += len(close)
            toks.append(Tok("lit", src[i:j], i, j))
            i = j
            continue
        if c == '"' or (c == "b" and src.startswith('b"', i)):
            j = i + (2 if c == "b" else 1)
            while j < n and src[j] != '"':
                j += 2 if src[j] == "\\" else 1
            j += 1
            toks.append(Tok("lit", src[i:j], i, j))
            i = j
            continue
        if c == "'" or (c == "b" and src.startswith("b'", i)):
            k = i + (1 if c == "b" else 0)
            # char literal or lifetime
            if src[k + 1] == "\\":
                j = src.find("'", k + 2)
                # handle '\''
                if src[k + 2] == "'":
                    j = k + 3
                toks.append(Tok("lit", src[i:j + 1], i, j + 1))
                i = j + 1
                continue
            if k + 2 < n and src[k + 2] == "'":
                toks.append(Tok("lit", src[i:k + 3], i, k + 3))
                i = k + 3
                continue
            m = _ident_re.match(src, k + 1)
            if m:
                toks.append(Tok("lifetime", src[i:m.end()], i, m.end()))
                i = m.end()
                continue
            raise Undecided(f"cannot lex quote at {i}")
        m = _ident_re.match(src, i)
        if m:
            toks.append(Tok("ident", m.group(0), i, m.end()))
            i = m.end()
            continue
        m = _num_re.match(src, i)
        if m:
            # do not swallow `0..10` or `1.foo()`
            txt = m.group(0)
            if m.group(1) and (src.startswith("..", m.start(1)) or not src[m.start(1) + 1].isdigit()):
                txt = txt[: m.start(1) - i]
            toks.append(Tok("lit", txt, i, i + len(txt)))
            i += len(txt)
            continue
        toks.append(Tok("punct", c, i, i + 1))
        i += 1
    return toks


OPEN = {"(": ")", "[": "]", "{": "}"}
CLOSE = {")", "]", "}"}


def match_close(toks, k):
    """toks[k] is an opening bracket; return index of its matching closer."""
    depth = 0
    for j in range(k, len(toks)):
        t = toks[j]
        if t.kind == "punct":
            if t.text in OPEN:
                depth += 1
            elif t.text in CLOSE:
                depth -= 1
                if depth == 0:
                    return j
    raise Undecided("unbalanced brackets")


class Item:
    """A syntactic item: [start,end) char span including attributes/doc comments' attributes."""

    def __init__(self, kind, name, start, end, toks, k0, k1, body_open=None):
        self.kind, self.name, self.start, self.end = kind, name, start, end
        self.toks, self.k0, self.k1 = toks, k0, k1  # token index range [k0,k1]
        self.body_open = body_open  # token index of the `{` that opens the body, if any
        self.children = []

    def __repr__(self):
        return f"Item({self.kind} {self.name!r} {self.start}..{self.end})"


def _norm(toks):
    out = ""
    for t in toks:
        if out and (out[-1].isalnum() or out[-1] == "_") and (t.text[0].isalnum() or t.text[0] == "_"):
            out += " "
        out += t.text
    return out


def parse_items(toks, k, kend):
    """Parse the items in toks[k:kend] (a file or the inside of an impl/mod/trait body)."""
    items = []
    while k < kend:
        k0 = k
        # attributes
        while k < kend and toks[k].text == "#":
            j = k + 1
            if toks[j].text == "!":
                j += 1
            if toks[j].text != "[":
                raise Undecided("bad attribute")
            k = match_close(toks, j) + 1
        if k >= kend:
            break
        # visibility and qualifiers
        while k < kend and toks[k].kind == "ident" and toks[k].text in ("pub", "async", "unsafe", "default"):
            k += 1
            if toks[k - 1].text == "pub" and toks[k].text == "(":
                k = match_close(toks, k) + 1
        if toks[k].text == "const" and toks[k + 1].text in ("fn", "unsafe", "async"):
            k += 1
            while toks[k].text in ("unsafe", "async"):
                k += 1
        if toks[k].text == "extern" and toks[k + 1].kind == "lit":
            k += 2
        t = toks[k]
        if t.kind == "ident" and t.text not in KEYWORDS_ITEM:
            # item-position macro invocation: path ! ( ... ) ;
            j = k
            while toks[j].kind == "ident" or toks[j].text == ":":
                j += 1
            if toks[j].text == "!" and toks[j + 1].text in OPEN:
                k1 = match_close(toks, j + 1)
                if k1 + 1 < kend and toks[k1 + 1].text == ";":
                    k1 += 1
                items.append(Item("macro_call", _norm(toks[k:j]), toks[k0].start, toks[k1].end, toks, k0, k1))
                k = k1 + 1
                continue
        if t.kind != "ident" or t.text not in KEYWORDS_ITEM:
            raise Undecided(f"unrecognised item start {t!r}")
        kind = t.text
        # find end: first `;` or `{...}` at bracket depth 0
        j = k + 1
        body_open = None
        while True:
            if j >= kend:
                raise Undecided("item runs past end")
            tj = toks[j]
            if tj.kind == "punct" and tj.text in ("(", "["):
                j = match_close(toks, j) + 1
                continue
            if tj.kind == "punct" and tj.text == "{":
                body_open = j
                j = match_close(toks, j)
                # `macro_rules! x { }` and struct/enum/fn/impl end here
                break
            if tj.kind == "punct" and tj.text == ";":
                break
            j += 1
        k1 = j
        # name
        if kind == "impl":
            name = _norm(toks[k + 1:body_open])
        elif kind == "macro_rules":
            name = toks[k + 2].text
        elif kind == "use":
            name = _norm(toks[k + 1:k1])
        else:
            name = toks[k + 1].text
        # const X: T = expr { .. }; -- a const with a block initialiser: extend to `;`
        if kind in ("const", "static", "type", "use") and toks[k1].text == "}":
            while toks[k1].text != ";":
                k1 += 1
            body_open = None
        if kind == "struct" and toks[k1].text == "}" and False:
            pass
        it = Item(kind, name, toks[k0].start, toks[k1].end, toks, k0, k1, body_open)
        if kind in ("impl", "mod", "trait") and body_open is not None:
            it.children = parse_items(toks, body_open + 1, k1)
        items.append(it)
        k = k1 + 1
    return items


def impl_self_type(name):
    """`From<Error> for HttpError` -> `HttpError`; `RateLimit` -> `RateLimit`; strips generics."""
    s = name
    if s.startswith("<"):
        # impl<'a, T> X
        depth = 0
        for i, ch in enumerate(s):
            if ch == "<":
                depth += 1
            elif ch == ">":
                depth -= 1
                if depth == 0:
                    s = s[i + 1:]
                    break
    if " for " in s:
        s = s.split(" for ", 1)[1]
    s = s.split(" where ")[0]
    return s.strip()


class SourceFile:
    def __init__(self, path, text):
        self.path, self.text = path, text
        self.toks = lex(text)
        self.items = parse_items(self.toks, 0, len(self.toks))

    def find(self, spec):
        """spec forms:
             `name`                    top-level fn/struct/enum/const/type/macro_rules
             `Type::method`            method in an inherent impl of Type (or any impl of Type)
             `impl Trait for Type`     whole impl block (normalised header match)
             `mod::name`               item inside an inline module
        """
        spec = spec.strip()
        if spec.startswith("impl "):
            want = _norm(lex(spec[5:]))
            hits = [it for it in self._all_items() if it.kind == "impl" and it.name == want]
        elif "::" in spec:
            head, tail = spec.rsplit("::", 1)
            hits = []
            for it in self._all_items():
                if it.kind == "impl" and impl_self_type(it.name).split("<")[0] == head:
                    hits += [c for c in it.children if c.name == tail and c.kind in ("fn", "const", "type")]
                if it.kind in ("mod", "trait") and it.name == head:
                    hits += [c for c in it.children if c.name == tail]
            for h in hits:
                pass
        else:
            hits = [it for it in self.items if it.name == spec and it.kind not in ("impl", "use")]
        if len(hits) > 1 and sum(1 for h in hits if h.kind == "macro_rules") == 1:
            # a macro_rules definition and its item-level invocations share the name: the definition is meant
            hits = [h for h in hits if h.kind == "macro_rules"]
        if len(hits) != 1:
            raise Undecided(f"item `{spec}` in {self.path}: {len(hits)} matches")
        return hits[0]

    def parent_impl(self, item):
        for it in self._all_items():
            if it.kind == "impl" and item in it.children:
                return it
        return None

    def _all_items(self):
        out = []

        def rec(lst):
            for it in lst:
                out.append(it)
                if it.kind == "mod":
                    rec(it.children)
        rec(self.items)
        return out


def fn_parts(item):
    """For a fn item: token indices (sig_start, body_open, body_close)."""
    if item.kind != "fn" or item.body_open is None:
        raise Undecided(f"{item} is not a function with a body")
    return item.k0, item.body_open, item.k1


def find_fns(item):
    """All fn items directly in `item` (itself if it is a fn, its children if impl/trait/mod)."""
    if item.kind == "fn":
        return {item.name: item}
    return {c.name: c for c in item.children if c.kind == "fn"}


def loops_in(toks, k_open, k_close):
    """Token indices of the body-opening `{` of each loop (`for`/`while`/`loop`) in source order,
    inside toks[k_open:k_close] (nested loops included, closures included)."""
    res = []
    k = k_open + 1
    while k < k_close:
        t = toks[k]
        if t.kind == "ident" and t.text in ("for", "while", "loop"):
            # `for<'a>` in types: skip
            if t.text == "for" and toks[k + 1].text == "<":
                k += 1
                continue
            # `impl X for Y` cannot occur inside bodies we handle
            j = k + 1
            while j < k_close:
                tj = toks[j]
                if tj.kind == "punct" and tj.text in ("(", "["):
                    j = match_close(toks, j) + 1
                    continue
                if tj.kind == "punct" and tj.text == "{":
                    res.append((k, j))
                    break
                j += 1
        k += 1
    return res
