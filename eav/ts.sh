#!/bin/bash
# ts.sh <seed dir name> [PROP] : verdict of one stored seed on the scratch clone /tmp/repo_dev (development aid)
d=/verif/seeded/$1; p=${2:-$(echo $1 | sed 's/^S_//; s/_.*//')}
pf=$d/patch.diff; [ -f $d/patch_rebased.diff ] && pf=$d/patch_rebased.diff
[ -d /tmp/repo_dev/.git ] || git clone -q /repo /tmp/repo_dev; mkdir -p /tmp/repo_dev/_b /tmp/repo_dev/_ev
cd /tmp/repo_dev && git checkout -q -- . && git apply $pf || exit 3
cd /verif && VERIF_REPO=/tmp/repo_dev VERIF_BUILD_DIR=/tmp/repo_dev/_b VERIF_EVIDENCE_DIR=/tmp/repo_dev/_ev ./check $p 2>&1 | grep -E "^VIOL|^UNDEC|^OK|failed obl" | cut -c1-${W:-300}
cd /tmp/repo_dev && git checkout -q -- .
