#!/usr/bin/env python3
"""muttest.py PROP FILE FROM TO [N]: run ./check PROP against a scratch copy of /repo's sources with one
textual mutation (the N-th occurrence of FROM replaced by TO).  Measures the contracts; decides nothing about /repo."""
import os, shutil, subprocess, sys, tempfile
prop, rel, frm, to = sys.argv[1:5]
n = int(sys.argv[5]) if len(sys.argv) > 5 else 1
d = tempfile.mkdtemp(prefix="mut_", dir="/tmp")
try:
    for sub in ("acmed/src", "acme_common/src", "tacd/src"):
        shutil.copytree(os.path.join("/repo", sub), os.path.join(d, sub))
    for f in ("Cargo.toml",):
        shutil.copy(os.path.join("/repo", f), os.path.join(d, f))
    p = os.path.join(d, rel)
    s = open(p).read()
    pos = -1
    for _ in range(n):
        pos = s.find(frm, pos + 1)
        if pos < 0:
            print("mutation site not found"); sys.exit(3)
    s = s[:pos] + to + s[pos + len(frm):]
    open(p, "w").write(s)
    env = dict(os.environ, VERIF_REPO=d, VERIF_EVIDENCE_DIR=os.path.join(d, "evidence"))
    r = subprocess.run([os.path.join(os.path.dirname(os.path.dirname(os.path.abspath(__file__))), "check"), prop],
                       env=env, capture_output=True, text=True)
    out = [l for l in r.stdout.splitlines() if l.startswith(("VIOLATION", "failed obl", "UNDECIDED", "OK", "KNOWN"))]
    print(f"rc={r.returncode}", " | ".join(out)[:600])
finally:
    shutil.rmtree(d, ignore_errors=True)
