#!/bin/bash
# confirm_seed.sh <worktree> <demo-test-filter> : confirm a seeded change in its scratch worktree
# 1. demo only -> demo passes; 2. demo + patch -> demo fails; 3. patch only -> workspace builds and the suite passes
wt=$1; filt=$2; cd $wt || exit 9
git checkout -q -- . ; git clean -fdq -e _seed -e target
log=_seed/confirm.log; : > $log
git apply _seed/demo.diff || { echo "demo does not apply" | tee -a $log; exit 9; }
cargo test --offline --workspace $filt >> $log 2>&1; r1=$?
git apply _seed/patch.diff || { echo "patch does not apply" | tee -a $log; exit 9; }
cargo test --offline --workspace $filt >> $log 2>&1; r2=$?
git checkout -q -- . ; git clean -fdq -e _seed -e target
git apply _seed/patch.diff
cargo test --offline --workspace >> $log 2>&1; r3=$?
n=$(grep -E "^test result: ok" $log | tail -4 | awk '{s+=$4} END {print s}')
git checkout -q -- . ; git clean -fdq -e _seed -e target
echo "demo_without_patch_rc=$r1 demo_with_patch_rc=$r2 suite_with_patch_rc=$r3 suite_passed=$n" | tee -a $log
