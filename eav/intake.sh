#!/bin/bash
# intake.sh <PROP> <tag> <demo filter> : store a finished seed, record the first-run verdict of its property's check, confirm it in the background
p=$1; tag=$2; filt=$3; wt=/tmp/wt_${p}${tag}; d=/verif/seeded/S_${p}_${tag}
mkdir -p $d; cp $wt/_seed/patch.diff $wt/_seed/demo.diff $wt/_seed/NOTES.md $d/ 2>/dev/null
first=$(bash /verif/eav/seedcheck.sh $d/patch.diff $p 2>&1 | grep -E '^VIOL|^UNDEC|^OK|failed obl' | cut -c1-300 | head -3 | tr '\n' ' ')
echo "$first" > $d/first_run.txt
echo "## $p$tag first run: $first"
(bash /verif/eav/confirm_seed.sh $wt $filt > /tmp/confirm_${p}${tag}.out 2>&1; tail -n1 /tmp/confirm_${p}${tag}.out > $d/confirm.txt) &
