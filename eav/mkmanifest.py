#!/usr/bin/env python3
"""Regenerate MANIFEST.json from the property registry (props.py)."""
import json, os, sys
HERE = os.path.dirname(os.path.abspath(__file__))
sys.path.insert(0, HERE)
from props import PROPS, NOT_APPLICABLE, COMMON_T
VERIF = os.path.dirname(HERE)
checks = []
for pid in sorted(PROPS):
    P = PROPS[pid]
    checks.append({
        "property_id": pid,
        "quick_cmd": f"./check {pid} --tier quick",
        "thorough_cmd": f"./check {pid} --tier thorough",
        "evidence_file": f"/verif/evidence/{pid}.json",
        "replay_cmd_template": "cat {path}",
        "engine": "eav+verus",
        "level_claimed": {"category": "proof", "text": P["text"], "design_ref": P["design_ref"]},
        "level_note": " | ".join(P["assumptions"]) + " | trusted base (external_body/assume_specification) is listed per run in the evidence file",
        "technique": P["technique"],
    })
m = {
    "version": 1,
    "setup_cmd": "python3 /verif/eav/selftest.py",
    "hooks": {"guard": "breard_r_acmed_verif", "enable": "no source hooks are needed: the checks read /repo's sources and never build it",
              "baseline_off_cmd": "cd /repo && cargo test --workspace --no-fail-fast --offline", "source_commits": [], "add_only": True},
    "engines": [{"name": "eav+verus", "path": "/verif/eav", "serves_properties": sorted(PROPS),
                 "kind_free_text": "extract real functions by name from /repo, insert contracts, discharge with Verus (Z3) function by function"}],
    "checks": checks,
    "notes": "Contract-based deductive verification (Verus) of functions extracted mechanically from /repo on every run; see DESIGN.md.",
    "not_applicable": [{"property_id": k, "reason": v} for k, v in sorted(NOT_APPLICABLE.items())],
}
json.dump(m, open(os.path.join(VERIF, "MANIFEST.json"), "w"), indent=1)
print("MANIFEST.json written:", len(checks), "checks,", len(NOT_APPLICABLE), "not applicable")
