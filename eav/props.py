"""Property registry: which units serve which property, and the standing assumptions."""

COMMON_T = [
    "Verus 0.2026.09.13 + Z3 are sound; machine integers are modelled exactly (overflow is an obligation)",
    "extraction is by item name from /repo's working tree on every run; the only differences between the "
    "verified text and the repository text are the logged rewrite-rule applications (coverage.rewrites)",
    "every `external_body` / `assume_specification` item listed in coverage.trusted_base is assumed, not proved",
    "T-ASYNC: each future is awaited immediately, so `async`/`.await` are erased; interleavings with other tasks are not covered",
]

PROPS = {
    "C01": {
        "units": ["ident", "idna", "x509", "storage", "issue", "texts", "cfgwire", "evloop", "keys"],
        "design_ref": "DESIGN.md section 5 C01",
        "technique": "Verus function contracts: normalisation label by label, newOrder payload element by element, CSR through a ghost view of the OpenSSL request builder",
        "text": "Deductive proof that configured DNS identifiers are stored as lower-case A-labels label by label (wildcard label kept) and IP "
                "identifiers in canonical text form, that the newOrder payload lists exactly those identifiers in order, and that the CSR carries "
                "exactly the given dNSName/iPAddress entries in one subjectAltName, the configured subject attributes, the public half of the given "
                "key and a self-signature with the configured digest (none for EdDSA); the key pair handed to the CSR is the one read from / "
                "written to the key file.",
        "assumptions": [
            "T: OpenSSL builds the request its builder calls describe; str::to_lowercase / is_ascii / punycode / IpAddr parsing are uninterpreted functions",
            "T: HashMap iteration yields every entry once (pairs_of)",
            "X: DER contents as a CA parser sees them; that the closure asserted on is the one handed to the request (same variable, adjacent statement)",
        ],
    },
    "C02": {
        "units": ["storage", "http", "issue", "cfgwire", "evloop", "config", "keys", "renew"],
        "design_ref": "DESIGN.md section 5 C02",
        "technique": "Verus function contracts over a ghost file-system map (POSIX open/write semantics in the trusted shim)",
        "text": "Deductive proof that write_file leaves exactly the given bytes in the target file for every previous content "
                "(longer, shorter, none) and touches no other file; that the key file gets the PEM of the given key; and that the "
                "certificate body handed to storage is the response body of the download.",
        "assumptions": [
            "T: POSIX semantics of open(2)/write as stated in prelude/fs.rs (no O_TRUNC keeps the old tail; mode applies at creation)",
            "T: KeyPair::private_key_to_pem / from_pem are inverse where defined (uninterpreted key_pem / pem_key); from_pem succeeds exactly where pem_key is defined",
            "T: the outcome of opening/reading an existing file is a function of the file-system state and the path (uninterpreted read_faults in prelude/fs.rs)",
            "T: minijinja rendering of the name format and base64url of the account name are uninterpreted functions of their inputs (get_file_full_path itself is verified)",
            "X: crash points (a write interrupted half-way)",
        ],
    },
    "C10": {
        "units": ["hooks", "setenv", "config", "storage", "schedule", "issue", "evloop", "renew"],
        "design_ref": "DESIGN.md section 5 C10",
        "technique": "Verus function contracts over a ghost sequence of spawned processes; recursive spec for group expansion; ghost event trace for the file-write bracket",
        "text": "Deductive proof that hooks::call spawns exactly the hooks whose type list contains the event type, in declaration order, "
                "one at a time (spawn requires that no child is un-waited), stopping at the first hard failure; that each process is the "
                "configured command with the arguments rendered in order, the data's environment and the configured redirections, failing "
                "only on a non-zero exit without allow_failure; that names and nested groups expand in place in declaration order; and that "
                "every file write is bracketed by the pre/post create-or-edit hooks.",
        "assumptions": [
            "T: async_process::Command / Stdio / Child as modelled in prelude/hooks_shims.rs; minijinja rendering is the uninterpreted render_spec",
            "T: HookType obeys the hash-map key model (derived Hash/Eq)",
            "T: std::env::vars and HashMap<String,String>::{entry().or_insert, insert, iter} as modelled in prelude/setenv_shims.rs (set_env itself is verified, three macro expansions)",
            "T: in unit evloop the configuration getters are the uninterpreted functions their contracts in unit config define; string-keyed HashMaps are maps of texts (prelude/evloop_shims.rs)",
            "X: what the child processes do",
        ],
    },
    "C11": {
        "units": ["account", "acctproto", "acctstore", "texts", "storage", "cfgwire", "issue", "http", "acctpayload", "keys", "config"],
        "design_ref": "DESIGN.md section 5 C11",
        "technique": "Verus function contracts over a ghost record of what the CA holds; signing-key preconditions on the account requests",
        "text": "Deductive proof that synchronize registers only when no account URL is stored or the external binding changed, otherwise sends at "
                "most one key roll-over and one contact update, the roll-over first, each request being authorised by the key the CA holds, and "
                "leaves the CA's record and the stored fingerprints in line with the configuration; that a changed key type or algorithm keeps the "
                "old key among the superseded ones, creates a key of the configured type and saves at once; and that the roll-over is authorised by "
                "the superseded key whose fingerprint is stored; that the three request functions of acme_proto/account.rs meet the contracts synchronize relies on "
                "(which key signs, what is stored and saved afterwards, re-registration when the CA has dropped the account), and that every per-endpoint setter changes only its own field of its own endpoint; "
                "that what save writes reads back, field by field, as the very account saved (name, every endpoint record, contacts, current and superseded keys with dates and "
                "algorithms, external binding), that fetch returns that account or an error - never 'no account' - whenever an account file exists, and that load keeps the stored "
                "endpoint records and keys (the stored current key stays current or becomes the newest superseded key) and builds a fresh account only when no file exists; "
                "that the stored fingerprints are SHA-256 over the key's public PEM, over the contacts and over the binding (hash_key / hash_contacts / hash_external_account verified), "
                "that a fingerprint is stored only after the CA has taken the change, that the newAccount / update / keyChange payloads carry the account's contacts, "
                "the agreement to the terms, the binding, the new key's JWK and the account URL (Account::new, AccountUpdate::new, AccountKeyRollover::new verified), "
                "and that the account the daemon synchronizes is built from the configured name, contacts, key type, signature algorithm and binding.",
        "assumptions": [
            "T: the CA's side of newAccount / account update / keyChange (prelude/acct_shims.rs: it records the signer of a newAccount, honours an update only when signed by the key it holds, "
            "replaces contacts or key as the payload says) and the readings of the payload structures (structs/account.rs) are stated, not proved; encode_jwk / encode_kid appear as relations (proved in unit jws)",
            "T: SHA-256 is an uninterpreted function (fingerprints are equal iff their inputs are, up to collisions); HashMap<String, AccountEndpoint> is a map from endpoint names (get / get_mut / entry shims)",
            "T: bincode is a deterministic self-delimiting encoding (decode(encode(x)) = x; no proper beginning of an encoding decodes - the statement behind 'every truncation point'); "
            "the text forms of algorithms, key types and contact types and the DER form of a key pair read back as the value written (Display/FromStr of acme_common, OpenSSL PKCS#8); "
            "`X.iter().map(F).collect()` chains are the element-wise helpers map_vec / try_map_vec / map_strmap (T-ITER), the closure F keeping its real body under an inserted ensures clause; "
            "account_files_exists is exact about the file's existence (unit storage proves the sound direction only)",
            "X: multi-restart histories are covered as 'any stored state in step with the CA' plus the one-restart round trip, not enumerated; whether loading a valid file always succeeds (no spurious error) is not claimed",
        ],
    },
    "C13": {
        "units": ["storage", "config", "evloop"],
        "design_ref": "DESIGN.md section 5 C13",
        "technique": "Verus function contracts over ghost open/chown events",
        "text": "Deductive proof that a created file gets the mode configured for its type (0600 pinned for accounts), that key and "
                "certificate files get exactly one chown after the write with the uid/gid resolved by number or by name, account files none, "
                "and that a failed resolution is an error.",
        "assumptions": [
            "T: open(2) applies mode & ~umask at creation only; nix user/group lookup as modelled (user_db/group_db)",
            "T: `s.bytes().all(|b| b.is_ascii_digit())` and `s.parse::<u32>()` are the uninterpreted all_digits / parse_u32_spec",
            "X: observing real files",
        ],
    },
    "C14": {
        "units": ["config", "evloop", "texts", "cfgwire"],
        "design_ref": "DESIGN.md section 5 C14",
        "technique": "Verus function contracts: three-level getters against a 'most specific wins' spec function; include loop with ghost set of opened files",
        "text": "Deductive proof that renew_delay, random_early_renew, file_name_format and the storage directory resolve to the most "
                "specific value given (certificate, endpoint, global, default 30d/0/build-time format), that unresolved endpoint, rate-limit, "
                "hook and group references are errors, that each configuration file is opened at most once (include recursion terminates), "
                "lists of included files are appended and each of the 15 global options takes the later file's value; that an absolute include is taken as it is and a relative one is "
                "resolved against the directory of the including file; that the names of key types, algorithms and contact types are read whatever their case.",
        "assumptions": [
            "T: canonicalize returns a path from a finite universe of configuration files; toml/serde deserialisation; PathBuf::{pop, push, to_str}, glob and Pattern::escape as documented (pushing an absolute path replaces the path; a configuration file directly under `/` is left out)",
            "T: derive(Clone)/derive(Default) of the config structs mean structural copy / empty lists (restated as trusted specs)",
            "T: parse_duration is the uninterpreted pd_spec here (its own contract is proved in unit duration)",
            "X: global env dispatch to certificates (dispatch_global_env_vars: HashMap iteration)",
        ],
    },
    "C15": {
        "units": ["keys", "texts", "chalproof", "jws"],
        "design_ref": "DESIGN.md section 5 C15",
        "technique": "Verus function contracts: JWK member maps and signature byte layout against RFC 7518 tables pinned in spec functions",
        "text": "Deductive proof that the RSA and EC JWKs have exactly the RFC 7517/7518 members (thumbprint form: the RFC 7638 member set), "
                "with minimal-length e/n and coordinates left-padded to the curve size, that an ECDSA signature is R||S with each half "
                "left-padded to the curve size (for every length of R and S), that the key type recorded for a loaded or generated key is the "
                "type of the OpenSSL key, and that signing insists on the one algorithm that goes with the key type; that RSA signatures are PKCS#1 v1.5 over SHA-256, "
                "EdDSA signatures one-shot signatures without digest, that HashFunction::{hash, hmac, native_digest} use the digest they are named after, "
                "and that a key written as DER or PEM (private_key_to_der / _to_pem, public_key_to_pem) reads back through from_der / from_pem as the same key with the same type.",
        "assumptions": [
            "T: OpenSSL as modelled in prelude/ac_shims.rs (BN_bn2bin minimal, BN_bn2binpad fixed width, r,s below the group order, coordinates are field elements)",
            "T: json!({..}) builds an object with exactly the listed members; serde_json's map sorts keys (member order of the thumbprint input)",
            "X: the Ed25519/Ed448 `x` (cut out of a PEM string by offset); verification under an independent implementation; that OpenSSL's PKCS#8 / SPKI serialisations read back as the key written is the stated model of prelude/ac_shims.rs, the functions that call them are verified against it",
        ],
    },
    "C16": {
        "units": ["x509", "tacd", "tacdmain", "texts", "idna"],
        "design_ref": "DESIGN.md section 5 C16",
        "technique": "Verus function contracts over a ghost view of the OpenSSL certificate builder; the ALPN callback's contract is a precondition of its registration",
        "text": "Deductive proof that the certificate tacd serves is X.509 v3, self-issued and self-signed by the generated key, valid from now for "
                "7 days, with basicConstraints, exactly one subjectAltName dNSName (the given domain) and the acmeIdentifier extension taken from "
                "name=value text with exactly one '=' (anything else is an error), nothing else; and that the ALPN callback answers acme-tls/1 "
                "when and only when the client offers it, with a fatal alert otherwise; that the TLS profile accepts TLS 1.2 and TLS 1.3 clients.",
        "assumptions": [
            "T: the Mozilla profiles of the openssl crate accept the protocol versions stated in prelude/tacd_shims.rs (intermediate: from TLS 1.0, intermediate_v5 / modern: from 1.2, modern_v5: 1.3 only); OpenSSL encodes what the builder calls describe (extension text `critical,DER:..` as written); select_next_proto as documented; the TLS stack",
            "T: str::split semantics as stated in prelude/vmap.rs",
            "T: clap::ArgMatches as a map from option names to values, the input sources as a file content function and the stream of lines still to come on the standard input (a line taken by a direct read or into a BufReader's buffer is gone for every other reader) (prelude/tacdmain_shims.rs); tacd main.rs::init, get_acme_value and read_line are verified: the served certificate is for the A-label form of the requested domain, the domain being the first and the extension the next line of stdin when both are read from there (tacd.8)",
            "X: the handshake as a client sees it; "
            "the digest text inside the extension value (computed by acmed, C05)",
        ],
    },
    "C17": {
        "units": ["tacd"],
        "design_ref": "DESIGN.md section 5 C17",
        "technique": "Verus safety obligations on the per-connection closure and accept loop (macro-expanded), spawn requires the closure to be total",
        "text": "Deductive proof that the per-connection thread body and the accept loop of tacd have no failing unwrap/index/"
                "arithmetic obligation for any outcome of accept() and any sequence of incoming connections (Err streams are skipped); that the accept loop never ends on an error of one connection or one failed accept, "
                "and never waits for a connection thread that is not known to have finished.",
        "assumptions": [
            "T: SslAcceptor::accept may return Err for any reason (no assumption on the peer); threads spawn; OpenSSL does not abort internally",
            "T: listener.incoming() is modelled as an arbitrary finite sequence (every finite prefix of the endless iterator); iterator adapters on it as stated in prelude/tacd_shims.rs; a connection thread ends when its peer lets it (JoinHandle::join needs is_finished)",
            "X: resource exhaustion by stalled connections; the build profile (release, panic=abort) is read from Cargo.toml, not proved",
        ],
    },
    "C19": {
        "units": ["duration", "ratelimit", "config", "cfgwire", "schedule", "storage", "texts", "evloop"],
        "design_ref": "DESIGN.md section 5 C19",
        "technique": "Verus safety obligations (overflow, division, unwrap, termination) + value contracts on the period parser",
        "text": "Deductive proof that the period parser, the limiter constructor and its sleep computation have no failing "
                "arithmetic/division/unwrap obligation for any input, that a period part is number x unit exactly and parts are "
                "combined by checked addition, and (unit config) that hook-group expansion terminates.",
        "assumptions": [
            "T: nom combinators behave as modelled in prelude/nom.rs (take_while_m_n, map_res(digit1,..), fold_many1); str::parse::<u64> is uninterpreted",
            "T: serde/toml never panic on malformed input (library)",
            "X: totality of the whole start-up path; hangs in general",
        ],
    },
    "C03": {
        "units": ["issue", "storage", "http", "evloop", "config", "keys", "x509time", "renew"],
        "design_ref": "DESIGN.md section 5 C03",
        "technique": "Verus call-site preconditions on the two writes of an issuance (key file, certificate file) over a ghost world; errors propagate",
        "text": "Deductive proof over the whole of request_certificate (macros expanded) that a failed attempt never writes the certificate file, "
                "that the certificate file is written only with the body of the download and only as the last step, that the only key write is the "
                "one of get_key_pair, that get_key_pair with kp_reuse hands back a usable stored key and leaves the file system as it was (so an installed pair is not "
                "touched before the new certificate is in hand), and that the key handed to the CSR is the key in the key file. Two obligations of the property fail on the "
                "code as written and are recorded as known findings: the new key is written before the order is finalised, and the downloaded body "
                "is written without being parsed or matched against the key.",
        "assumptions": [
            "T: every callee of request_certificate is a contract here (http wrappers, hooks, synchronize, Csr::new, get_key_pair, write_certificate); their own contracts are proved in their units where they have one",
            "T-ASYNC: lock guards are plain accessors; interleavings with other tasks are not covered (C12)",
            "T: the outcome of opening/reading an existing file is a function of the file-system state and the path (uninterpreted read_faults in prelude/fs.rs; nothing is assumed about when a read fails); KeyPair::from_pem succeeds exactly where pem_key is defined",
            "X: with kp_reuse a stored key that cannot be read (read fault of the environment) is replaced before the order is finalised - file-system faults are outside the property's quantifier",
            "X: crash consistency; the content of a non-PEM body (second known finding)",
        ],
    },
    "C04": {
        "units": ["jws", "http", "keys", "issue", "acctproto", "texts", "account", "cfgwire", "acctpayload", "acctstore"],
        "design_ref": "DESIGN.md section 5 C04",
        "technique": "Verus function contracts: JWS structure as a spec predicate over uninterpreted base64url/serialisation/signature relations; nonce and URL binding as preconditions of the transmission",
        "text": "Deductive proof that encode_jwk/encode_kid/encode_kid_mac produce the flattened JWS of RFC 7515 with exactly the header "
                "members the property names (jwk xor kid, nonce, exact url, alg name of the given algorithm), signed over "
                "b64(protected).b64(payload); and that every POST of http.rs carries a body built from the newest stored nonce and the "
                "very URL that is requested, the stored nonce being refreshed from every response.",
        "assumptions": [
            "T: serde_json serialises the header/data structs field by field, omitting None members (ser_spec is uninterpreted); base64url and UTF-8 are uninterpreted",
            "T: KeyPair::sign returns a signature valid for (key, alg, input) (relation valid_sig; its algorithm/key compatibility and ECDSA padding are in unit keys)",
            "X: verification of signatures by an independent implementation; nonce freshness across calls against servers that omit Replay-Nonce on error responses; "
            "which key and account URL the data-builder closures of request_certificate bind is asserted at their creation (unit issue), not at the send",
        ],
    },
    "C05": {
        "units": ["chalproof", "schedule", "ident", "issue", "revdns", "keys", "texts", "hooks", "cfgwire", "evloop", "config"],
        "design_ref": "DESIGN.md section 5 C05",
        "technique": "Verus function contracts: proof strings against RFC 8555 section 8 / RFC 8737 texts pinned in the contract; entry lookup against a spec function of (identifier, wildcard flag)",
        "text": "Deductive proof that the key authorization is token.base64url(SHA-256(thumbprint input)), that http-01 / dns-01 / tls-alpn-01 "
                "proofs are the key authorization, its base64url SHA-256 and the RFC 8737 extension text `1.3.6.1.5.5.7.1.31=critical,DER:04:20:<hex>` "
                "with the raw digest, that the http-01 file name is the token, that an authorization is solved with the entry configured for the "
                "wildcard name when it is a wildcard authorization and for the plain name otherwise, that the hooks run are those of that entry's "
                "challenge type with the documented variables, and that the matching clean type is returned.",
        "assumptions": [
            "T: SHA-256, base64url, UTF-8 and the JSON text of the thumbprint JWK are uninterpreted functions; `{}` of 31 is \"31\", `{:02x}` of 4 and 32 are \"04\" and \"20\" (axiom_number_texts); SHA-256 yields 32 bytes",
            "T: Display of Challenge prints the RFC names (table in acme_proto.rs, assumed); set_env has the documented precedence (assumed here)",
            "T: std::net address parsing as `ip_octets`, decimal text of a byte, the reverse/map/join idiom (prelude/revdns_shims.rs); get_tls_alpn_name and u8_to_nibbles_string are verified (RFC 8738 section 6 / RFC 3596 section 2.5 names)",
        ],
    },
    "C06": {
        "units": ["schedule", "x509time", "renew", "storage", "config", "evloop", "duration", "ident"],
        "design_ref": "DESIGN.md section 5 C06",
        "technique": "Verus function contracts: saturating-time arithmetic against spec functions; request shim requires the scheduled wait",
        "text": "Deductive proof that schedule_renewal answers 'now' when a file is missing or an identifier is not covered, and otherwise "
                "max(0, notAfter - renew_delay) minus a jitter below random_early_renew (never later, never negative, no overflow for any "
                "OpenSSL time difference), and that the request is issued right after sleeping exactly that time; that the certificate examined is the "
                "one parsed from the stored file (X509Certificate::from_pem keeps the OpenSSL object it parsed) and that subject_alt_names returns every "
                "dNSName and iPAddress entry of it as text and nothing else; that the values entering the schedule are the configured ones "
                "(renew_delay / random_early_renew resolved certificate, endpoint, global, default 30d / 1d).",
        "assumptions": [
            "T: ASN1_TIME_diff returns days*86400+secs = notAfter-now with |secs| < 86400; SAN extraction by OpenSSL (cert_san); rand::gen_range stays in its range",
            "T: HashSet<String> operations as stated in prelude/titer3.rs",
            "T: the canonical text of an IP address (IpAddr Display) and OpenSSL's GeneralName accessors; X509Certificate::subject_alt_names is verified: its result is every dNSName and every iPAddress entry as text, and nothing else (cert_san of unit schedule stands for that set)", "X: black-box timing",
        ],
    },
    "C07": {
        "units": ["renew", "schedule", "issue", "http", "hooks", "storage", "evloop", "config", "ratelimit"],
        "design_ref": "DESIGN.md section 5 C07",
        "technique": "Verus function contracts over ghost counters (requests, post-operation runs, time slept since the last request)",
        "text": "Deductive proof that one task step performs exactly one request and exactly one post-operation hook run, reports success iff "
                "the request succeeded (with the prefixed error text otherwise), swallows a post-operation hook error, sleeps at least a second "
                "after a failure before handing the task back, and that the scheduling-retry loop stays in bounds and terminates; "
                "that every request is given up after a bounded number of transmissions and every poll after a bounded number of requests, and that the time the HTTP layer "
                "spends waiting between them is bounded by the retry / poll constants whatever the server answers; "
                "that request_certificate never takes a lock it already holds and takes the account lock before the endpoint lock (ghost set of held locks, "
                "released where Rust drops each guard), so that no certificate's task can block itself or another for ever on those locks, "
                "and that the newOrder loop runs at most twice (a second time only after re-registering a dropped account).",
        "assumptions": [
            "T: tokio::sync::RwLock read()/write() block exactly while a conflicting guard is alive, and Rust drops guards as the reference says (temporaries at the end of the enclosing statement, a match scrutinee's temporaries at the end of the match, locals at the end of their block, `drop(g)`); rule T-DROP places the releases accordingly and gives up (undecided) on shapes it does not know",
            "A-CLOCK: the process does not outlive a 64-bit nanosecond clock (bounds the retry counter; used for termination of the retry loop)",
            "T: request_certificate / schedule_renewal / call_post_operation_hooks are seen through recording stubs here; their own contracts are proved in their units",
            "X: liveness under faults inside reqwest/tokio/OpenSSL; hooks have no timeout, the rate limiter's own waits and the time a single HTTP exchange takes are not bounded here ('bounded time' is claimed for the deliberate waits of the HTTP layer only); non-interference between certificates (concurrency, C12)",
        ],
    },
    "C08": {
        "units": ["http", "issue"],
        "design_ref": "DESIGN.md section 5 C08",
        "technique": "Verus function contracts: loop invariant over a ghost transmission counter, error-type table as spec function",
        "text": "Deductive proof (Verus/Z3) over the extracted retry loop, status/error classification and polling macro: "
                "at most 10 transmissions per request, a further round only after a recoverable problem document, "
                "Ok only for 2xx, at most 20 polls; for every server answer sequence.",
        "assumptions": [
            "T: reqwest's status/header/body accessors behave as modelled in prelude/reqwest.rs; serde_json parsing is an uninterpreted function json_spec",
            "T: str values are determined by their characters (axiom_str_ext)",
            "X: redirects (followed inside the HTTP library; out of scope in the property too)",
        ],
    },
    "C18": {
        "units": ["http", "config", "evloop", "acmedmain"],
        "design_ref": "DESIGN.md section 5 C18",
        "technique": "Verus call-site preconditions on the transmission shim (client built from exactly the configured roots, no insecure switch)",
        "text": "Deductive proof that every request of http.rs is sent through a client whose added roots are exactly the "
                "contents of the endpoint's root certificate files, in order, with certificate/hostname verification never disabled, "
                "and that an unreadable or malformed root file aborts before anything is sent.",
        "assumptions": [
            "T: reqwest/native-tls validate the chain and host name against system roots plus the added roots (the validation itself is not modelled)",
            "T: the ClientBuilder/Client/RequestBuilder ghost views in prelude/reqwest.rs (roots, insecure) reflect the library",
            "T: clap as modelled in prelude/acmedmain_shims.rs (get_many yields every occurrence of an option only for an argument declared with ArgAction::Append); main.rs::inner_main is verified: MainEventLoop::new gets every --root-cert of the command line, in order; from there on every endpoint object is built with that list (unit evloop)",
        ],
    },
    "C09": {
        "units": ["ratelimit", "http", "evloop", "renew", "config", "duration", "issue"],
        "design_ref": "DESIGN.md section 5 C09",
        "technique": "Verus function contracts + data-structure invariant with ghost admission history",
        "text": "Deductive proof (Verus/Z3) over the extracted limiter code that the admission history stays "
                "n-spaced for every configured limit, for all inputs and unboundedly many iterations; that every transmission needs a limiter pass; "
                "and that every renewal task MainEventLoop::run launches holds the event loop's own endpoint object (a clone of its Arc handle, never a copy of the endpoint), "
                "which renew_certificate hands back unchanged - so all certificates of an endpoint go through one limiter.",
        "assumptions": [
            "T: Instant::now is monotone (ghost clock); tokio::time::sleep returns after at least the duration",
            "T: std semantics of iter().filter().count(), Vec::retain, sort_by, reverse as stated in the T-ITER helpers",
            "T: Arc handles carry the identity of the object they point to (clone: the same object; Arc::new: a new one); FuturesUnordered is a bag of task results (T-ASYNC runs each task to completion)",
            "X: send latency after admission; termination of the wait loop (liveness); interleavings of the tasks (C12)",
        ],
    },
}

NOT_APPLICABLE = {
    "C12": "quantifies over schedules of concurrent tasks; Verus (as usable here) reasons about one task and Kani has no concurrency support",
    "C20": "behaviour of the shipped TOML hook definitions and of external programs (mkdir, echo, tacd, pkill, git); no Rust function carries it, so no function contract can state it",
}
for _p in ["C01","C02","C03","C04","C05","C06","C07","C08","C10","C11","C13","C14","C15","C16","C17","C18","C19"]:
    if _p not in PROPS:
        NOT_APPLICABLE[_p] = "not yet claimed: its units are still being built (see DESIGN.md section 3); will be claimed when its check exists"


# clauses added after the first version of a property's text (mutant batches m, n): appended to the text above
EXTRA_TEXT = {
    "C09": "Also: request_certificate never takes a lock it already holds and takes the account lock before the endpoint lock, so that no task withholds its own or another certificate's requests for ever by waiting for a guard it keeps alive (unit issue, rules T-LOCK / T-DROP).",
    "C10": "Also: one task step runs the post-operation hooks exactly once, after a failed request too, with the status of that request (unit renew).",
    "C16": "Also: to_idna refuses a name only when one of its labels has no A-label form; a time limit set on a client's stream is a second at least and the handshake runs on a blocking stream.",
    "C01": "Also: an identifier entry of the configuration is taken only with exactly one of `dns` and `ip` (the hand-written Deserialize impl is verified), and to_idna refuses a name only when a label has no A-label form.",
    "C13": "Also: a group name is looked up in the group database (not among the users), and the owner is changed on the file the path names (chown, or fchownat without AT_SYMLINK_NOFOLLOW).",
    "C19": "Also: the limiter counts exactly the logged requests inside the window (a first request is never refused), and the period grammar wants one part at least (fold_many1).",
    "C17": "Also: a time limit set on a client's stream is a second at least, the handshake runs on a blocking stream, and no `unreachable!()` / failing index sits on a path a client can drive (panic obligations of every function of the unit).",
}
for _p, _t in EXTRA_TEXT.items():
    PROPS[_p]["text"] = PROPS[_p]["text"].rstrip() + " " + _t
PROPS["C07"]["assumptions"].append("X: the life time of a child's stdin pipe (a handle moved out of the Child and kept open past the wait leaves a hook that reads to end-of-file running for ever: mutant C07_n/m4 passes; deciding it needs the handle tracked like a lock guard)")
PROPS["C10"]["assumptions"].append("T: `tokio::time::timeout(D, FUT).await`, where it occurs in a verified text, is `if fires(D) { Err(elapsed) } else { Ok(FUT) }` (rule T-ASYNC): the future is dropped before it starts or runs to its end; a future cut half-way is not modelled")
