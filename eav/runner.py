"""Build a unit, run Verus on it, map diagnostics to named obligations."""
import importlib
import json
import os
import re
import subprocess
import sys
import time

HERE = os.path.dirname(os.path.abspath(__file__))
VERIF = os.path.dirname(HERE)
sys.path.insert(0, HERE)
sys.path.insert(0, os.path.join(VERIF, "units"))

from rustlex import Undecided  # noqa: E402

BUILD = os.environ.get("VERIF_BUILD_DIR") or os.path.join(VERIF, "build")
LABEL_RE = re.compile(r"//@\s*([A-Za-z0-9_.,\-]+)")

SEMANTIC = [
    ("postcondition not satisfied", "post"),
    ("unable to prove post-condition of closure", "post"),
    ("precondition not satisfied", "pre"),
    ("invariant not satisfied", "inv"),
    ("assertion failed", "assert"),
    ("requires not satisfied", "assert"),
    ("possible arithmetic underflow/overflow", "overflow"),
    ("possible division by zero", "divzero"),
    ("decreases not satisfied", "decreases"),
    ("could not prove termination", "decreases"),
    ("must have a decreases clause", "nodecreases"),
    ("recursive function must have a decreases", "nodecreases"),
    ("possible out of bounds", "bounds"),
    ("index in bounds", "bounds"),
    ("index out of bounds", "bounds"),
    ("unreachable", "unreachable"),
    ("possible bit shift", "overflow"),
]


def load_unit(name):
    mod = importlib.import_module(name)
    importlib.reload(mod)
    return mod.build()


class UnitRun:
    def __init__(self, name):
        self.name = name
        self.errors = []       # mapped semantic failures
        self.tool_errors = []  # anything else (type errors, ...): undecided
        self.rlimit_errors = []  # a function whose query exceeded the solver budget: that function is undecided
        self.functions = []
        self.text = ""
        self.regions = []
        self.verus_json = {}
        self.cmd = ""
        self.wall = 0.0


def region_at(regions, off):
    lo, hi = 0, len(regions) - 1
    while lo <= hi:
        mid = (lo + hi) // 2
        r = regions[mid]
        if off < r["start"]:
            hi = mid - 1
        elif off >= r["end"]:
            lo = mid + 1
        else:
            return r
    return None


def fn_at(text_bytes, fn_index, off):
    best = None
    for (s, e, name) in fn_index:
        if s <= off < e and (best is None or s >= best[0]):
            best = (s, e, name)
    if best is None:
        # a diagnostic on a function's own header (`pub fn name(..)`) starts before the `fn` keyword: same line
        le = text_bytes.find(b"\n", off)
        for (s, e, name) in fn_index:
            if off <= s < (le if le >= 0 else len(text_bytes)):
                return name
    return best[2] if best else "?"


def label_at(text, boff_start, boff_end=None):
    """label on the line(s) covered by the span (a clause may span several lines; the marker ends it)"""
    b = text.encode("utf-8")
    ls = b.rfind(b"\n", 0, boff_start) + 1
    le = b.find(b"\n", max(boff_start, (boff_end or boff_start) - 1))
    seg = b[ls:le if le >= 0 else len(b)].decode("utf-8", "replace")
    m = LABEL_RE.search(seg)
    if m:
        return m.group(1)
    return None


def index_fns(text):
    """(byte_start, byte_end, qualified name) of every fn in the generated file (cheap lexical index)."""
    from rustlex import lex, match_close
    toks = lex(text)
    # char offset -> byte offset
    if len(text) == len(text.encode("utf-8")):
        cb = lambda c: c
    else:
        pref = [0]
        for ch in text:
            pref.append(pref[-1] + len(ch.encode("utf-8")))
        cb = lambda c: pref[c]
    res = []
    ITEM_START = {"fn", "pub", "#", "impl", "}", "const", "proof", "spec", "open", "closed", "broadcast", "struct", "enum",
                  "use", "mod", "type", "exec", "unsafe", "async", "extern", "trait", "static", "uninterp", "macro_rules", "tracked", "ghost"}
    n = len(toks)
    for k, t in enumerate(toks):
        if t.kind == "ident" and t.text == "fn" and k + 1 < n and toks[k + 1].kind == "ident":
            name = toks[k + 1].text
            j = k + 2
            # skip generics and parameter list
            while j < n and toks[j].text != "(":
                j += 1
            if j >= n:
                continue
            j = match_close(toks, j) + 1
            body = None
            while j < n:
                tj = toks[j]
                if tj.text == ";" :
                    break
                if tj.text in ("(", "["):
                    j = match_close(toks, j) + 1
                    continue
                if tj.text == "{":
                    c = match_close(toks, j)
                    nxt = toks[c + 1].text if c + 1 < n else "}"
                    if nxt in ITEM_START:
                        body = (j, c)
                        break
                    j = c + 1
                    continue
                j += 1
            if body:
                res.append((cb(t.start), cb(toks[body[1]].end), name))
    return res


def run_unit(name, extra_args=(), variant=None, mutate_text=None, rlimit=None, seed=None, quiet=True):
    """variant: None | 'vacuity'"""
    ur = UnitRun(name)
    t0 = time.time()
    unit = load_unit(name)
    text, regions = unit.build()
    ur.unit = unit
    if mutate_text:
        text = mutate_text(text)
    ur.text, ur.regions = text, regions
    os.makedirs(BUILD, exist_ok=True)
    suffix = "" if not variant else "_" + variant
    # one generated file per (check, unit, variant): checks of different properties may run side by side
    tag = os.environ.get("VERIF_BUILD_TAG", "")
    path = os.path.join(BUILD, f"{tag + '__' if tag else ''}{name}{suffix}.rs")
    with open(path, "w", encoding="utf-8") as f:
        f.write(text)
    cmd = ["verus", path, "--output-json", "--time-expanded", "--multiple-errors", "30"]
    if rlimit:
        cmd += ["--rlimit", str(rlimit)]
    if seed is not None:
        cmd += ["--smt-option", f"smt.random_seed={seed}"]
    cmd += list(extra_args) + ["--", "--error-format=json"]
    ur.cmd = " ".join(cmd)
    env = dict(os.environ)
    p = subprocess.run(cmd, capture_output=True, text=True, cwd=BUILD, env=env)
    ur.wall = time.time() - t0
    try:
        ur.verus_json = json.loads(p.stdout) if p.stdout.strip() else {}
    except Exception:
        ur.verus_json = {}
    fn_index = index_fns(text)
    tb = text.encode("utf-8")
    for line in p.stderr.splitlines():
        if not line.startswith("{"):
            if line.strip() and not quiet:
                print("verus:", line)
            continue
        try:
            d = json.loads(line)
        except Exception:
            continue
        if d.get("level") != "error":
            continue
        msg = d.get("message", "")
        if msg.startswith("aborting due to"):
            continue
        kind = None
        for pat, k in SEMANTIC:
            if pat in msg:
                kind = k
                break
        spans = d.get("spans", [])
        # a span inside a macro of another file (`unreachable!()`, `assert!` ..): the place that counts is where the unit's text uses it
        def call_site(sp):
            seen_ = 0
            while os.path.basename(sp.get("file_name") or "") != os.path.basename(path) and sp.get("expansion") and seen_ < 20:
                nxt = dict(sp["expansion"]["span"])
                nxt["is_primary"], nxt["label"] = sp.get("is_primary"), sp.get("label")
                sp, seen_ = nxt, seen_ + 1
            return sp
        spans = [call_site(sp) for sp in spans]
        prim = [s for s in spans if s.get("is_primary")]
        sec = [s for s in spans if not s.get("is_primary")]
        rendered = d.get("rendered", msg)
        if "Resource limit (rlimit) exceeded" in msg:
            # one function's query ran out of solver budget: that function is not decided, the others are
            ur.rlimit_errors.append({"message": msg, "rendered": rendered,
                                     "fn": fn_at(tb, fn_index, prim[0]["byte_start"]) if prim else "?"})
            continue
        if kind is None or not prim:
            ur.tool_errors.append({"message": msg, "rendered": rendered})
            continue
        if kind == "pre" and any("std_specs/ops.rs" in (sp.get("file_name") or "") for sp in spans) or (kind == "pre" and "std_specs/ops.rs" in rendered):
            # `a + b`, `a / n` ... on a type for which vstd has no arithmetic model: the operator's own precondition is
            # uninterpreted, so nothing can be decided about it (neither a panic nor its absence)
            ur.tool_errors.append({"message": "operator on a type without an arithmetic model (uninterpreted precondition of vstd::std_specs::ops): "
                                   + ((prim[0].get("text") or [{}])[0].get("text", "").strip()), "rendered": rendered})
            continue
        ps = prim[0]
        fn = fn_at(tb, fn_index, ps["byte_start"])
        reg = region_at(regions, ps["byte_start"])
        label = None
        # label: secondary span (failed pre/postcondition clause), else the primary span's own line
        def rank(sp):
            lab = (sp.get("label") or "")
            if "failed" in lab:
                return 0
            if "at this exit" in lab or "at the end of the function body" in lab or "at this call" in lab:
                return 3
            return 1 if sp.get("is_primary") else 2
        for s in sorted(spans, key=rank):
            if rank(s) == 3:
                continue
            label = label_at(text, s["byte_start"], s["byte_end"])
            if label:
                break
        piece = reg.get("piece") if reg else None
        ur.errors.append({
            "kind": kind, "message": msg, "fn": fn, "label": label,
            "line": ps["line_start"], "src": (ps.get("text") or [{}])[0].get("text", "").strip(),
            "region": reg["kind"] if reg else "?",
            "piece": f"{piece.relpath}::{piece.spec}" if piece else None,
            "props": list(piece.props) if piece else [],
            "rendered": rendered,
        })
    # per-function results
    try:
        for m in ur.verus_json["times-ms"]["smt"]["smt-run-module-times"]:
            for fb in m.get("function-breakdown", []):
                ur.functions.append({"function": fb["function"], "mode": fb.get("mode:"),
                                     "time_us": fb["time-micros"], "rlimit": fb["rlimit"],
                                     "success": fb["success"]})
    except Exception:
        pass
    ur.returncode = p.returncode
    if p.returncode != 0 and not ur.errors and not ur.tool_errors:
        ur.tool_errors.append({"message": "verus failed without diagnostics", "rendered": p.stderr[-2000:]})
    return ur


def obligation_id(e):
    if e["label"]:
        return f"{e['label']}@{e['fn']}"
    return f"safe.{e['kind']}@{e['fn']}"


if __name__ == "__main__":
    name = sys.argv[1]
    try:
        ur = run_unit(name, quiet=False)
    except Undecided as ex:
        print("UNDECIDED:", ex)
        sys.exit(2)
    for e in ur.tool_errors:
        print("TOOL:", e["rendered"])
    for e in ur.errors:
        print("FAIL:", obligation_id(e), "|", e["message"], "| line", e["line"], "|", e["src"])
        if "-v" in sys.argv:
            print(e["rendered"])
    vr = ur.verus_json.get("verification-results", {})
    print("verus:", vr, f"wall={ur.wall:.1f}s")
