"""T-LOCK / T-DROP: the lock discipline of a function, as ghost state.

Rust releases a lock guard when the guard is dropped, and a drop is not written in the source: it happens at the end of the
statement for a temporary, at the end of the block (or at `drop(g)`) for a `let`-bound guard, and when the value it was moved
into is dropped for a guard captured by a `move` closure.  Verus does not model drops.  This pass makes them explicit, by
insertions only:

  * every acquisition `R.read().await` / `R.write().await` gets the ghost argument `Tracked(&mut lk__)`; the contract of
    `read` / `write` (prelude) requires that the task holds no guard of this lock or of a lock that ranks after it, and
    records the new guard in `lk__.held`;
  * `proof { lk__.release(lid(R)); }` is inserted where Rust drops the guard (rules below);
  * every loop gets `let ghost lkh_N__ = lk__.held;` in front of it and the invariant `lk__.held == lkh_N__`.

The rules are the ones of the Rust reference (destructors, temporary scopes), for the shapes listed here; any other shape makes
the function undecided - never a violation:

  temp    the acquisition is a temporary of statement T of a block: released after T.  (T includes the arms of a `match` /
          `if let` when the acquisition is in the scrutinee: that temporary lives through the arms.)  A temporary in the tail
          expression of a plain block belongs to the statement the block is part of.
  named   `let g = R.read().await;`: released after each `drop(g);` in scope and before the closing brace of its block.
  moved   a named guard mentioned in a `move` closure that is the value of its block: the guard lives in that value; the
          block must be the initialiser of `let h = ..;`, and h is then treated as a named guard.
  jumps   before `break` / `continue`: everything acquired inside the loop body and still alive there is released.
A release of a guard that is not held is a no-op (`drop(g)` on one path, the end of the block on all).
"""
from rustlex import Undecided, match_close

LK = "lk__"


def _open_of(toks, kb, k1):
    parent, stack = {}, []
    for k in range(kb, k1 + 1):
        t = toks[k]
        if t.kind == "punct" and t.text in ")]}":
            stack.pop()
        parent[k] = stack[-1] if stack else None
        if t.kind == "punct" and t.text in "([{":
            stack.append(k)
    return parent


def plan(text, toks, kb, k1, lps, fname):
    """returns (inserts: [(pos, text)], loop_extra: {ordinal: clause}, nsites) for the body toks[kb..k1] ({ .. })"""
    parent = _open_of(toks, kb, k1)
    close = {}
    for k in range(kb, k1 + 1):
        if toks[k].kind == "punct" and toks[k].text in "([{":
            close[k] = match_close(toks, k)
    loop_open = {ko: n + 1 for n, (kw, ko) in enumerate(lps)}
    loop_kw = {ko: kw for (kw, ko) in lps}

    def und(msg):
        raise Undecided(f"{fname}: lock discipline: {msg}")

    def adj(a, b):
        return toks[a].end == toks[b].start

    # ---- classification of braces
    kinds = {}

    def head_start(o):
        """index of the first token of the head of brace o (tokens between the previous boundary and o)"""
        j = o - 1
        while j > parent[o]:
            t = toks[j]
            if t.kind == "punct" and t.text in ")]}":
                # skip back over a balanced group
                depth = 0
                while True:
                    tt = toks[j]
                    if tt.kind == "punct" and tt.text in ")]}":
                        depth += 1
                    elif tt.kind == "punct" and tt.text in "([{":
                        depth -= 1
                        if depth == 0:
                            break
                    j -= 1
                if toks[j].text == "{":
                    # a block before us: boundary unless we are chained to it by `else`
                    return j_after(j)
                j -= 1
                continue
            if t.kind == "punct" and t.text in (";", ","):
                return j + 1
            if t.kind == "punct" and t.text == ">" and toks[j - 1].text == "=" and adj(j - 1, j):
                return j + 1
            j -= 1
        return j + 1

    def j_after(j_open):
        return close[j_open] + 1

    def kind_of(o):
        if o in kinds:
            return kinds[o]
        if o == kb:
            r = "fn"
        elif o in loop_open:
            r = "loop"
        else:
            p = toks[o - 1]
            if p.text in ("async", "move", "unsafe"):
                r = "plain"
            elif p.text == "else":
                r = "if"
            elif p.kind == "punct" and p.text in (";", "{", "}", "(", ",", "[", "="):
                r = "plain"
                if p.text == "}":
                    # `if c { } { }` does not exist; a `}` before us ends a previous statement
                    r = "plain"
            elif p.text == ">" and toks[o - 2].text == "=" and adj(o - 2, o - 1):
                r = "arm"
            elif p.text == "|":
                r = "closure"
            else:
                hs = head_start(o)
                head = [toks[j].text for j in range(hs, o) if parent[j] == parent[o]]
                kw = next((h for h in head if h in ("if", "match", "for", "while", "loop")), None)
                if "|" in head and (kw is None or head.index("|") < head.index(kw)):
                    r = "closure"
                elif kw == "match":
                    r = "match"
                elif kw == "if":
                    r = "if"
                elif kw in ("for", "while", "loop"):
                    r = "loop"
                elif p.kind == "ident" or p.text == ">":
                    r = "struct"
                else:
                    und(f"cannot classify the brace after `{p.text}`")
        kinds[o] = r
        return r

    # ---- statements of a block
    stmts_cache = {}
    BLOCKLIKE = ("if", "match", "for", "while", "loop", "unsafe", "{")

    def stmts(o):
        """[(ks, ke, terminated, blocklike_tail)] for block o; the last entry has terminated False when it is the tail expression"""
        if o in stmts_cache:
            return stmts_cache[o]
        c = close[o]
        res, k = [], o + 1
        while k < c:
            ks = k
            first = toks[ks].text
            blocklike = first in BLOCKLIKE
            ended = None
            while k < c:
                t = toks[k]
                if t.kind == "punct" and t.text in "([":
                    k = close[k] + 1
                    continue
                if t.kind == "punct" and t.text == "{":
                    kc = close[k]
                    if blocklike and kind_of(k) in ("plain", "if", "loop", "match"):
                        nxt = toks[kc + 1].text if kc + 1 < c else None
                        if nxt == "else":
                            k = kc + 1
                            continue
                        if nxt in (".", "?"):
                            und("a block-like statement followed by `.` or `?`")
                        if nxt == ";":
                            ended = kc + 1
                        else:
                            ended = kc
                        break
                    k = kc + 1
                    continue
                if t.kind == "punct" and t.text == ";":
                    ended = k
                    break
                k += 1
            if ended is None:
                res.append((ks, c - 1, False, False))
                k = c
            elif ended == c - 1 and toks[ended].text == "}":
                # a block-like expression that ends the block: the block's tail expression (its value, `()` or not)
                res.append((ks, ended, False, True))
                k = c
            else:
                res.append((ks, ended, True, False))
                k = ended + 1
        stmts_cache[o] = res
        return res

    def stmt_of(o, k):
        for n, (ks, ke, term, bt) in enumerate(stmts(o)):
            if ks <= k <= ke:
                if bt and kind_of(o) in ("loop", "if", "arm"):
                    # the body of a loop / branch is a temporary scope: what its final block-like expression leaves is dropped right after it
                    return n, ks, ke, True
                return n, ks, ke, term
        und("statement not found")

    def in_closure(k):
        o = parent[k]
        while o is not None:
            if toks[o].text == "{" and kind_of(o) == "closure":
                return True
            o = parent[o]
        return False

    # ---- acquisition sites
    sites = []
    for k in range(kb + 1, k1 - 5):
        if toks[k].text == "." and toks[k + 1].text in ("read", "write") and toks[k + 2].text == "(" and toks[k + 3].text == ")":
            if not (toks[k + 4].text == "." and toks[k + 5].text == "await"):
                continue    # not an async lock acquisition (io::Read::read has arguments; a std lock has no .await)
            r = toks[k - 1]
            if r.kind != "ident" or toks[k - 2].text in (".", ":"):
                und("a lock is named by something else than a plain variable")
            sites.append(k)
    if any(toks[k].text in ("try_read", "try_write", "upgradable_read", "read_arc", "write_arc", "read_blocking", "write_blocking")
           and toks[k - 1].text == "." for k in range(kb + 1, k1)):
        und("a lock operation outside read() / write()")

    inserts = []
    named = []   # dict(lock=R, block=o, after=k (end of the let), name=G or None)
    temps = []   # dict(lock=R, ks, ke, site)

    def rel(r):
        return f"{LK}.release(crate::shims::lid({r}));"

    def governing(k):
        """climb from token k to the statement that owns a temporary created there: (block, n, ks, ke, terminated)"""
        cur = k
        while True:
            o = parent[cur]
            if o is None:
                und("no enclosing block")
            tx = toks[o].text
            if tx in "([":
                cur = o
                continue
            kd = kind_of(o)
            if kd == "struct":
                cur = o
                continue
            if kd == "match":
                und("a lock is taken in the expression of a match arm (its temporaries end with the arm)")
            if kd == "closure":
                und("a lock is taken inside a closure")
            n, ks, ke, term = stmt_of(o, cur)
            if term:
                return o, n, ks, ke, True
            if kd == "fn":
                return o, n, ks, ke, False
            if kd == "plain":
                cur = o
                continue
            und("a lock temporary in the tail expression of a branch or loop body")

    def check_conditions(ks, s):
        """no `if C {` / `while C {` condition and no lazy boolean operand between the statement start and the site"""
        anc = set()
        o = parent[s]
        while o is not None:
            anc.add(o)
            o = parent[o]
        for j in range(ks, s):
            t = toks[j]
            if t.kind == "ident" and t.text in ("if", "while") and toks[j + 1].text != "let":
                b = j + 1
                while not (toks[b].text == "{" and parent[b] == parent[j]):
                    if toks[b].kind == "punct" and toks[b].text in "([":
                        b = close[b]
                    b += 1
                if s < b:
                    und("a lock is taken in the condition of an `if` / `while` (its temporaries end with the condition)")
            if t.kind == "punct" and t.text in "&|" and toks[j + 1].text == t.text and adj(j, j + 1) and (parent[j] in anc or parent[j] == parent[ks]):
                und("a lock is taken in an operand of `&&` / `||`")

    for s in sites:
        if in_closure(s):
            und("a lock is taken inside a closure")
        r = toks[s - 1].text
        inserts.append((toks[s + 3].start, f"Tracked(&mut {LK})"))
        o, n, ks, ke, term = governing(s)
        check_conditions(ks, s)
        # an async block must be awaited where it stands (its body runs there)
        p = parent[s]
        while p is not None:
            if toks[p].text == "{" and (toks[p - 1].text == "async" or (toks[p - 1].text == "move" and toks[p - 2].text == "async")):
                cp = close[p]
                if not (toks[cp + 1].text == "." and toks[cp + 2].text == "await"):
                    und("an async block that takes a lock is not awaited where it is written")
            p = parent[p]
        # is the guard a temporary (used through a reference: `G.field`, `G.method()`, `*G`), or a value that is bound / passed on?
        a, bf = s + 6, s - 2
        is_temp = toks[a].text == "." or toks[bf].text == "*" or (toks[a].text == ")" and toks[bf].text == "(" and toks[bf - 1].text == "*")
        eq = next((q for q in range(ks, ke) if toks[q].text == "=" and parent[q] == parent[ks]), None) if toks[ks].text == "let" and term else None
        if not is_temp:
            if eq is not None and eq + 1 == s - 1 and a == ke:
                j = ks + 1
                if toks[j].text == "mut":
                    j += 1
                if not (toks[j].kind == "ident" and j + 1 == eq):
                    und("a guard is bound by a pattern that is not a plain name")
                named.append(dict(lock=r, block=o, after=ke, name=toks[j].text))
                continue
            und("a guard is passed on by value")
        if eq is not None and toks[eq + 1].text == "&":
            # `let x = &G.field;` / `let x = &mut *G;`: the temporary's life is extended to the end of the block, unless a method
            # call stands between the guard and the borrow (then only that call's result is extended)
            q, only_places = a, True
            while q < ke:
                if toks[q].text == ")":
                    q += 1
                elif toks[q].text == "." and toks[q + 1].kind in ("ident", "lit") and toks[q + 2].text not in ("(", ":"):
                    q += 2
                else:
                    only_places = False
                    break
            if only_places:
                named.append(dict(lock=r, block=o, after=ke, name=None))
                continue
        if term:
            temps.append(dict(lock=r, ks=ks, ke=ke, site=s))
            inserts.append((toks[ke].end, f" proof {{ {rel(r)} }}"))
        else:
            temps.append(dict(lock=r, ks=ks, ke=ke, site=s))   # tail of the function body: dropped when the function returns

    # ---- named guards: moves into the value of the block, explicit drops, end of block
    k_ = 0
    while k_ < len(named):
        g = named[k_]
        k_ += 1
        o, name = g["block"], g["name"]
        c = close[o]
        st = stmts(o)
        tail = st[-1] if st and not st[-1][2] else None
        moved = False
        def value_block_of_let(ob):
            # block ob is the whole initialiser of `let P = { .. };` / `let P = { .. }?;`: its locals are dropped when its value has
            # been computed, and nothing else happens before the statement ends - returns the index of that statement's `;`
            if kind_of(ob) != "plain" or toks[ob - 1].text != "=":
                return None
            po = parent[ob]
            if po is None or toks[po].text != "{" or kind_of(po) not in ("plain", "fn", "loop", "if", "arm"):
                return None
            n_, ks_, ke_, term_ = stmt_of(po, ob)
            if not (term_ and toks[ks_].text == "let" and toks[ke_].text == ";"):
                return None
            eq_ = next((q for q in range(ks_, ke_) if toks[q].text == "=" and parent[q] == parent[ks_]), None)
            if eq_ != ob - 1:
                return None
            cb = close[ob]
            if cb + 1 == ke_ or (toks[cb + 1].text == "?" and cb + 2 == ke_):
                return ke_
            return None

        def value_holds(ob, nm):
            # is the value of block ob a `move` closure that mentions nm (or nm itself)?
            sb = stmts(ob)
            tl = sb[-1] if sb and not sb[-1][2] else None
            if tl is None:
                return False
            if tl[0] == tl[1]:
                return toks[tl[0]].text == nm
            if toks[tl[0]].text == "move" and toks[tl[0] + 1].text == "|":
                return any(toks[j].kind == "ident" and toks[j].text == nm for j in range(tl[0], tl[1] + 1))
            if toks[tl[0]].text == "{" and close[tl[0]] == tl[1] and kind_of(tl[0]) == "plain":
                return value_holds(tl[0], nm)
            return False
        if tail is not None and name is not None and tail[0] > g["after"]:
            tt = [toks[j] for j in range(tail[0], tail[1] + 1)]
            mentions = any(t.kind == "ident" and t.text == name for t in tt)
            if value_holds(o, name):
                moved = True
            elif kind_of(o) != "fn" and not (tail[3] and kind_of(o) == "loop"):
                ea = value_block_of_let(o)
                if ea is None:
                    und(f"the block of guard `{name}` ends in a tail expression (the guard is dropped after it is evaluated)")
                g["end_after"] = ea
        elif tail is not None and kind_of(o) != "fn" and not (tail[3] and kind_of(o) == "loop"):
            ea = value_block_of_let(o)
            if ea is None:
                und("the block of a guard ends in a tail expression (the guard is dropped after it is evaluated)")
            g["end_after"] = ea
        if moved:
            cur = o
            while True:
                po = parent[cur]
                if po is None:
                    und(f"guard `{name}` leaves the function")
                if toks[po].text == "{" and kind_of(po) == "plain":
                    sp = stmts(po)
                    lo = cur - 1 if toks[cur - 1].text in ("async", "move") else cur
                    if toks[lo - 1].text == "async":
                        lo -= 1
                    hi = close[cur]
                    if toks[hi + 1].text == "." and toks[hi + 2].text == "await":
                        hi += 2
                    if len(sp) == 1 and not sp[0][2] and sp[0][0] == lo and sp[0][1] == hi and False:
                        cur = po
                        continue
                break
            po = parent[cur]
            if po is None or toks[po].text != "{" or kind_of(po) not in ("plain", "fn", "loop", "if", "arm"):
                und(f"guard `{name}` is moved into a value that is not bound by a `let`")
            n, ks, ke, term = stmt_of(po, cur)
            lo = cur - 1 if toks[cur - 1].text in ("async", "move") else cur
            if toks[lo - 1].text == "async":
                lo -= 1
            hi = close[cur]
            if toks[hi + 1].text == "." and toks[hi + 2].text == "await":
                hi += 2
            j = ks + 1
            if toks[ks].text == "let" and toks[j].text == "mut":
                j += 1
            if not (term and toks[ks].text == "let" and toks[j].kind == "ident" and toks[j + 1].text == "=" and j + 2 == lo and hi + 1 == ke):
                und(f"guard `{name}` is moved into a value that is not bound by a plain `let`")
            named.append(dict(lock=g["lock"], block=po, after=ke, name=toks[j].text))
            continue
        # explicit drops in scope
        if name is not None:
            j = g["after"] + 1
            while j < c:
                t = toks[j]
                if t.text == "let" and parent[j] == o:
                    q = j + 1
                    if toks[q].text == "mut":
                        q += 1
                    if toks[q].text == name:
                        break    # shadowed: a later drop(name) is about the new binding; this guard lives to the end of the block
                elif t.text == "let" and toks[j + 1 if toks[j + 1].text != "mut" else j + 2].text == name:
                    # shadowed in a nested block: up to the end of that block, `name` is the inner binding
                    j = close[parent[j]]
                    continue
                if t.text == "drop" and toks[j + 1].text == "(" and toks[j + 2].text == name and toks[j + 3].text == ")" and toks[j - 1].text != ".":
                    if toks[j + 4].text != ";":
                        und(f"drop({name}) is not a statement")
                    if in_closure(j):
                        und(f"drop({name}) inside a closure")
                    inserts.append((toks[j + 4].end, f" proof {{ {rel(g['lock'])} }}"))
                    if parent[j] == o:
                        g.setdefault("dead_from", j)   # dropped on every path that goes on in this block
                j += 1
        if g.get("end_after") is not None:
            inserts.append((toks[g["end_after"]].end, f" proof {{ {rel(g['lock'])} }}"))
        elif kind_of(o) != "fn":
            inserts.append((toks[c].start, f" proof {{ {rel(g['lock'])} }} "))

    # ---- jumps
    for b in range(kb + 1, k1):
        t = toks[b]
        if t.kind == "ident" and t.text in ("break", "continue") and not in_closure(b):
            lo = parent[b]
            while lo is not None and not (toks[lo].text == "{" and lo in loop_open):
                lo = parent[lo]
            if lo is None:
                continue
            lc = close[lo]
            live = []
            for g in named:
                o = g["block"]
                if (o == lo or (lo < o < lc)) and o < b < close[o] and b > g["after"] and not (g.get("dead_from") is not None and g["dead_from"] < b):
                    # only guards that are not moved on (a moved guard was replaced by its holder in `named`)
                    live.append(g["lock"])
            for tm in temps:
                if tm["ks"] > lo and tm["ks"] <= b <= tm["ke"] and tm["site"] < b:
                    live.append(tm["lock"])
            if not live:
                continue
            if toks[b + 1].kind == "lifetime":
                und("a labelled break / continue while a lock is held")
            if toks[b - 1].text not in (";", "{", "}"):
                und("a break / continue that is not a statement while a lock is held")
            seen = []
            for r in live:
                if r not in seen:
                    seen.append(r)
            inserts.append((toks[b].start, "proof { " + " ".join(rel(r) for r in seen) + " } "))

    # moved guards: the original binding is not itself released (drop its entry from `named` for the jump computation above)
    # -- handled by construction: a moved guard's own entry adds no insert; its lock is the holder's lock as well.

    # ---- loops
    loop_extra = {}
    for n, (kw, ko) in enumerate(lps, 1):
        if in_closure(kw):
            continue
        if toks[kw - 1].text not in (";", "{", "}"):
            und(f"loop #{n} is not a statement (a ghost snapshot of the held locks goes in front of it)")
        live = []
        for g in named:
            o = g["block"]
            if o < kw < close[o] and kw > g["after"] and not (g.get("dead_from") is not None and g["dead_from"] < kw) and g["lock"] not in live:
                live.append(g["lock"])
        for tm in temps:
            if tm["ks"] <= kw <= tm["ke"] and tm["site"] < kw and tm["lock"] not in live:
                live.append(tm["lock"])
        inserts.append((toks[kw].start, f"let ghost lkh_{n}__ = {LK}.held; "))
        upper = "Set::<(int, int)>::empty()" + "".join(f".insert(crate::shims::lid({r}))" for r in live)
        # what is held at the loop head is what was held on entry, and that is at most what is alive there
        loop_extra[n] = f"{LK}.held == lkh_{n}__, lkh_{n}__.subset_of({upper})"
    inserts.append((toks[kb].end, f"\n    let tracked mut {LK} = crate::shims::Locks::new();\n"))
    return inserts, loop_extra, len(sites)
