#!/bin/bash
# precommit.sh : refresh the baselines, run every check on the unchanged tree (in parallel), refresh the manifest; non-zero if any check is not OK
cd /verif
[ -n "$(git -C /repo status --short)" ] && { echo "/repo has uncommitted changes"; exit 3; }
./check --record-shapes > /dev/null || exit 3
bad=0
printf "%s\n" C01 C02 C03 C04 C05 C06 C07 C08 C09 C10 C11 C13 C14 C15 C16 C17 C18 C19 | xargs -P 6 -I{} sh -c './check {} > /tmp/precommit_{}.out 2>&1; echo "{} $?"' | sort > /tmp/precommit.res
while read p rc; do [ "$rc" != 0 ] && { echo "NOT OK: $p rc=$rc"; grep -E "^VIOL|^UNDEC|failed" /tmp/precommit_$p.out | head -3; bad=1; }; done < /tmp/precommit.res
python3 eav/mkmanifest.py > /dev/null 2>&1
[ $bad = 0 ] && echo "all 18 checks OK"
exit $bad
