#!/bin/bash
# mkwt.sh <PROP> <tag> : scratch worktree /tmp/wt_<tag> of /repo HEAD with a warm target and the property text
p=$1; tag=$2; wt=/tmp/wt_$tag
git -C /repo worktree add --detach -q $wt HEAD || exit 1
mkdir -p $wt/_seed
python3 - "$p" "$wt" <<'PY'
import json,sys
p,wt=sys.argv[1:3]
for l in open('/verif/properties.jsonl'):
    d=json.loads(l)
    if d['id']==p:
        open(wt+'/_seed/PROPERTY.txt','w').write(json.dumps({'id':d['id'],'title':d['title'],'statement':d['statement'],'files_to_look_at':d['anchors']['files']},indent=1))
PY
cp -r /repo/target $wt/target
