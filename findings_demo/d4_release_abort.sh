#!/bin/sh
# Defect 4, end to end: the RELEASE tacd binary (built with [profile.release] panic = 'abort')
# is killed by a single client that connects and closes immediately.
# Usage: sh _demo/d4_release_abort.sh   (from the worktree root, after
#        `cargo build --offline --release -p tacd`)
PORT=${PORT:-15001}
./target/release/tacd --foreground --no-pid-file --log-stderr \
	--listen 127.0.0.1:$PORT --domain example.org \
	--acme-ext "1.3.6.1.5.5.7.1.31=critical,DER:04:20:00:00:00:00:00:00:00:00:00:00:00:00:00:00:00:00:00:00:00:00:00:00:00:00:00:00:00:00:00:00:00:00" &
PID=$!
sleep 1
echo "tacd pid $PID alive before: $(kill -0 $PID 2>/dev/null && echo yes || echo no)"
# connect and close at once, no data
python3 -c "import socket; s=socket.create_connection(('127.0.0.1', $PORT)); s.close()"
sleep 1
echo "tacd pid $PID alive after : $(kill -0 $PID 2>/dev/null && echo yes || echo no)"
wait $PID
echo "tacd exit status: $? (134 = 128 + SIGABRT)"
