use vstd::prelude::*;
use std::time::{Duration, Instant};
use std::cmp;
verus! {

#[verifier::external_type_specification]
#[verifier::external_body]
pub struct ExInstant(Instant);


pub uninterp spec fn dur_secs(d: Duration) -> nat;
pub assume_specification [std::time::Duration::from_millis] (ms: u64) -> (r: std::time::Duration);
pub assume_specification [std::time::Duration::as_secs] (d: &std::time::Duration) -> (r: u64)
   ensures r as nat == dur_secs(*d);
pub assume_specification<T: std::cmp::Ord> [std::cmp::min] (a: T, b: T) -> (r: T)
   ensures r == a || r == b;
pub assume_specification<T: std::cmp::Ord> [std::cmp::max] (a: T, b: T) -> (r: T) 
   ensures r == a || r == b;

pub const MAX_RATE_LIMIT_SLEEP_MILISEC: u64 = 3_600_000;
pub const MIN_RATE_LIMIT_SLEEP_MILISEC: u64 = 100;

pub struct RateLimit {
    limits: Vec<(usize, Duration)>,
    query_log: Vec<Instant>,
}

impl RateLimit {
	fn get_sleep_duration(&self) -> Duration {
		let (nb_req, min_duration) = match self.limits.last() {
			Some((n, d)) => (*n as u64, *d),
			None => {
				return Duration::from_millis(0);
			}
		};
		let nb_mili = match min_duration.as_secs() {
			0 | 1 => MIN_RATE_LIMIT_SLEEP_MILISEC,
			n => {
				let a = n * 200 / nb_req;
				let a = cmp::min(a, MAX_RATE_LIMIT_SLEEP_MILISEC);
				cmp::max(a, MIN_RATE_LIMIT_SLEEP_MILISEC)
			}
		};
		Duration::from_millis(nb_mili)
	}
}

} // verus!
fn main() {}
