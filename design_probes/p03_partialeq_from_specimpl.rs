use vstd::prelude::*;
verus! {

pub trait HasLogger {
	fn warn(&self, msg: &str);
	fn debug(&self, msg: &str);
}

#[derive(Clone, Debug, PartialEq)]
pub enum AcmeError { BadNonce, Connection, Dns, Malformed, Other, Unknown }

impl vstd::std_specs::cmp::PartialEqSpecImpl for AcmeError {
    open spec fn obeys_eq_spec() -> bool { true }
    open spec fn eq_spec(&self, other: &AcmeError) -> bool { *self == *other }
}
impl vstd::std_specs::convert::FromSpecImpl<String> for AcmeError {
    open spec fn obeys_from_spec() -> bool { false }
    open spec fn from_spec(e: String) -> Self { arbitrary() }
}
impl AcmeError {
	pub fn is_recoverable(&self) -> (r: bool)
       ensures r == (*self == AcmeError::BadNonce || *self == AcmeError::Connection || *self == AcmeError::Dns || *self == AcmeError::Malformed)
    {
		*self == AcmeError::BadNonce
			|| *self == AcmeError::Connection
			|| *self == AcmeError::Dns
			|| *self == AcmeError::Malformed
	}
}

impl From<String> for AcmeError {
	fn from(error: String) -> Self {
		match error.as_str() {
			"urn:ietf:params:acme:error:badNonce" => AcmeError::BadNonce,
			"urn:ietf:params:acme:error:connection" => AcmeError::Connection,
			_ => AcmeError::Unknown,
		}
	}
}

pub const N: usize = 10;

fn lp() -> (r: usize) ensures r <= N {
    let mut c: usize = 0;
    for _ in 0..N
       invariant c <= N
    {
        if c < N { c = c + 1; }
    }
    c
}

} // verus!
fn main() {}
