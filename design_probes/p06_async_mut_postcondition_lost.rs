use vstd::prelude::*;
verus! {
pub tracked struct World { pub ghost sends: nat, pub ghost permit: bool }

async fn rate_limit(x: &mut u64, Tracked(w): Tracked<&mut World>)
   ensures *final(x) == *old(x),
           final(w).sends == old(w).sends, final(w).permit
{ proof { w.permit = true; } }

async fn caller(x: &mut u64, Tracked(w): Tracked<&mut World>)
   ensures final(w).permit
{
    rate_limit(x, Tracked(&mut *w)).await;
}

async fn inc(x: &mut u64)
   requires *old(x) < 10
   ensures *final(x) == *old(x) + 1
{ *x = *x + 1; }

async fn caller2(x: &mut u64)
   requires *old(x) < 5
   ensures *final(x) == *old(x) + 2
{
    inc(x).await;
    inc(x).await;
}
}
fn main() {}
