#![allow(unused_imports, dead_code, unused_variables, unused_mut)]
use vstd::prelude::*;
use std::collections::HashMap;
verus! {
pub const DEFAULT_ACCOUNT_FILE_MODE: u32 = 0o600;

pub assume_specification<T: std::clone::Clone> [<T as std::borrow::ToOwned>::to_owned] (x: &T) -> (r: T)
   ensures r == *x;

pub tracked struct World { pub ghost disk: Map<Seq<char>, Seq<u8>>, pub ghost hooks_run: Seq<(int, Seq<char>)> }

#[derive(Debug)]
pub struct Error { pub message: String }
impl Error { #[verifier::external_body] pub fn prefix(&self, p: &str) -> Error { unimplemented!() } }
pub struct IoError { pub x: u8 }
impl vstd::std_specs::convert::FromSpecImpl<IoError> for Error {
    open spec fn obeys_from_spec() -> bool { false }
    open spec fn from_spec(e: IoError) -> Self { arbitrary() }
}
impl From<IoError> for Error { #[verifier::external_body] fn from(e: IoError) -> Self { unimplemented!() } }

#[derive(Debug)]
pub struct PathBuf { pub s: String }
pub struct Display { pub s: String }
impl Display { #[verifier::external_body] pub fn to_string(&self) -> String { unimplemented!() } }
impl PathBuf {
    #[verifier::external_body] pub fn is_file(&self) -> bool { unimplemented!() }
    #[verifier::external_body] pub fn to_owned(&self) -> (r: PathBuf) ensures r == *self { unimplemented!() }
    #[verifier::external_body] pub fn display(&self) -> Display { unimplemented!() }
}
pub struct OpenOptions { pub mode: u32, pub write: bool, pub create: bool, pub truncate: bool }
pub struct File { pub path: Ghost<Seq<char>>, pub truncate: bool }
impl OpenOptions {
    pub fn new() -> (r: OpenOptions) ensures r == (OpenOptions { mode: 0o666, write: false, create: false, truncate: false }) { OpenOptions { mode: 0o666, write: false, create: false, truncate: false } }
    pub fn mode(&mut self, m: u32) -> (r: &mut OpenOptions) ensures *final(self) == (OpenOptions { mode: m, ..*old(self) }), *r == *final(self) { self.mode = m; self }
    pub fn write(&mut self, b: bool) -> (r: &mut OpenOptions) ensures *final(self) == (OpenOptions { write: b, ..*old(self) }), *r == *final(self) { self.write = b; self }
    pub fn create(&mut self, b: bool) -> (r: &mut OpenOptions) ensures *final(self) == (OpenOptions { create: b, ..*old(self) }), *r == *final(self) { self.create = b; self }
    #[verifier::external_body] pub fn open(&self, p: &PathBuf) -> (r: Result<File, IoError>) 
       ensures r matches Ok(f) ==> f.truncate == self.truncate
    { unimplemented!() }
}
impl File {
    #[verifier::external_body] pub fn create(p: &PathBuf) -> (r: Result<File, IoError>) { unimplemented!() }
    #[verifier::external_body] pub fn write_all(&mut self, d: &[u8]) -> (r: Result<(), IoError>) { unimplemented!() }
}

pub enum HookType { FilePreCreate, FilePostCreate, FilePreEdit, FilePostEdit }
pub struct Hook { pub name: String }
pub struct FileStorageHookData {
	pub file_name: String,
	pub file_directory: String,
	pub file_path: PathBuf,
	pub env: HashMap<String, String>,
}
impl FileStorageHookData { #[verifier::external_body] fn set_env(&mut self, env: &HashMap<String, String>) { } }

pub trait HasLogger { fn trace(&self, msg: &str); }

pub struct FileManager {
	pub account_name: String,
	pub cert_file_mode: u32,
	pub pk_file_mode: u32,
	pub hooks: Vec<Hook>,
	pub env: HashMap<String, String>,
}
impl HasLogger for FileManager { #[verifier::external_body] fn trace(&self, msg: &str) {} }

#[derive(Clone)]
pub enum FileType {
	Account,
	PrivateKey,
	Certificate,
}
pub mod hooks {
    use vstd::prelude::*;
    use super::*;
    verus!{
    #[verifier::external_body]
    pub fn call<L: HasLogger, T>(logger: &L, hooks: &[Hook], data: &T, hook_type: HookType) -> Result<(), Error> { unimplemented!() }
    }
}

#[verifier::external_body]
fn get_file_full_path(fm: &FileManager, file_type: FileType) -> Result<(String, String, PathBuf), Error> { unimplemented!() }
#[verifier::external_body]
fn set_owner(fm: &FileManager, path: &PathBuf, file_type: FileType) -> Result<(), Error> { unimplemented!() }

fn write_file(fm: &FileManager, file_type: FileType, data: &[u8]) -> Result<(), Error> {
	let (file_directory, file_name, path) = get_file_full_path(fm, file_type.clone())?;
	let mut hook_data = FileStorageHookData {
		file_name,
		file_directory,
		file_path: path.to_owned(),
		env: HashMap::new(),
	};
	hook_data.set_env(&fm.env);
	let is_new = !path.is_file();

	if is_new {
		hooks::call(fm, &fm.hooks, &hook_data, HookType::FilePreCreate)?;
	} else {
		hooks::call(fm, &fm.hooks, &hook_data, HookType::FilePreEdit)?;
	}

	fm.trace(&format!("writing file {path:?}"));
	let mut file = if cfg!(unix) {
		let mut options = OpenOptions::new();
		options.mode(match &file_type {
			FileType::Certificate => fm.cert_file_mode,
			FileType::PrivateKey => fm.pk_file_mode,
			FileType::Account => crate::DEFAULT_ACCOUNT_FILE_MODE,
		});
		options
			.write(true)
			.create(true)
			.open(&path)
			.map_err(|e| Error::from(e).prefix(&path.display().to_string()))?
	} else {
		File::create(&path)
			.map_err(|e| Error::from(e).prefix(&path.display().to_string()))?
	};
	file.write_all(data)
		.map_err(|e| Error::from(e).prefix(&path.display().to_string()))?;
	if cfg!(unix) {
		set_owner(fm, &path, file_type).map_err(|e| e.prefix(&path.display().to_string()))?;
	}

	if is_new {
		hooks::call(fm, &fm.hooks, &hook_data, HookType::FilePostCreate)?;
	} else {
		hooks::call(fm, &fm.hooks, &hook_data, HookType::FilePostEdit)?;
	}
	Ok(())
}

} // verus!
fn main() {}
