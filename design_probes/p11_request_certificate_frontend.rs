#![allow(unused_imports, dead_code, unused_variables, unused_mut, unused_assignments)]
use vstd::prelude::*;
use std::collections::HashMap;

verus! {
pub assume_specification<T: std::clone::Clone> [<T as std::borrow::ToOwned>::to_owned] (x: &T) -> (r: T)
   ensures r == *x;

pub assume_specification [std::string::String::as_bytes] (s: &std::string::String) -> &[u8];
pub assume_specification<T> [std::mem::drop] (x: T);
#[derive(Debug)]
pub struct Error { pub message: String }
impl Error { #[verifier::external_body] pub fn prefix(&self, p: &str) -> Error { unimplemented!() } }
impl vstd::std_specs::convert::FromSpecImpl<String> for Error {
    open spec fn obeys_from_spec() -> bool { false }
    open spec fn from_spec(e: String) -> Self { arbitrary() }
}
impl From<String> for Error { #[verifier::external_body] fn from(e: String) -> Self { unimplemented!() } }
impl<'a> vstd::std_specs::convert::FromSpecImpl<&'a str> for Error {
    open spec fn obeys_from_spec() -> bool { false }
    open spec fn from_spec(e: &'a str) -> Self { arbitrary() }
}
impl From<&str> for Error { #[verifier::external_body] fn from(e: &str) -> Self { unimplemented!() } }

pub struct RwLock<T> { pub v: T }
pub struct ReadGuard<'a, T> { pub r: &'a T }
pub struct WriteGuard<'a, T> { pub r: &'a mut T }
impl<T> RwLock<T> {
    #[verifier::external_body] pub fn read(&self) -> ReadGuard<'_, T> { unimplemented!() }
    #[verifier::external_body] pub fn write(&self) -> WriteGuard<'_, T> { unimplemented!() }
}
impl<'a, T> std::ops::Deref for ReadGuard<'a, T> { type Target = T; #[verifier::external_body] fn deref(&self) -> &T { self.r } }
impl<'a, T> std::ops::Deref for WriteGuard<'a, T> { type Target = T; #[verifier::external_body] fn deref(&self) -> &T { self.r } }
impl<'a, T> std::ops::DerefMut for WriteGuard<'a, T> { #[verifier::external_body] fn deref_mut(&mut self) -> &mut T { self.r } }

pub type AccountSync = std::sync::Arc<RwLock<Account>>;
pub type EndpointSync = std::sync::Arc<RwLock<Endpoint>>;

pub struct KeyPair { pub x: u8 }
pub struct AccountKey { pub key: KeyPair, pub signature_algorithm: u8 }
pub struct AccountEndpoint { pub account_url: String }
pub struct Account { pub current_key: AccountKey, pub name: String }
impl Account {
    #[verifier::external_body] pub fn get_endpoint(&self, n: &str) -> Result<&AccountEndpoint, Error> { unimplemented!() }
    #[verifier::external_body] pub fn synchronize(&mut self, e: &mut Endpoint) -> Result<(), Error> { unimplemented!() }
    #[verifier::external_body] pub fn register(&mut self, e: &mut Endpoint) -> Result<(), Error> { unimplemented!() }
}
pub struct Endpoint { pub name: String }

#[verifier::external_body]
pub fn encode_kid(k: &KeyPair, a: &u8, kid: &str, payload: &[u8], url: &str, nonce: &str) -> Result<String, Error> { unimplemented!() }

#[derive(PartialEq)]
pub enum IdentifierType { Dns, Ip }
impl vstd::std_specs::cmp::PartialEqSpecImpl for IdentifierType {
    open spec fn obeys_eq_spec() -> bool { true }
    open spec fn eq_spec(&self, other: &IdentifierType) -> bool { *self == *other }
}
#[derive(Clone, Copy, PartialEq)]
pub enum Challenge { Http01, Dns01, TlsAlpn01 }
pub struct Identifier { pub id_type: IdentifierType, pub value: String, pub challenge: Challenge }
pub struct FileManager { pub x: u8 }
pub struct ChallengeHookData { pub is_clean_hook: bool }
pub struct HookDataPair(pub ChallengeHookData, pub HookType);
#[derive(Clone)]
pub enum HookType { A, B }
pub struct Certificate { pub identifiers: Vec<Identifier>, pub csr_digest: u8, pub subject_attributes: HashMap<u8, String>, pub file_manager: FileManager }
impl Certificate {
    #[verifier::external_body] pub fn warn(&self, m: &str) {}
    #[verifier::external_body] pub fn info(&self, m: &str) {}
    #[verifier::external_body] pub fn trace(&self, m: &str) {}
    #[verifier::external_body] pub fn identifier_list(&self) -> String { unimplemented!() }
    #[verifier::external_body] pub fn get_identifier_from_str(&self, s: &str) -> Result<Identifier, Error> { unimplemented!() }
    #[verifier::external_body] pub fn call_challenge_hooks(&self, f: &str, p: &str, r: Option<String>, i: &str) -> Result<(ChallengeHookData, HookType), Error> { unimplemented!() }
    #[verifier::external_body] pub fn call_challenge_hooks_clean(&self, d: &ChallengeHookData, t: HookType) -> Result<(), Error> { unimplemented!() }
}
pub mod structs {
    use vstd::prelude::*;
    use super::*;
    verus!{
    pub struct TokenChallenge { pub url: String, pub token: String }
    pub enum Challenge { Http01(TokenChallenge), Dns01(TokenChallenge), TlsAlpn01(TokenChallenge), Unknown }
    impl Challenge {
        #[verifier::external_body] pub fn get_proof(&self, k: &KeyPair) -> Result<(String, Option<String>), Error> { unimplemented!() }
        #[verifier::external_body] pub fn get_file_name(&self) -> String { unimplemented!() }
        #[verifier::external_body] pub fn get_url(&self) -> String { unimplemented!() }
    }
    }
}
impl PartialEq<structs::Challenge> for Challenge {
    #[verifier::external_body] fn eq(&self, other: &structs::Challenge) -> bool { unimplemented!() }
}
#[derive(PartialEq)]
pub enum AuthorizationStatus { Pending, Valid, Invalid }
impl vstd::std_specs::cmp::PartialEqSpecImpl for AuthorizationStatus {
    open spec fn obeys_eq_spec() -> bool { true }
    open spec fn eq_spec(&self, other: &AuthorizationStatus) -> bool { *self == *other }
}
#[derive(PartialEq)]
pub enum OrderStatus { Pending, Ready, Valid }
impl vstd::std_specs::cmp::PartialEqSpecImpl for OrderStatus {
    open spec fn obeys_eq_spec() -> bool { true }
    open spec fn eq_spec(&self, other: &OrderStatus) -> bool { *self == *other }
}
pub struct OrdIdentifier { pub value: String }
pub struct Authorization { pub identifier: OrdIdentifier, pub status: AuthorizationStatus, pub challenges: Vec<structs::Challenge> }
impl Authorization { #[verifier::external_body] pub fn get_error(&self) -> Option<Error> { unimplemented!() } }
pub struct Order { pub status: OrderStatus, pub authorizations: Vec<String>, pub finalize: String, pub certificate: Option<String> }
impl Order { #[verifier::external_body] pub fn get_error(&self) -> Option<Error> { unimplemented!() } }
pub struct NewOrder { pub x: u8 }
impl NewOrder { #[verifier::external_body] pub fn new(ids: &[Identifier]) -> NewOrder { unimplemented!() } }
pub enum AcmeError { AccountDoesNotExist, Other }
pub struct HttpError { pub x: u8 }
impl HttpError {
    #[verifier::external_body] pub fn in_err(e: HttpError) -> Error { unimplemented!() }
    #[verifier::external_body] pub fn is_acme_err(&self, a: AcmeError) -> bool { unimplemented!() }
}
pub mod serde_json {
    use vstd::prelude::*;
    use super::*;
    verus!{
    #[verifier::external_body] pub fn to_string<T>(x: &T) -> Result<String, Error> { unimplemented!() }
    }
}
#[verifier::external_body] pub fn vjson_obj1(k: &str, v: String) -> JsonValue { unimplemented!() }
pub struct JsonValue { pub x: u8 }
impl JsonValue { #[verifier::external_body] pub fn to_string(&self) -> String { unimplemented!() } }
pub struct Csr { pub x: u8 }
impl Csr {
    #[verifier::external_body] pub fn new(k: &KeyPair, d: u8, domains: &[String], ips: &[String], attrs: &HashMap<u8, String>) -> Result<Csr, Error> { unimplemented!() }
    #[verifier::external_body] pub fn to_pem(&self) -> Result<String, Error> { unimplemented!() }
    #[verifier::external_body] pub fn to_der_base64(&self) -> Result<String, Error> { unimplemented!() }
}
pub mod certificate {
    use vstd::prelude::*;
    use super::*;
    verus!{
    #[verifier::external_body] pub fn get_key_pair(c: &Certificate) -> Result<KeyPair, Error> { unimplemented!() }
    }
}
pub mod storage {
    use vstd::prelude::*;
    use super::*;
    verus!{
    #[verifier::external_body] pub fn write_certificate(fm: &FileManager, d: &[u8]) -> Result<(), Error> { unimplemented!() }
    }
}
pub mod http {
    use vstd::prelude::*;
    use super::*;
    verus!{
    #[verifier::external_body] pub fn refresh_directory(e: &mut Endpoint) -> Result<(), HttpError> { unimplemented!() }
    #[verifier::external_body] pub fn new_order<F: Fn(&str,&str)->Result<String,Error>>(e: &mut Endpoint, d: &F) -> Result<(Order, String), HttpError> { unimplemented!() }
    #[verifier::external_body] pub fn get_authorization<F: Fn(&str,&str)->Result<String,Error>>(e: &mut Endpoint, d: &F, u: &str) -> Result<Authorization, HttpError> { unimplemented!() }
    #[verifier::external_body] pub fn post_jose_no_response<F: Fn(&str,&str)->Result<String,Error>>(e: &mut Endpoint, d: &F, u: &str) -> Result<(), HttpError> { unimplemented!() }
    #[verifier::external_body] pub fn pool_authorization<F: Fn(&str,&str)->Result<String,Error>, S: Fn(&Authorization)->bool>(e: &mut Endpoint, d: &F, b: &S, u: &str) -> Result<Authorization, HttpError> { unimplemented!() }
    #[verifier::external_body] pub fn pool_order<F: Fn(&str,&str)->Result<String,Error>, S: Fn(&Order)->bool>(e: &mut Endpoint, d: &F, b: &S, u: &str) -> Result<Order, HttpError> { unimplemented!() }
    #[verifier::external_body] pub fn finalize_order<F: Fn(&str,&str)->Result<String,Error>>(e: &mut Endpoint, d: &F, u: &str) -> Result<Order, HttpError> { unimplemented!() }
    #[verifier::external_body] pub fn get_certificate<F: Fn(&str,&str)->Result<String,Error>>(e: &mut Endpoint, d: &F, u: &str) -> Result<String, HttpError> { unimplemented!() }
    }
}

#[verifier::exec_allows_no_decreases_clause]
pub fn request_certificate(
	cert: &Certificate,
	account_s: AccountSync,
	endpoint_s: EndpointSync,
) -> Result<(), Error> {
	let mut hook_datas = vec![];
	let endpoint_name = endpoint_s.read().name.clone();

	// Refresh the directory
	http::refresh_directory(&mut *(endpoint_s.write()))
		.map_err(HttpError::in_err)?;

	// Synchronize the account
	account_s
		.write()
		.synchronize(&mut *(endpoint_s.write()))?;

	// Create a new order
	let mut new_reg = false;
	let mut brk__: Option<(Order, String)> = None;
	loop {
		let new_order = NewOrder::new(&cert.identifiers);
		let new_order = serde_json::to_string(&new_order)?;
		let data_builder = { let account = account_s.read(); { let endpoint_name = &endpoint_name; move |n: &str, url: &str| { encode_kid(&account.current_key.key, &account.current_key.signature_algorithm, &(account.get_endpoint(endpoint_name)?.account_url), new_order.as_bytes(), url, n) } } };
		match http::new_order(&mut *(endpoint_s.write()), &data_builder) {
			Ok((order, order_url)) => {
				if let Some(e) = order.get_error() {
					cert.warn(&e.prefix("Error").message);
				}
				brk__ = Some((order, order_url)); break;
			}
			Err(e) => {
				if !new_reg && e.is_acme_err(AcmeError::AccountDoesNotExist) {
					drop(data_builder);
					account_s
						.write()
						
						.register(&mut *(endpoint_s.write()))
						?;
					new_reg = true;
				} else {
					return Err(HttpError::in_err(e));
				}
			}
		};
	}
	let (order, order_url) = brk__.unwrap();

	// Begin iter over authorizations
	for auth_url in order.authorizations.iter() {
		// Fetch the authorization
		let data_builder = { let account = account_s.read(); { let endpoint_name = &endpoint_name; move |n: &str, url: &str| { encode_kid(&account.current_key.key, &account.current_key.signature_algorithm, &(account.get_endpoint(endpoint_name)?.account_url), b"", url, n) } } };
		let auth =
			http::get_authorization(&mut *(endpoint_s.write()), &data_builder, auth_url)
				.map_err(HttpError::in_err)?;
		drop(data_builder);
		if let Some(e) = auth.get_error() {
			cert.warn(&e.prefix("error").message);
		}
		if auth.status == AuthorizationStatus::Valid {
		} else {
		if auth.status != AuthorizationStatus::Pending {
			let msg = format!(
				"{}: authorization status is {}",
				auth.identifier, auth.status
			);
			return Err(msg.into());
		}

		// Fetch the associated challenges
		let current_identifier = cert.get_identifier_from_str(&auth.identifier.value)?;
		let current_challenge = current_identifier.challenge;
		for challenge in auth.challenges.iter() {
			if current_challenge == *challenge {
				let (proof, raw_proof) =
					challenge.get_proof(&account_s.read().current_key.key)?;
				let file_name = challenge.get_file_name();
				let identifier = auth.identifier.value.to_owned();

				// Call the challenge hook in order to complete it
				let mut data = cert
					.call_challenge_hooks(&file_name, &proof, raw_proof, &identifier)?;
				data.0.is_clean_hook = true;
				hook_datas.push(data);

				// Tell the server the challenge has been completed
				let chall_url = challenge.get_url();
				let data_builder = { let account = account_s.read(); { let endpoint_name = &endpoint_name; move |n: &str, url: &str| { encode_kid(&account.current_key.key, &account.current_key.signature_algorithm, &(account.get_endpoint(endpoint_name)?.account_url), b"{}", url, n) } } };
				http::post_jose_no_response(
					&mut *(endpoint_s.write()),
					&data_builder,
					&chall_url,
				)
				.map_err(HttpError::in_err)?;
				drop(data_builder);
			}
		}

		// Pool the authorization in order to see whether or not it is valid
		let data_builder = { let account = account_s.read(); { let endpoint_name = &endpoint_name; move |n: &str, url: &str| { encode_kid(&account.current_key.key, &account.current_key.signature_algorithm, &(account.get_endpoint(endpoint_name)?.account_url), b"", url, n) } } };
		let break_fn = |a: &Authorization| a.status == AuthorizationStatus::Valid;
		let _ = http::pool_authorization(
			&mut *(endpoint_s.write()),
			&data_builder,
			&break_fn,
			auth_url,
		)
		.map_err(HttpError::in_err)?;
		drop(data_builder);
		for (data, hook_type) in hook_datas.iter() {
			cert.call_challenge_hooks_clean(data, (*hook_type).to_owned())?;
		}
		hook_datas.clear();
		}
	}
	// End iter over authorizations

	// Pool the order in order to see whether or not it is ready
	let data_builder = { let account = account_s.read(); { let endpoint_name = &endpoint_name; move |n: &str, url: &str| { encode_kid(&account.current_key.key, &account.current_key.signature_algorithm, &(account.get_endpoint(endpoint_name)?.account_url), b"", url, n) } } };
	let break_fn = |o: &Order| o.status == OrderStatus::Ready;
	let order = http::pool_order(
		&mut *(endpoint_s.write()),
		&data_builder,
		&break_fn,
		&order_url,
	)
	
	.map_err(HttpError::in_err)?;
	drop(data_builder);

	// Finalize the order by sending the CSR
	let key_pair = certificate::get_key_pair(cert)?;
	let domains: Vec<String> = cert
		.identifiers
		.iter()
		.filter(|e| e.id_type == IdentifierType::Dns)
		.map(|e| e.value.to_owned())
		.collect();
	let ips: Vec<String> = cert
		.identifiers
		.iter()
		.filter(|e| e.id_type == IdentifierType::Ip)
		.map(|e| e.value.to_owned())
		.collect();
	let csr = Csr::new(
		&key_pair,
		cert.csr_digest,
		domains.as_slice(),
		ips.as_slice(),
		&cert.subject_attributes,
	)?;
	let _ = csr.to_pem()?;
	let csr = vjson_obj1("csr", csr.to_der_base64()?);
	let csr = csr.to_string();
	let data_builder = { let account = account_s.read(); { let endpoint_name = &endpoint_name; move |n: &str, url: &str| { encode_kid(&account.current_key.key, &account.current_key.signature_algorithm, &(account.get_endpoint(endpoint_name)?.account_url), csr.as_bytes(), url, n) } } };
	let order = http::finalize_order(
		&mut *(endpoint_s.write()),
		&data_builder,
		&order.finalize,
	)
	
	.map_err(HttpError::in_err)?;
	drop(data_builder);
	if let Some(e) = order.get_error() {
		cert.warn(&e.prefix("error").message);
	}

	// Pool the order in order to see whether or not it is valid
	let data_builder = { let account = account_s.read(); { let endpoint_name = &endpoint_name; move |n: &str, url: &str| { encode_kid(&account.current_key.key, &account.current_key.signature_algorithm, &(account.get_endpoint(endpoint_name)?.account_url), b"", url, n) } } };
	let break_fn = |o: &Order| o.status == OrderStatus::Valid;
	let order = http::pool_order(
		&mut *(endpoint_s.write()),
		&data_builder,
		&break_fn,
		&order_url,
	)
	
	.map_err(HttpError::in_err)?;
	drop(data_builder);

	// Download the certificate
	let crt_url = order
		.certificate
		.ok_or_else(|| Error::from("no certificate available for download"))?;
	let data_builder = { let account = account_s.read(); { let endpoint_name = &endpoint_name; move |n: &str, url: &str| { encode_kid(&account.current_key.key, &account.current_key.signature_algorithm, &(account.get_endpoint(endpoint_name)?.account_url), b"", url, n) } } };
	let crt = http::get_certificate(&mut *(endpoint_s.write()), &data_builder, &crt_url)
		.map_err(HttpError::in_err)?;
	drop(data_builder);
	storage::write_certificate(&cert.file_manager, crt.as_bytes())?;

	cert.info(&format!(
		"certificate renewed (identifiers: {})",
		cert.identifier_list()
	));
	Ok(())
}

} // verus
fn main() {}
impl std::fmt::Display for OrdIdentifier { fn fmt(&self, f: &mut std::fmt::Formatter) -> std::fmt::Result { Ok(()) } }
impl std::fmt::Display for AuthorizationStatus { fn fmt(&self, f: &mut std::fmt::Formatter) -> std::fmt::Result { Ok(()) } }
