use vstd::prelude::*;
verus! {

pub open spec fn sorted(l: Seq<int>) -> bool {
    forall |i: int, j: int| 0 <= i <= j < l.len() ==> l[i] <= l[j]
}

// any n+1 admissions span at least d  <=>  no half-open window of length d holds more than n
pub open spec fn spaced(l: Seq<int>, n: int, d: int) -> bool {
    forall |i: int, j: int| 0 <= i && i + n <= j < l.len() ==> l[i] <= l[j] - d
}

pub open spec fn newer(l: Seq<int>, m: int) -> Seq<int> { l.filter(|x: int| x > m) }

// in a sorted log, if c entries are newer than m then everything before the last c is <= m
proof fn lemma_newer_suffix(l: Seq<int>, m: int)
    requires sorted(l)
    ensures forall |i: int| 0 <= i < l.len() - newer(l, m).len() ==> l[i] <= m,
            newer(l, m).len() <= l.len(),
    decreases l.len()
{
    reveal(Seq::filter);
    if l.len() == 0 {
    } else {
        let p = l.drop_last();
        assert(sorted(p));
        lemma_newer_suffix(p, m);
        if l.last() > m {
            assert(newer(l, m).len() == newer(p, m).len() + 1);
            assert forall |i: int| 0 <= i < l.len() - newer(l, m).len() implies l[i] <= m by {
                assert(l[i] == p[i]);
            }
        } else {
            assert(newer(l, m).len() == newer(p, m).len());
            // last <= m and sorted => all <= m
            assert forall |i: int| 0 <= i < l.len() - newer(l, m).len() implies l[i] <= m by {
                assert(l[i] <= l[l.len() - 1]);
                if i < p.len() { assert(l[i] == p[i]); }
            }
        }
    }
}

// the push step: admission check passed at time now1 (fewer than n newer than now1-d), entry t >= now1 appended
proof fn lemma_push(l: Seq<int>, n: int, d: int, now1: int, t: int)
    requires sorted(l), spaced(l, n, d), n >= 1, d >= 0,
             newer(l, now1 - d).len() < n,
             t >= now1,
             forall |i: int| 0 <= i < l.len() ==> l[i] <= t,
    ensures sorted(l.push(t)), spaced(l.push(t), n, d)
{
    lemma_newer_suffix(l, now1 - d);
    let l2 = l.push(t);
    assert forall |i: int, j: int| 0 <= i && i + n <= j < l2.len() implies l2[i] <= l2[j] - d by {
        if j < l.len() {
            assert(l[i] <= l[j] - d);
        } else {
            // j is the new entry; i <= len - n < len - c
            assert(i < l.len() - newer(l, now1 - d).len());
            assert(l[i] <= now1 - d);
        }
    }
}

// what the user cares about: no window (t-d, t] contains n+1 admissions
proof fn lemma_window(l: Seq<int>, n: int, d: int, t: int, i: int, j: int)
    requires sorted(l), spaced(l, n, d), 0 <= i, i + n <= j < l.len()
    ensures !(t - d < l[i] && l[j] <= t)
{
    assert(l[i] <= l[j] - d);
}

}
fn main() {}
