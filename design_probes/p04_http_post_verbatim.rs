#![allow(unused_imports, dead_code, unused_variables)]
use vstd::prelude::*;

verus!{
pub const DEFAULT_HTTP_FAIL_NB_RETRY: usize = 10;
pub const DEFAULT_HTTP_FAIL_WAIT_SEC: u64 = 1;
pub assume_specification [std::thread::sleep] (d: std::time::Duration);
pub assume_specification [std::time::Duration::from_secs] (s: u64) -> std::time::Duration;
}

pub mod log {
    #[macro_export]
    macro_rules! vlog_trace { ($($t:tt)*) => { () }; }
    pub use vlog_trace as trace;
}

pub mod acme_common { pub mod error {
    use vstd::prelude::*;
    verus! {
    #[derive(Debug)]
    pub struct Error { pub message: String }
    impl vstd::std_specs::convert::FromSpecImpl<String> for Error {
        open spec fn obeys_from_spec() -> bool { false }
        open spec fn from_spec(e: String) -> Self { arbitrary() }
    }
    impl From<String> for Error { #[verifier::external_body] fn from(e: String) -> Self { Error { message: e } } }
    impl<'a> vstd::std_specs::convert::FromSpecImpl<&'a str> for Error {
        open spec fn obeys_from_spec() -> bool { false }
        open spec fn from_spec(e: &'a str) -> Self { arbitrary() }
    }
    impl From<&str> for Error { #[verifier::external_body] fn from(e: &str) -> Self { Error { message: e.to_string() } } }
    }
}}

pub mod reqwest {
    use vstd::prelude::*;
    verus! {
    pub struct Client { pub x: u8 }
    pub struct RequestBuilder { pub x: u8 }
    pub struct Response { pub x: u8 }
    pub struct Error { pub x: u8 }
    pub mod header {
        pub struct HeaderName { pub x: u8 }
        pub const ACCEPT: HeaderName = HeaderName { x: 0 };
        pub const CONTENT_TYPE: HeaderName = HeaderName { x: 1 };
    }
    impl Client {
        #[verifier::external_body]
        pub fn post(&self, url: &str) -> RequestBuilder { unimplemented!() }
    }
    impl RequestBuilder {
        #[verifier::external_body]
        pub fn header(self, k: header::HeaderName, v: &str) -> RequestBuilder { unimplemented!() }
        #[verifier::external_body]
        pub fn body(self, b: String) -> RequestBuilder { unimplemented!() }
        #[verifier::external_body]
        pub async fn send(self) -> Result<Response, Error> { unimplemented!() }
    }
    }
}

pub mod endpoint {
    use vstd::prelude::*;
    verus! {
    pub struct Endpoint { pub name: String, pub nonce: Option<String>, pub root_certificates: Vec<String> }
    }
}

pub mod http {
use vstd::prelude::*;
use crate::endpoint::Endpoint;
use crate::acme_common::error::Error;
use crate::reqwest::{header, Client, Response};
use std::{thread, time};
use crate::log;
verus! {

pub struct ValidHttpResponse { pub body: String }
pub struct HttpApiError { pub t: u8 }
pub enum AcmeError { A, B }
impl AcmeError { #[verifier::external_body] pub fn is_recoverable(&self) -> bool { true } }
impl HttpApiError { #[verifier::external_body] pub fn get_acme_type(&self) -> AcmeError { AcmeError::A } }

impl ValidHttpResponse {
    #[verifier::external_body]
    async fn from_response(response: Response) -> Result<Self, Error> { unimplemented!() }
    #[verifier::external_body]
    pub fn json<T>(&self) -> Result<T, Error> { unimplemented!() }
}

pub enum HttpError {
	ApiError(HttpApiError),
	GenericError(Error),
}
impl vstd::std_specs::convert::FromSpecImpl<Error> for HttpError {
    open spec fn obeys_from_spec() -> bool { true }
    open spec fn from_spec(e: Error) -> Self { HttpError::GenericError(e) }
}
impl From<Error> for HttpError {
	fn from(error: Error) -> Self {
		HttpError::GenericError(error)
	}
}
impl vstd::std_specs::convert::FromSpecImpl<HttpApiError> for HttpError {
    open spec fn obeys_from_spec() -> bool { true }
    open spec fn from_spec(e: HttpApiError) -> Self { HttpError::ApiError(e) }
}
impl From<HttpApiError> for HttpError {
	fn from(error: HttpApiError) -> Self {
		HttpError::ApiError(error)
	}
}
impl<'a> vstd::std_specs::convert::FromSpecImpl<&'a str> for HttpError {
    open spec fn obeys_from_spec() -> bool { false }
    open spec fn from_spec(e: &'a str) -> Self { arbitrary() }
}
impl From<&str> for HttpError {
	fn from(error: &str) -> Self {
		HttpError::GenericError(error.into())
	}
}
impl vstd::std_specs::convert::FromSpecImpl<crate::reqwest::Error> for HttpError {
    open spec fn obeys_from_spec() -> bool { false }
    open spec fn from_spec(e: crate::reqwest::Error) -> Self { arbitrary() }
}
impl From<crate::reqwest::Error> for HttpError {
    #[verifier::external_body]
	fn from(error: crate::reqwest::Error) -> Self {
		unimplemented!()
	}
}

#[verifier::external_body]
fn get_client(root_certs: &[String]) -> Result<Client, Error> { unimplemented!() }
#[verifier::external_body]
async fn new_nonce(endpoint: &mut Endpoint) -> Result<(), HttpError> { unimplemented!() }
#[verifier::external_body]
fn update_nonce(endpoint: &mut Endpoint, response: &Response) -> Result<(), Error> { unimplemented!() }
#[verifier::external_body]
fn check_status(response: &Response) -> Result<(), Error> { unimplemented!() }
#[verifier::external_body]
async fn rate_limit(endpoint: &mut Endpoint) { }

pub async fn post<F>(
	endpoint: &mut Endpoint,
	url: &str,
	data_builder: &F,
	content_type: &str,
	accept: &str,
) -> Result<ValidHttpResponse, HttpError>
where
	F: Fn(&str, &str) -> Result<String, Error>,
  requires forall |a: &str, b: &str| data_builder.requires((a, b)),
{
	let client = get_client(&endpoint.root_certificates)?;
	if endpoint.nonce.is_none() {
		let _ = new_nonce(endpoint).await;
	}
	for _ in 0..crate::DEFAULT_HTTP_FAIL_NB_RETRY {
		let mut request = client.post(url);
		request = request.header(header::ACCEPT, accept);
		request = request.header(header::CONTENT_TYPE, content_type);
		let nonce = &endpoint.nonce.clone().unwrap_or_default();
		let body = data_builder(nonce, url)?;
		rate_limit(endpoint).await;
		log::trace!("POST request body: {body}");
		let response = request.body(body).send().await?;
		update_nonce(endpoint, &response)?;
		match check_status(&response) {
			Ok(_) => {
				return ValidHttpResponse::from_response(response)
					.await
					.map_err(HttpError::from);
			}
			Err(_) => {
				let resp = ValidHttpResponse::from_response(response).await?;
				let api_err = resp.json::<HttpApiError>()?;
				let acme_err = api_err.get_acme_type();
				if !acme_err.is_recoverable() {
					return Err(api_err.into());
				}
			}
		}
		thread::sleep(time::Duration::from_secs(crate::DEFAULT_HTTP_FAIL_WAIT_SEC));
	}
	Err("too much errors, will not retry".into())
}

}
}
fn main() {}
