use vstd::prelude::*;
verus! {

pub tracked struct World { pub ghost sends: nat, pub ghost permit: bool, pub ghost last_body: Seq<char> }

pub struct Endpoint { pub nonce: Option<String> }

#[verifier::external_body]
fn rate_limit(endpoint: &mut Endpoint, Tracked(w): Tracked<&mut World>)
   ensures final(endpoint).nonce == old(endpoint).nonce,
           final(w).sends == old(w).sends, final(w).permit, final(w).last_body == old(w).last_body
{ }

#[verifier::external_body]
fn send(body: String, Tracked(w): Tracked<&mut World>) -> (r: Result<u8, u8>)
   requires old(w).permit
   ensures final(w).sends == old(w).sends + 1, !final(w).permit, final(w).last_body == body@
{ Ok(0) }

pub fn post(endpoint: &mut Endpoint, Tracked(w): Tracked<&mut World>) -> (r: Result<u8, u8>)
   ensures final(w).sends <= old(w).sends + 3,
           r is Ok ==> final(w).sends > old(w).sends,
{
    for i in 0..3usize
       invariant w.sends <= old(w).sends + i
    {
        let body = format!("{}.{}", "a", "b");
        rate_limit(endpoint, Tracked(&mut *w));
        let r = send(body, Tracked(&mut *w));
        match r { Ok(x) => { return Ok(x); } Err(_) => {} }
    }
    Err(1)
}

} // verus!
fn main() {}
