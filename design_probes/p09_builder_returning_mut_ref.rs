use vstd::prelude::*;
verus! {
pub struct OpenOptions { pub mode: u32, pub write: bool, pub create: bool, pub truncate: bool }
impl OpenOptions {
    #[verifier::external_body]
    pub fn new() -> (r: OpenOptions) ensures r == (OpenOptions { mode: 0o666, write: false, create: false, truncate: false }) { unimplemented!() }
    #[verifier::external_body]
    pub fn mode(&mut self, m: u32) -> (r: &mut OpenOptions)
        ensures *final(self) == (OpenOptions { mode: m, ..*final(r) }),
                *r == (OpenOptions { mode: m, ..*old(self) }),
    { unimplemented!() }
    #[verifier::external_body]
    pub fn write(&mut self, b: bool) -> (r: &mut OpenOptions)
        ensures *final(self) == *final(r),
                *r == (OpenOptions { write: b, ..*old(self) }),
    { unimplemented!() }
    #[verifier::external_body]
    pub fn truncate(&mut self, b: bool) -> (r: &mut OpenOptions)
        ensures *final(self) == *final(r),
                *r == (OpenOptions { truncate: b, ..*old(self) }),
    { unimplemented!() }
    #[verifier::external_body] pub fn open(&self) -> (r: bool) ensures r == self.truncate { unimplemented!() }
}

fn test() -> (r: bool) ensures r == true {
    let mut options = OpenOptions::new();
    options.mode(0o600);
    assert(options.truncate == false);
    let t = options.write(true).truncate(true).open();
    t
}
fn test2() -> (r: bool) ensures r == false {
    let mut options = OpenOptions::new();
    options.mode(0o600);
    let t = options.write(true).open();
    t
}
}
fn main() {}
