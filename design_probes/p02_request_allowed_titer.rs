use vstd::prelude::*;
use std::time::{Duration, Instant};
verus! {

#[verifier::external_type_specification]
#[verifier::external_body]
pub struct ExInstant(Instant);

pub uninterp spec fn inst(i: Instant) -> int;
pub uninterp spec fn dur_nanos(d: Duration) -> nat;

pub assume_specification [std::time::Instant::now] () -> (r: std::time::Instant);
pub assume_specification [std::time::Instant::checked_sub] (i: &std::time::Instant, d: std::time::Duration) -> (r: std::option::Option<std::time::Instant>)
  ensures r matches Some(x) ==> inst(x) == inst(*i) - dur_nanos(d);

#[verifier::external_body]
fn count_gt(v: &Vec<Instant>, m: Instant) -> (r: usize)
  ensures r == v@.filter(|x: Instant| inst(x) > inst(m)).len()
{ unimplemented!() }

pub struct RateLimit {
    limits: Vec<(usize, Duration)>,
    query_log: Vec<Instant>,
}

impl RateLimit {
	fn request_allowed(&self) -> bool {
		for (max_allowed, duration) in self.limits.iter() {
			match Instant::now().checked_sub(*duration) {
				Some(max_date) => {
					let nb_req = count_gt(&self.query_log, max_date);
					if nb_req >= *max_allowed {
						return false;
					}
				}
				None => {
					return false;
				}
			};
		}
		true
	}
}

} // verus!
fn main() {}
