#![allow(unused_imports, dead_code, unused_variables)]
use vstd::prelude::*;
use std::collections::HashSet;
verus! {

pub assume_specification<T: std::clone::Clone> [<T as std::borrow::ToOwned>::to_owned] (x: &T) -> (r: T)
   ensures r == *x;

#[derive(Debug)]
pub struct Error { pub message: String }
impl vstd::std_specs::convert::FromSpecImpl<String> for Error {
    open spec fn obeys_from_spec() -> bool { false }
    open spec fn from_spec(e: String) -> Self { arbitrary() }
}
impl From<String> for Error { #[verifier::external_body] fn from(e: String) -> Self { Error { message: e } } }

pub mod hooks {
    use vstd::prelude::*;
    verus!{
    pub enum HookStdin { File(String), Str(String), None }
    pub struct Hook {
        pub name: String,
        pub hook_type: Ghost<int>,
        pub cmd: String,
        pub args: Option<Vec<String>>,
        pub stdin: HookStdin,
        pub stdout: Option<String>,
        pub stderr: Option<String>,
        pub allow_failure: bool,
    }
    }
}

pub struct Hook {
	pub allow_failure: Option<bool>,
	pub args: Option<Vec<String>>,
	pub cmd: String,
	pub name: String,
	pub stderr: Option<String>,
	pub stdin: Option<String>,
	pub stdin_str: Option<String>,
	pub stdout: Option<String>,
}
pub struct Group {
	pub hooks: Vec<String>,
	pub name: String,
}
pub struct Config { pub hook: Vec<Hook>, pub group: Vec<Group> }

pub const DEFAULT_HOOK_ALLOW_FAILURE: bool = false;

#[verifier::external_body]
fn get_stdin(hook: &Hook) -> Result<hooks::HookStdin, Error> { unimplemented!() }

impl Config {
	pub fn get_hook(&self, name: &str) -> Result<Vec<hooks::Hook>, Error> {
		for hook in self.hook.iter() {
			if name == hook.name {
				let h = hooks::Hook {
					name: hook.name.to_owned(),
					hook_type: Ghost(0),
					cmd: hook.cmd.to_owned(),
					args: hook.args.to_owned(),
					stdin: get_stdin(hook)?,
					stdout: hook.stdout.to_owned(),
					stderr: hook.stderr.to_owned(),
					allow_failure: hook
						.allow_failure
						.unwrap_or(crate::DEFAULT_HOOK_ALLOW_FAILURE),
				};
				return Ok(vec![h]);
			}
		}
		for grp in self.group.iter() {
			if name == grp.name {
				let mut ret = vec![];
				for hook_name in grp.hooks.iter() {
					let mut h = self.get_hook(hook_name)?;
					ret.append(&mut h);
				}
				return Ok(ret);
			}
		}
		Err(format!("{name}: hook not found").into())
	}
}

} // verus!
fn main() {}
