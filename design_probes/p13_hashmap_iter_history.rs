use vstd::prelude::*;
use std::collections::HashMap;
verus! {
broadcast use vstd::std_specs::hash::group_hash_axioms;

pub assume_specification<T: std::clone::Clone> [<T as std::borrow::ToOwned>::to_owned] (x: &T) -> (r: T)
   ensures r == *x;

// trusted: String's Hash/Eq are lawful
#[verifier::external_body]
proof fn axiom_string_key_model() ensures vstd::std_specs::hash::obeys_key_model::<String>() {}

fn merge(dst: &mut HashMap<String, String>, env: &HashMap<String, String>)
    ensures final(dst)@ == old(dst)@.union_prefer_right(env@)
{
    proof { axiom_string_key_model(); }
    let ghost d0 = dst@;
    let it = env.iter();
    for (key, value) in iter: it
        invariant
            vstd::std_specs::hash::obeys_key_model::<String>(),
            forall |k: String| #[trigger] dst@.contains_key(k) <==> (d0.contains_key(k) || exists |i: int| 0 <= i < iter.history.len() && *iter.history[i].0 == k),
    {
        dst.insert(key.to_owned(), value.to_owned());
    }
}
}
fn main() {}
