use vstd::prelude::*;
use vstd::string::*;
verus! {

pub trait VDisplay {
    spec fn dspec(&self) -> Seq<char>;
    fn vdisp(&self) -> (r: String) ensures r@ == self.dspec();
}
impl VDisplay for String {
    open spec fn dspec(&self) -> Seq<char> { self@ }
    #[verifier::external_body]
    fn vdisp(&self) -> (r: String) { self.clone() }
}
impl VDisplay for &str {
    open spec fn dspec(&self) -> Seq<char> { self@ }
    #[verifier::external_body]
    fn vdisp(&self) -> (r: String) { self.to_string() }
}

#[verifier::external_body]
pub fn vcat(a: String, b: String) -> (r: String) ensures r@ == a@ + b@ { a + &b }
#[verifier::external_body]
pub fn vlit(s: &'static str) -> (r: String) ensures r@ == s@ { s.to_string() }

pub struct TC { pub token: String }

#[verifier::external_body]
fn b64(x: &str) -> (r: String) ensures r@ == b64_spec(x@) { unimplemented!() }
pub uninterp spec fn b64_spec(s: Seq<char>) -> Seq<char>;

fn key_authorization(tc: &TC, thumb: &str) -> (r: String)
    ensures r@ == tc.token@ + "."@ + b64_spec(thumb@)
{
    let thumbprint = b64(thumb);
    // format!("{}.{thumbprint}", self.token)  ==T-FMT==>
    let auth = vcat(vcat(tc.token.vdisp(), vlit(".")), thumbprint.vdisp());
    auth
}

#[derive(Clone, Copy)]
pub enum Challenge { Http01, Dns01, TlsAlpn01 }
pub open spec fn challenge_name(c: Challenge) -> Seq<char> {
    match c { Challenge::Http01 => "http-01"@, Challenge::Dns01 => "dns-01"@, Challenge::TlsAlpn01 => "tls-alpn-01"@ }
}
pub struct VFormatter { pub buf: String }
#[verifier::external_body]
pub fn vwrite(f: &mut VFormatter, s: String) -> (r: Result<(), ()>) ensures final(f).buf@ == old(f).buf@ + s@, r is Ok { Ok(()) }

// impl fmt::Display for Challenge { fn fmt(&self, f) { let s = match ...; write!(f, "{s}") } }
fn challenge_fmt(c: &Challenge, f: &mut VFormatter) -> (r: Result<(), ()>)
    ensures final(f).buf@ == old(f).buf@ + challenge_name(*c)
{
    let s = match c {
        Challenge::Http01 => "http-01",
        Challenge::Dns01 => "dns-01",
        Challenge::TlsAlpn01 => "tls-alpn-01",
    };
    vwrite(f, s.vdisp())
}

}
fn main() {}
