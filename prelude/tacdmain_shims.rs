// Trusted model for tacd/src/main.rs: clap's ArgMatches, the input sources, anyhow, and the contracts of the functions
// init hands its values to (to_idna: unit idna; from_acme_ext: unit x509; start: unit tacd).
pub mod anyhow {
    use vstd::prelude::*;
    verus! {
    #[derive(Debug)]
    pub struct Error { pub x: u8 }
    pub type Result<T> = std::result::Result<T, Error>;
    // anyhow!(e)  (rule T-ANYHOW)
    #[verifier::external_body]
    pub fn from_err<E>(e: E) -> Error { unimplemented!() }
    impl vstd::std_specs::convert::FromSpecImpl<crate::shims::IoError> for Error {
        open spec fn obeys_from_spec() -> bool { false }
        open spec fn from_spec(e: crate::shims::IoError) -> Self { arbitrary() }
    }
    impl From<crate::shims::IoError> for Error { #[verifier::external_body] fn from(e: crate::shims::IoError) -> Self { unimplemented!() } }
    }
}
pub mod shims {
    use vstd::prelude::*;
    use crate::anyhow::Result;
    verus! {
    #[derive(Debug)]
    pub struct IoError { pub x: u8 }
    pub struct CommonError { pub message: String }
    // ---- clap::ArgMatches: the command line as a map from option names to the value given (or defaulted)
    pub struct ArgMatches { pub x: u8 }
    pub uninterp spec fn arg_of(m: ArgMatches, name: Seq<char>) -> Option<String>;
    pub uninterp spec fn flag_of(m: ArgMatches, name: Seq<char>) -> bool;
    impl ArgMatches {
        // get_one::<String>(name)
        #[verifier::external_body]
        pub fn get_one_string(&self, name: &str) -> (r: Option<&String>)
            ensures match r { Some(s) => arg_of(*self, name@) == Some(*s), None => arg_of(*self, name@) is None } { unimplemented!() }
        #[verifier::external_body]
        pub fn get_flag(&self, name: &str) -> (r: bool) ensures r == flag_of(*self, name@) { unimplemented!() }
    }
    // O.map(|e| e.as_str())
    #[verifier::external_body]
    pub fn opt_as_str<'a>(o: Option<&'a String>) -> (r: Option<&'a str>)
        ensures match r { Some(s) => o matches Some(t) && s@ == t@, None => o is None } { unimplemented!() }
    // ---- the input sources: the content of a file, and the lines of the standard input that have not been read yet.
    // The standard input is a stream shared by every reader of the process: a line taken from it, by a direct read or
    // into the buffer of a BufReader, is gone for the others.
    pub uninterp spec fn file_text(path: Seq<char>) -> Seq<char>;
    pub tracked struct World {
        pub ghost stdin: Seq<Seq<char>>,   // the lines (each with its end of line) still to come
    }
    pub open spec fn first_line(l: Seq<Seq<char>>) -> Seq<char> { if l.len() > 0 { l[0] } else { Seq::empty() } }
    pub open spec fn after_first(l: Seq<Seq<char>>) -> Seq<Seq<char>> { if l.len() > 0 { l.skip(1) } else { l } }
    pub struct File { pub path: Ghost<Seq<char>> }
    impl File {
        #[verifier::external_body]
        pub fn open(p: &String) -> (r: std::result::Result<File, IoError>) ensures r matches Ok(f) ==> f.path@ == p@ { unimplemented!() }
        // Read::read_to_string: the whole content is appended
        #[verifier::external_body]
        pub fn read_to_string(&mut self, buf: &mut String) -> (r: std::result::Result<usize, IoError>)
            ensures r is Ok ==> final(buf)@ == old(buf)@ + file_text(old(self).path@), final(self).path == old(self).path { unimplemented!() }
    }
    pub struct Stdin { pub x: u8 }
    pub mod io {
        use vstd::prelude::*;
        verus! {
        pub use super::BufReader;
        #[verifier::external_body]
        pub fn stdin() -> super::Stdin { unimplemented!() }
        }
    }
    impl Stdin {
        // Stdin::read_line: exactly the next line is taken from the stream and appended (nothing at end of input)
        #[verifier::external_body]
        pub fn read_line(&self, buf: &mut String, Tracked(w): Tracked<&mut World>) -> (r: std::result::Result<usize, IoError>)
            ensures r is Ok ==> final(buf)@ == old(buf)@ + first_line(old(w).stdin) && final(w).stdin == after_first(old(w).stdin),
                    r is Err ==> final(w).stdin == old(w).stdin { unimplemented!() }
    }
    // Stdin::lock(): the same shared stream (the process-wide buffer), so nothing is lost between two readers
    pub struct StdinLock { pub x: u8 }
    impl Stdin {
        #[verifier::external_body]
        pub fn lock(&self) -> StdinLock { unimplemented!() }
    }
    impl StdinLock {
        #[verifier::external_body]
        pub fn read_line(&mut self, buf: &mut String, Tracked(w): Tracked<&mut World>) -> (r: std::result::Result<usize, IoError>)
            ensures r is Ok ==> final(buf)@ == old(buf)@ + first_line(old(w).stdin) && final(w).stdin == after_first(old(w).stdin),
                    r is Err ==> final(w).stdin == old(w).stdin { unimplemented!() }
    }
    // BufReader over the standard input: what it has taken from the stream and not handed out yet stays in ITS buffer
    // (lost to every other reader, and lost for good when the BufReader is dropped). How much a fill takes is not specified:
    // at least the line asked for, possibly everything that is there.
    pub struct BufReader<R> { pub inner: R, pub buffered: Ghost<Seq<Seq<char>>> }
    impl BufReader<Stdin> {
        #[verifier::external_body]
        pub fn new(inner: Stdin) -> (r: Self) ensures r.buffered@.len() == 0 { unimplemented!() }
        #[verifier::external_body]
        pub fn read_line(&mut self, buf: &mut String, Tracked(w): Tracked<&mut World>) -> (r: std::result::Result<usize, IoError>)
            ensures
                r is Ok && old(self).buffered@.len() > 0 ==> final(buf)@ == old(buf)@ + old(self).buffered@[0]
                    && final(self).buffered@ == old(self).buffered@.skip(1) && final(w).stdin == old(w).stdin,
                r is Ok && old(self).buffered@.len() == 0 ==> final(buf)@ == old(buf)@ + first_line(old(w).stdin),
                r is Ok && old(self).buffered@.len() == 0 && old(w).stdin.len() == 0 ==> final(w).stdin == old(w).stdin && final(self).buffered@.len() == 0,
                r is Ok && old(self).buffered@.len() == 0 && old(w).stdin.len() > 0 ==>
                    (exists|k: int| 1 <= k <= old(w).stdin.len() && final(w).stdin == old(w).stdin.skip(k)
                            && final(self).buffered@ == old(w).stdin.subrange(1, k)),
                r is Err ==> final(w).stdin == old(w).stdin
        { unimplemented!() }
    }
    pub mod acme_common {
        use vstd::prelude::*;
        verus! {
        #[verifier::external_body]
        pub fn init_server(foreground: bool, pid_file: Option<&str>) { unimplemented!() }
        // acme_common::to_idna (verified in unit idna: every label lower-cased, non-ASCII labels as xn-- A-labels)
        pub uninterp spec fn idna_spec(s: Seq<char>) -> Option<Seq<char>>;
        #[verifier::external_body]
        pub fn to_idna(domain_name: &str) -> (r: std::result::Result<String, super::CommonError>)
            ensures match r { Ok(s) => idna_spec(domain_name@) == Some(s@), Err(_) => idna_spec(domain_name@) is None } { unimplemented!() }
        }
    }
    pub mod crypto {
        use vstd::prelude::*;
        verus! {
        #[derive(Clone, Copy)]
        pub struct KeyType { pub id: u8 }
        #[derive(Clone, Copy)]
        pub struct HashFunction { pub id: u8 }
        pub uninterp spec fn key_type_named(s: Seq<char>) -> Option<KeyType>;
        pub uninterp spec fn hash_named(s: Seq<char>) -> Option<HashFunction>;
        pub struct KeyPair { pub key_type: KeyType, pub id: Ghost<int> }
        // what the responder certificate says (proved for from_acme_ext in unit x509)
        pub struct X509Certificate { pub domain: Ghost<Seq<char>>, pub ext: Ghost<Seq<char>>, pub key: Ghost<int>, pub digest: Ghost<HashFunction> }
        impl X509Certificate {
            #[verifier::external_body]
            pub fn from_acme_ext(domain: &str, acme_ext: &str, key_type: KeyType, digest: HashFunction) -> (r: std::result::Result<(KeyPair, X509Certificate), super::CommonError>)
                ensures r matches Ok(t) ==> t.0.key_type == key_type && t.1.domain@ == domain@ && t.1.ext@ == acme_ext@ && t.1.key@ == t.0.id@ && t.1.digest@ == digest
            { unimplemented!() }
        }
        }
    }
    // S.parse() into a key type / a hash function (rule T-PARSE): the FromStr tables of acme_common
    pub trait FromName: Sized { spec fn named(s: Seq<char>) -> Option<Self>; }
    impl FromName for crypto::KeyType { open spec fn named(s: Seq<char>) -> Option<Self> { crypto::key_type_named(s) } }
    impl FromName for crypto::HashFunction { open spec fn named(s: Seq<char>) -> Option<Self> { crypto::hash_named(s) } }
    #[verifier::external_body]
    pub fn parse_named<T: FromName>(s: &String) -> (r: std::result::Result<T, CommonError>)
        ensures match r { Ok(v) => T::named(s@) == Some(v), Err(_) => T::named(s@) is None } { unimplemented!() }
    }
}
