// Helpers for the closed list of iterator idioms (rule T-ITER); std semantics, assumed.
pub mod titer {
    use vstd::prelude::*;
    verus! {
    // V.iter().filter(C).count()   (rule T-ITER): std semantics, assumed
    #[verifier::external_body]
    pub fn count_filter<T, F: Fn(&&T) -> bool>(v: &Vec<T>, f: F) -> (r: usize)
        requires forall|x: &&T| f.requires((x,))
        ensures forall|p: spec_fn(T) -> bool| (forall|t: T, b: bool| #[trigger] f.ensures((&&t,), b) ==> b == p(t))
                    ==> r == (#[trigger] v@.filter(p)).len()
    { v.iter().filter(f).count() }
    // V.sort_by(|a, b| a.1.partial_cmp(&b.1).unwrap())  on Vec<(usize, Duration)>  (rule T-ITER): a
    // permutation, ascending by the second component; assumed
    #[verifier::external_body]
    pub fn sort_by_duration_asc(v: &mut Vec<(usize, std::time::Duration)>)
        ensures final(v)@.len() == old(v)@.len(),
            forall|i: int| 0 <= i < final(v)@.len() ==> old(v)@.contains(#[trigger] final(v)@[i]),
            forall|i: int| 0 <= i < old(v)@.len() ==> final(v)@.contains(#[trigger] old(v)@[i]),
            forall|i: int, j: int| 0 <= i <= j < final(v)@.len() ==> crate::dur(final(v)@[i].1) <= crate::dur(final(v)@[j].1),
    { v.sort_by(|a, b| a.1.partial_cmp(&b.1).unwrap()) }
    // the same with the comparator's operands swapped: descending
    #[verifier::external_body]
    pub fn sort_by_duration_desc(v: &mut Vec<(usize, std::time::Duration)>)
        ensures final(v)@.len() == old(v)@.len(),
            forall|i: int| 0 <= i < final(v)@.len() ==> old(v)@.contains(#[trigger] final(v)@[i]),
            forall|i: int| 0 <= i < old(v)@.len() ==> final(v)@.contains(#[trigger] old(v)@[i]),
            forall|i: int, j: int| 0 <= i <= j < final(v)@.len() ==> crate::dur(final(v)@[i].1) >= crate::dur(final(v)@[j].1),
    { v.sort_by(|a, b| b.1.partial_cmp(&a.1).unwrap()) }
    // V.dedup_by_key(|e| e.1)  (rule T-ITER): of each run of consecutive elements with the same period, the first is kept
    pub open spec fn dedup_dur(s: Seq<(usize, std::time::Duration)>) -> Seq<(usize, std::time::Duration)>
        decreases s.len()
    {
        if s.len() <= 1 { s } else {
            let r = dedup_dur(s.drop_last());
            if r.len() > 0 && crate::dur(r.last().1) == crate::dur(s.last().1) { r } else { r.push(s.last()) }
        }
    }
    #[verifier::external_body]
    pub fn dedup_by_duration(v: &mut Vec<(usize, std::time::Duration)>)
        ensures final(v)@ == dedup_dur(old(v)@)
    { v.dedup_by_key(|e| e.1) }
    // V.retain(C)   (rule T-ITER): std semantics, assumed
    #[verifier::external_body]
    pub fn retain<T, F: FnMut(&T) -> bool>(v: &mut Vec<T>, f: F)
        requires forall|x: &T| f.requires((x,))
        ensures forall|p: spec_fn(T) -> bool| (forall|t: T, b: bool| #[trigger] f.ensures((&t,), b) ==> b == p(t))
                    ==> final(v)@ == #[trigger] old(v)@.filter(p)
    { v.retain(f) }
    }
}
