// Helpers for HashSet<String> idioms (rule T-ITER); std semantics, assumed.  Sets of strings are seen
// through `strset` (the set of their texts).
pub mod titer3 {
    use vstd::prelude::*;
    use std::collections::HashSet;
    use crate::acme_common::crypto::strset;
    verus! {
    // V.iter().map(F).collect::<HashSet<String>>()
    #[verifier::external_body]
    pub fn collect_strings<T, F: Fn(&T) -> String>(v: &Vec<T>, f: F) -> (r: HashSet<String>)
        requires forall|x: &T| f.requires((x,))
        ensures forall|p: spec_fn(T) -> Seq<char>| (forall|t: T, s: String| #[trigger] f.ensures((&t,), s) ==> s@ == p(t))
                    ==> strset(r) == (#[trigger] v@.map_values(p)).to_set()
    { v.iter().map(f).collect() }
    // A.difference(&B).count()
    #[verifier::external_body]
    pub fn difference_count(a: &HashSet<String>, b: &HashSet<String>) -> (r: usize)
        ensures r == strset(*a).difference(strset(*b)).len(), strset(*a).finite()
    { a.difference(b).count() }
    }
}
