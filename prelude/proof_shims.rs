// Trusted model of what acme_proto/structs/authorization.rs uses: SHA-256, base64url, JSON text of a JWK, number formatting.
pub mod vproof {
    use vstd::prelude::*;
    verus! {
    pub uninterp spec fn utf8(s: Seq<char>) -> Seq<u8>;
    pub uninterp spec fn b64url(b: Seq<u8>) -> Seq<char>;
    pub uninterp spec fn sha256(b: Seq<u8>) -> Seq<u8>;
    pub uninterp spec fn hex_colon(b: Seq<u8>) -> Seq<char>;      // two lower-case hex digits per byte, joined by ':'
    pub uninterp spec fn dec(n: nat) -> Seq<char>;                // `{}` of an unsigned integer
    pub uninterp spec fn hex2(n: nat) -> Seq<char>;               // `{:02x}` of an unsigned integer
    // three values of the formatting functions that RFC 8737's extension text needs
    #[verifier::external_body]
    pub proof fn axiom_number_texts() ensures dec(31) == "31"@, hex2(4) == "04"@, hex2(32) == "20"@ {}
    #[verifier::external_body]
    pub proof fn axiom_sha256_len(b: Seq<u8>) ensures sha256(b).len() == 32 {}
    pub struct KeyPair { pub id: Ghost<int> }
    pub struct Value { pub id: Ghost<int> }
    // the RFC 7638 thumbprint input of a key: its required JWK members, sorted, no whitespace (proved in unit `keys` up to serialisation)
    pub uninterp spec fn thumbprint_json(k: KeyPair) -> Seq<char>;
    impl KeyPair {
        #[verifier::external_body]
        pub fn jwk_public_key_thumbprint(&self) -> (r: Result<Value, crate::acme_common::error::Error>)
            ensures r matches Ok(v) ==> json_text(v) == thumbprint_json(*self) { unimplemented!() }
    }
    // the full public JWK (with alg / use members): another text than the thumbprint input
    pub uninterp spec fn public_jwk_json(k: KeyPair) -> Seq<char>;
    impl KeyPair {
        #[verifier::external_body]
        pub fn jwk_public_key(&self) -> (r: Result<Value, crate::acme_common::error::Error>)
            ensures r matches Ok(v) ==> json_text(v) == public_jwk_json(*self) { unimplemented!() }
    }
    pub uninterp spec fn json_text(v: Value) -> Seq<char>;
    impl Value {
        #[verifier::external_body]
        pub fn to_string(&self) -> (r: String) ensures r@ == json_text(*self) { unimplemented!() }
    }
    pub enum HashFunction { Sha256, Sha384, Sha512 }
    impl HashFunction {
        #[verifier::external_body]
        pub fn hash(&self, data: &[u8]) -> (r: Vec<u8>) ensures self is Sha256 ==> r@ == sha256(data@) { unimplemented!() }
    }
    #[verifier::external_body]
    pub fn str_as_bytes(s: &str) -> (r: &[u8]) ensures r@ == utf8(s@) { unimplemented!() }
    #[verifier::external_body]
    pub fn b64_encode_bytes(input: &Vec<u8>) -> (r: String) ensures r@ == b64url(input@) { unimplemented!() }
    #[verifier::external_body]
    pub fn cat2(a: &str, b: &str) -> (r: String) ensures r@ == a@ + b@ { unimplemented!() }
    #[verifier::external_body]
    pub fn fmt_dec(n: usize) -> (r: String) ensures r@ == dec(n as nat) { unimplemented!() }
    #[verifier::external_body]
    pub fn fmt_hex2(n: usize) -> (r: String) ensures r@ == hex2(n as nat) { unimplemented!() }
    // V.iter().map(|e| format!("{e:02x}")).collect::<Vec<String>>().join(":")
    #[verifier::external_body]
    pub fn hex_colon_join(v: &Vec<u8>) -> (r: String) ensures r@ == hex_colon(v@) { unimplemented!() }
    // bytes rendered with another per-byte format / separator: nothing is known about the text
    pub uninterp spec fn fmt_join_spec(b: Seq<u8>, f: Seq<char>, sep: Seq<char>) -> Seq<char>;
    #[verifier::external_body]
    pub fn fmt_join(v: &Vec<u8>, f: &str, sep: &str) -> (r: String) ensures r@ == fmt_join_spec(v@, f@, sep@) { unimplemented!() }
    }
}
