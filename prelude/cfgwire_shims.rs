// Trusted model for the configuration -> run-time wiring of config.rs (unit cfgwire): the enumerations configuration texts are
// parsed into, the constructors of the run-time objects (verified in units ident / account / acctstore), a map type.
pub mod shims {
    use vstd::prelude::*;
    use crate::acme_common::error::Error;
    verus! {
    // ---- enumerations (acme_common::crypto, acme_proto); their FromStr tables are verified in unit texts
    #[derive(Clone, Copy, PartialEq, Eq)]
    pub enum KeyType { Rsa2048, Rsa4096, EcdsaP256, EcdsaP384, EcdsaP521, Ed25519, Ed448 }
    #[derive(Clone, Copy, PartialEq, Eq)]
    pub enum HashFunction { Sha256, Sha384, Sha512 }
    #[derive(Clone, Copy, PartialEq, Eq)]
    pub enum JwsSignatureAlgorithm { Hs256, Hs384, Hs512, Rs256, Es256, Es384, Es512, Ed25519, Ed448 }
    #[derive(Clone, Copy, PartialEq, Eq)]
    pub enum IdentifierType { Dns, Ip }
    #[derive(Clone, Copy, PartialEq, Eq)]
    pub enum SubjectAttribute { CountryName, GenerationQualifier, GivenName, Initials, LocalityName, Name, OrganizationName,
        OrganizationalUnitName, Pkcs9EmailAddress, PostalAddress, PostalCode, StateOrProvinceName, Street, Surname, Title }
    // ---- serde: what a hand-written `impl Deserialize` sees of it
    pub trait Deserializer<'de>: Sized { type Error: de::Error; }
    pub trait Deserialize<'de>: Sized { fn deserialize<D: Deserializer<'de>>(deserializer: D) -> Result<Self, D::Error>; }
    pub mod de {
        use vstd::prelude::*;
        verus! {
        pub trait Error: Sized { fn custom(msg: &str) -> Self; }
        }
    }
    // [A, B].iter().copied().map(u8::from).sum(): how many of the two are true (rule T-ITER)
    pub fn count_true2(a: bool, b: bool) -> (r: u8) ensures r == (if a { 1int } else { 0int }) + (if b { 1int } else { 0int })
    { (if a { 1u8 } else { 0u8 }) + (if b { 1u8 } else { 0u8 }) }
    // S.parse::<T>() for these types: the name tables (uninterpreted here)
    pub trait Named: Sized { spec fn named(s: Seq<char>) -> Option<Self>; }
    pub uninterp spec fn key_type_named(s: Seq<char>) -> Option<KeyType>;
    pub uninterp spec fn hash_named(s: Seq<char>) -> Option<HashFunction>;
    pub uninterp spec fn jwa_named(s: Seq<char>) -> Option<JwsSignatureAlgorithm>;
    impl Named for KeyType { open spec fn named(s: Seq<char>) -> Option<Self> { key_type_named(s) } }
    impl Named for HashFunction { open spec fn named(s: Seq<char>) -> Option<Self> { hash_named(s) } }
    impl Named for JwsSignatureAlgorithm { open spec fn named(s: Seq<char>) -> Option<Self> { jwa_named(s) } }
    // S.parse()   (rule T-PARSE)
    #[verifier::external_body]
    pub fn parse_named<T: Named>(s: &String) -> (r: Result<T, Error>)
        ensures match r { Ok(v) => T::named(s@) == Some(v), Err(_) => T::named(s@) is None } { unimplemented!() }
    #[verifier::external]
    impl std::fmt::Display for JwsSignatureAlgorithm { fn fmt(&self, f: &mut std::fmt::Formatter) -> std::fmt::Result { Ok(()) } }
    // acme_common::b64_decode (URL-safe, no padding)
    pub uninterp spec fn b64_dec(s: Seq<char>) -> Option<Seq<u8>>;
    #[verifier::external_body]
    pub fn b64_decode(input: &String) -> (r: Result<Vec<u8>, Error>)
        ensures match r { Ok(v) => b64_dec(input@) == Some(v@), Err(_) => b64_dec(input@) is None } { unimplemented!() }
    // ---- a map (std::collections::HashMap as far as this code uses it)
    #[verifier::external_body]
    #[verifier::reject_recursive_types(K)]
    #[verifier::reject_recursive_types(V)]
    pub struct HashMap<K, V> { _k: std::marker::PhantomData<(K, V)> }
    impl<K, V> HashMap<K, V> {
        pub uninterp spec fn view(&self) -> Map<K, V>;
        #[verifier::external_body] pub fn new() -> (r: Self) ensures r@ == Map::<K, V>::empty() { unimplemented!() }
        #[verifier::external_body] pub fn insert(&mut self, k: K, v: V) -> (r: Option<V>) ensures final(self)@ == old(self)@.insert(k, v) { unimplemented!() }
    }
    // V.iter().map(F).collect()   (rule T-ITER): element by element, in order
    #[verifier::external_body]
    pub fn map_collect<T, U, F: Fn(&T) -> U>(v: &Vec<T>, f: F) -> (r: Vec<U>)
        requires forall|i: int| 0 <= i < v@.len() ==> f.requires((&#[trigger] v@[i],))
        ensures r@.len() == v@.len(), forall|i: int| 0 <= i < v@.len() ==> f.ensures((&v@[i],), #[trigger] r@[i]) { unimplemented!() }
    pub struct FileManager { pub x: Ghost<int> }
    }
}
pub mod identifier {
    use vstd::prelude::*;
    use crate::acme_common::error::Error;
    use crate::shims::{HashMap, IdentifierType};
    verus! {
    // crate::identifier::Identifier::new (verified in unit ident): the run-time identifier is a function of what it is built from
    pub struct Identifier { pub x: Ghost<int> }
    pub uninterp spec fn ident_new(t: IdentifierType, value: Seq<char>, challenge: Seq<char>, env: HashMap<String, String>) -> Option<Identifier>;
    impl Identifier {
        #[verifier::external_body]
        pub fn new(id_type: IdentifierType, value: &str, challenge: &str, env: &HashMap<String, String>) -> (r: Result<Identifier, Error>)
            ensures match r { Ok(i) => ident_new(id_type, value@, challenge@, *env) == Some(i), Err(_) => ident_new(id_type, value@, challenge@, *env) is None } { unimplemented!() }
    }
    }
}
pub mod account {
    use vstd::prelude::*;
    use crate::acme_common::error::Error;
    use crate::shims::{FileManager, JwsSignatureAlgorithm};
    verus! {
    pub struct ExternalAccount { pub identifier: String, pub key: Vec<u8>, pub signature_algorithm: JwsSignatureAlgorithm }
    // what Account::load (verified in unit acctstore / account) is given: the account comes out in step with exactly these
    pub ghost struct LoadArgs { pub fm: FileManager, pub name: Seq<char>, pub contacts: Seq<(Seq<char>, Seq<char>)>, pub key_type: Option<Seq<char>>,
        pub signature_algorithm: Option<Seq<char>>, pub external_account: Option<ExternalAccount> }
    pub struct Account { pub loaded: Ghost<LoadArgs> }
    pub open spec fn opt_text(o: Option<String>) -> Option<Seq<char>> { match o { Some(s) => Some(s@), None => None } }
    pub open spec fn pairs_text(c: Seq<(String, String)>) -> Seq<(Seq<char>, Seq<char>)> { c.map_values(|p: (String, String)| (p.0@, p.1@)) }
    impl Account {
        #[verifier::external_body]
        pub fn load(file_manager: &FileManager, name: &str, contacts: &[(String, String)], key_type: &Option<String>,
                    signature_algorithm: &Option<String>, external_account: &Option<ExternalAccount>) -> (r: Result<Account, Error>)
            ensures r matches Ok(a) ==> a.loaded@ == (LoadArgs { fm: *file_manager, name: name@, contacts: pairs_text(contacts@), key_type: opt_text(*key_type),
                signature_algorithm: opt_text(*signature_algorithm), external_account: *external_account }) { unimplemented!() }
    }
    }
}
