// Trusted model of what the acme_common functions under contract use of OpenSSL and of acme_common::error.
pub mod error {
    use vstd::prelude::*;
    verus! {
    #[derive(Debug)]
    pub struct Error { pub message: String }
    impl vstd::std_specs::convert::FromSpecImpl<crate::openssl::error::ErrorStack> for Error {
        open spec fn obeys_from_spec() -> bool { false }
        open spec fn from_spec(e: crate::openssl::error::ErrorStack) -> Self { arbitrary() }
    }
    impl From<crate::openssl::error::ErrorStack> for Error {
        #[verifier::external_body] fn from(e: crate::openssl::error::ErrorStack) -> Self { unimplemented!() }
    }
    impl<'a> vstd::std_specs::convert::FromSpecImpl<&'a str> for Error {
        open spec fn obeys_from_spec() -> bool { false }
        open spec fn from_spec(e: &'a str) -> Self { arbitrary() }
    }
    impl From<&str> for Error { #[verifier::external_body] fn from(e: &str) -> Self { unimplemented!() } }
    impl vstd::std_specs::convert::FromSpecImpl<String> for Error {
        open spec fn obeys_from_spec() -> bool { false }
        open spec fn from_spec(e: String) -> Self { arbitrary() }
    }
    impl From<String> for Error { #[verifier::external_body] fn from(e: String) -> Self { unimplemented!() } }
    }
}
pub mod openssl {
    pub mod error { use vstd::prelude::*; verus! { #[derive(Debug)] pub struct ErrorStack { pub x: u8 } } }
    pub mod asn1 {
        use vstd::prelude::*;
        use super::error::ErrorStack;
        verus! {
        pub struct Asn1Integer { pub bits: Ghost<i32> }   // a random serial of that many bits
        pub struct Asn1Time { pub t: Ghost<int> }      // seconds since the epoch
        pub type Asn1TimeRef = Asn1Time;
        // openssl::asn1::TimeDiff { days: c_int, secs: c_int }
        pub struct TimeDiff { pub days: i32, pub secs: i32 }
        pub uninterp spec fn wall_now() -> int;
        impl Asn1Time {
            #[verifier::external_body]
            pub fn days_from_now(days: u32) -> (r: Result<Asn1Time, ErrorStack>)
                ensures r matches Ok(t) ==> t.t@ == wall_now() + (days as int) * 86400 { unimplemented!() }
            // ASN1_TIME_diff: days and secs have the same sign, |secs| < 86400, days*86400 + secs = to - from
            #[verifier::external_body]
            pub fn diff(&self, to: &Asn1Time) -> (r: Result<TimeDiff, ErrorStack>)
                ensures r matches Ok(d) ==> (d.days as int) * 86400 + (d.secs as int) == to.t@ - self.t@
                    && -86400 < d.secs < 86400 { unimplemented!() }
        }
        }
    }
    pub mod nid {
        use vstd::prelude::*;
        verus! {
        #[derive(Clone, Copy, PartialEq, Eq, Debug)]
        pub struct Nid { pub id: u32 }
        impl Nid {
            pub const X9_62_PRIME256V1: Nid = Nid { id: 415 };
            pub const SECP384R1: Nid = Nid { id: 715 };
            pub const SECP521R1: Nid = Nid { id: 716 };
            // (further object identifiers of OpenSSL, by their number in obj_mac.h)
            pub const COMMONNAME: Nid = Nid { id: 13 };
            pub const COUNTRYNAME: Nid = Nid { id: 14 };
            pub const LOCALITYNAME: Nid = Nid { id: 15 };
            pub const STATEORPROVINCENAME: Nid = Nid { id: 16 };
            pub const ORGANIZATIONNAME: Nid = Nid { id: 17 };
            pub const ORGANIZATIONALUNITNAME: Nid = Nid { id: 18 };
            pub const PKCS9_EMAILADDRESS: Nid = Nid { id: 48 };
            pub const SUBJECT_ALT_NAME: Nid = Nid { id: 85 };
            pub const GIVENNAME: Nid = Nid { id: 99 };
            pub const SURNAME: Nid = Nid { id: 100 };
            pub const INITIALS: Nid = Nid { id: 101 };
            pub const SERIALNUMBER: Nid = Nid { id: 105 };
            pub const TITLE: Nid = Nid { id: 106 };
            pub const DESCRIPTION: Nid = Nid { id: 107 };
            pub const NAME: Nid = Nid { id: 173 };
            pub const DNQUALIFIER: Nid = Nid { id: 174 };
            pub const DOMAINCOMPONENT: Nid = Nid { id: 391 };
            pub const USERID: Nid = Nid { id: 458 };
            pub const GENERATIONQUALIFIER: Nid = Nid { id: 509 };
            pub const PSEUDONYM: Nid = Nid { id: 510 };
            pub const STREETADDRESS: Nid = Nid { id: 660 };
            pub const POSTALCODE: Nid = Nid { id: 661 };
            pub const POSTALADDRESS: Nid = Nid { id: 861 };
            pub const SECP256K1: Nid = Nid { id: 714 };
        }
        }
    }
    pub mod bn {
        use vstd::prelude::*;
        use super::error::ErrorStack;
        verus! {
        // a non-negative big integer, seen through its minimal big-endian byte string
        pub struct BigNum { pub be: Ghost<Seq<u8>>, pub rand_bits: Ghost<i32> }
        pub struct MsbOption { pub x: u8 }
        impl MsbOption { pub const MAYBE_ZERO: MsbOption = MsbOption { x: 0 }; }
        pub type BigNumRef = BigNum;
        pub struct BigNumContext { pub x: u8 }
        impl BigNumContext { #[verifier::external_body] pub fn new() -> (r: Result<BigNumContext, ErrorStack>) ensures r is Ok { unimplemented!() } }
        pub open spec fn left_pad(b: Seq<u8>, n: int) -> Seq<u8> { Seq::new((n - b.len()) as nat, |i: int| 0u8) + b }
        // Vec::resize_with(n, || 0) on a Vec<u8>  (rule T-ITER)
        #[verifier::external_body]
        pub fn resize_zero(v: &mut Vec<u8>, n: usize)
            ensures final(v)@.len() == n, forall|i: int| 0 <= i < n ==> final(v)@[i] == (if i < old(v)@.len() { old(v)@[i] } else { 0u8 })
        { v.resize_with(n, || 0) }
        impl BigNum {
            #[verifier::external_body]
            pub fn new() -> (r: Result<BigNum, ErrorStack>) ensures r is Ok { unimplemented!() }
            #[verifier::external_body]
            pub fn rand(&mut self, bits: i32, msb: MsbOption, odd: bool) -> (r: Result<(), ErrorStack>)
                ensures r is Ok ==> final(self).rand_bits@ == bits { unimplemented!() }
            #[verifier::external_body]
            pub fn to_asn1_integer(&self) -> (r: Result<super::asn1::Asn1Integer, ErrorStack>)
                ensures r matches Ok(i) ==> i.bits@ == self.rand_bits@ { unimplemented!() }
            // BN_bn2bin: minimal length, big endian
            #[verifier::external_body]
            pub fn to_vec(&self) -> (r: Vec<u8>) ensures r@ == self.be@ { unimplemented!() }
            // BN_bn2binpad: fixed width, error when the number does not fit
            #[verifier::external_body]
            pub fn to_vec_padded(&self, n: i32) -> (r: Result<Vec<u8>, ErrorStack>)
                ensures r matches Ok(v) ==> n >= 0 && self.be@.len() <= n && v@ == left_pad(self.be@, n as int) { unimplemented!() }
        }
        }
    }
    pub mod hash {
        use vstd::prelude::*;
        verus! {
        #[derive(Clone, Copy)]
        pub struct MessageDigest { pub id: u8 }   // 0 = null, 1 = sha256, 2 = sha384, 3 = sha512
        impl MessageDigest {
            #[verifier::external_body] pub fn null() -> (r: MessageDigest) ensures r.id == 0 { unimplemented!() }
            #[verifier::external_body] pub fn sha256() -> (r: MessageDigest) ensures r.id == 1 { unimplemented!() }
            #[verifier::external_body] pub fn sha384() -> (r: MessageDigest) ensures r.id == 2 { unimplemented!() }
            #[verifier::external_body] pub fn sha512() -> (r: MessageDigest) ensures r.id == 3 { unimplemented!() }
        }
        }
    }
    pub mod pkey {
        use vstd::prelude::*;
        use super::error::ErrorStack;
        verus! {
        pub struct Private { pub x: u8 }
        #[derive(PartialEq, Eq, Clone, Copy)]
        pub struct Id { pub id: u8 }
        impl Id {
            pub const RSA: Id = Id { id: 1 };
            pub const EC: Id = Id { id: 2 };
            pub const ED25519: Id = Id { id: 3 };
            pub const ED448: Id = Id { id: 4 };
        }
        // what kind of key this is: (id, RSA modulus size in bytes, EC curve nid)
        pub ghost struct KeyKind { pub id: Id, pub rsa_size: u32, pub curve: Option<super::nid::Nid> }
        pub struct PKey<T> { pub kind: Ghost<KeyKind>, pub ident: Ghost<int>, pub p: Option<T> }
        // PKey::hmac(key): a MAC key; which one is a function of the key bytes
        pub uninterp spec fn hmac_ident(key: Seq<u8>) -> int;
        impl PKey<Private> {
            #[verifier::external_body]
            pub fn hmac(key: &[u8]) -> (r: Result<PKey<Private>, ErrorStack>) ensures r matches Ok(k) ==> k.ident@ == hmac_ident(key@) { unimplemented!() }
        }
        // which (id, size, curve) combinations OpenSSL can hand back for a parsed private key
        pub open spec fn kind_consistent(k: KeyKind) -> bool {
            (k.id == Id::RSA ==> k.curve is None) && (k.id == Id::EC ==> k.rsa_size == 0)
            && (k.id != Id::RSA && k.id != Id::EC ==> k.rsa_size == 0 && k.curve is None)
        }
        // the serialised forms of a private key (functions of the key), and what each reader takes:
        // the traditional DER (i2d_PrivateKey), the PKCS#8 DER, the PKCS#8 PEM, the traditional PEM, the public key PEM
        pub uninterp spec fn kind_of_ident(ident: int) -> KeyKind;
        pub uninterp spec fn trad_der(ident: int) -> Seq<u8>;
        pub uninterp spec fn pkcs8_der(ident: int) -> Seq<u8>;
        pub uninterp spec fn pkcs8_pem(ident: int) -> Seq<u8>;
        pub uninterp spec fn trad_pem(ident: int) -> Seq<u8>;
        pub uninterp spec fn public_pem(ident: int) -> Seq<u8>;
        impl PKey<Private> {
            // d2i_AutoPrivateKey: the traditional and the PKCS#8 form, and the key that comes out is the one that was written
            #[verifier::external_body]
            pub fn private_key_from_der(d: &[u8]) -> (r: Result<PKey<Private>, ErrorStack>)
                ensures r matches Ok(k) ==> kind_consistent(k.kind@),
                    r matches Ok(k) ==> k.kind@ == kind_of_ident(k.ident@),
                    forall|id: int| #![trigger trad_der(id)] #![trigger pkcs8_der(id)] d@ == trad_der(id) || d@ == pkcs8_der(id) ==> (r matches Ok(k) && k.ident@ == id) { unimplemented!() }
            // PKCS#8 only
            #[verifier::external_body]
            pub fn private_key_from_pkcs8(d: &[u8]) -> (r: Result<PKey<Private>, ErrorStack>)
                ensures r matches Ok(k) ==> kind_consistent(k.kind@),
                    r matches Ok(k) ==> k.kind@ == kind_of_ident(k.ident@),
                    forall|id: int| d@ == #[trigger] pkcs8_der(id) ==> (r matches Ok(k) && k.ident@ == id) { unimplemented!() }
            #[verifier::external_body]
            pub fn private_key_from_pem(d: &[u8]) -> (r: Result<PKey<Private>, ErrorStack>)
                ensures r matches Ok(k) ==> kind_consistent(k.kind@),
                    r matches Ok(k) ==> k.kind@ == kind_of_ident(k.ident@),
                    forall|id: int| #![trigger pkcs8_pem(id)] #![trigger trad_pem(id)] d@ == pkcs8_pem(id) || d@ == trad_pem(id) ==> (r matches Ok(k) && k.ident@ == id) { unimplemented!() }
        }
        impl<T> PKey<T> {
            #[verifier::external_body]
            pub fn private_key_to_der(&self) -> (r: Result<Vec<u8>, ErrorStack>) ensures r matches Ok(v) ==> v@ == trad_der(self.ident@) { unimplemented!() }
            #[verifier::external_body]
            pub fn private_key_to_pkcs8(&self) -> (r: Result<Vec<u8>, ErrorStack>) ensures r matches Ok(v) ==> v@ == pkcs8_der(self.ident@) { unimplemented!() }
            #[verifier::external_body]
            pub fn private_key_to_pem_pkcs8(&self) -> (r: Result<Vec<u8>, ErrorStack>) ensures r matches Ok(v) ==> v@ == pkcs8_pem(self.ident@) { unimplemented!() }
            #[verifier::external_body]
            pub fn public_key_to_pem(&self) -> (r: Result<Vec<u8>, ErrorStack>) ensures r matches Ok(v) ==> v@ == public_pem(self.ident@) { unimplemented!() }
        }
        impl PKey<Private> {
            // key generation / wrapping: the kind of the key that comes out
            #[verifier::external_body]
            pub fn generate_ed25519() -> (r: Result<PKey<Private>, ErrorStack>)
                ensures r matches Ok(k) ==> k.kind@ == (KeyKind { id: Id::ED25519, rsa_size: 0, curve: None }) { unimplemented!() }
            #[verifier::external_body]
            pub fn generate_ed448() -> (r: Result<PKey<Private>, ErrorStack>)
                ensures r matches Ok(k) ==> k.kind@ == (KeyKind { id: Id::ED448, rsa_size: 0, curve: None }) { unimplemented!() }
        }
        impl<T> PKey<T> {
            #[verifier::external_body]
            pub fn from_rsa(k: super::rsa::Rsa<T>) -> (r: Result<PKey<T>, ErrorStack>)
                ensures r matches Ok(p) ==> p.kind@ == (KeyKind { id: Id::RSA, rsa_size: k.size, curve: None }) && p.ident == k.ident { unimplemented!() }
            #[verifier::external_body]
            pub fn from_ec_key(k: super::ec::EcKey<T>) -> (r: Result<PKey<T>, ErrorStack>)
                ensures r matches Ok(p) ==> p.kind@ == (KeyKind { id: Id::EC, rsa_size: 0, curve: k.curve@ }) && p.ident == k.ident { unimplemented!() }
            // EVP_PKEY_bits: the modulus size of an RSA key, the field size of an EC key
            #[verifier::external_body]
            pub fn bits(&self) -> (r: u32)
                ensures self.kind@.id == Id::RSA ==> r as int == self.kind@.rsa_size as int * 8,
                    self.kind@.id == Id::EC && self.kind@.curve == Some(super::nid::Nid::X9_62_PRIME256V1) ==> r == 256,
                    self.kind@.id == Id::EC && self.kind@.curve == Some(super::nid::Nid::SECP384R1) ==> r == 384,
                    self.kind@.id == Id::EC && self.kind@.curve == Some(super::nid::Nid::SECP521R1) ==> r == 521 { unimplemented!() }
        }
        impl<T> PKey<T> {
            #[verifier::external_body]
            pub fn id(&self) -> (r: Id) ensures r == self.kind@.id { unimplemented!() }
            #[verifier::external_body]
            pub fn rsa(&self) -> (r: Result<super::rsa::Rsa<T>, ErrorStack>)
                ensures (self.kind@.id == Id::RSA ==> r is Ok), (r matches Ok(k) ==> k.size == self.kind@.rsa_size && k.ident == self.ident) { unimplemented!() }
            #[verifier::external_body]
            pub fn ec_key(&self) -> (r: Result<super::ec::EcKey<T>, ErrorStack>)
                ensures (self.kind@.id == Id::EC ==> r is Ok), (r matches Ok(k) ==> k.curve@ == self.kind@.curve && k.ident == self.ident) { unimplemented!() }
        }
        }
    }
    pub mod sha {
        use vstd::prelude::*;
        verus! {
        // openssl::sha::sha256 / sha384 / sha512: the SHA-2 digest of that width
        pub uninterp spec fn sha2(bits: int, data: Seq<u8>) -> Seq<u8>;
        #[verifier::external_body] pub fn sha256(data: &[u8]) -> (r: [u8; 32]) ensures r@ == sha2(256, data@) { unimplemented!() }
        #[verifier::external_body] pub fn sha384(data: &[u8]) -> (r: [u8; 48]) ensures r@ == sha2(384, data@) { unimplemented!() }
        #[verifier::external_body] pub fn sha512(data: &[u8]) -> (r: [u8; 64]) ensures r@ == sha2(512, data@) { unimplemented!() }
        // [u8; N]::to_vec()
        #[verifier::external_body] pub fn digest_to_vec<const N: usize>(a: [u8; N]) -> (r: Vec<u8>) ensures r@ == a@ { unimplemented!() }
        }
    }
    pub mod sign {
        use vstd::prelude::*;
        use super::error::ErrorStack;
        verus! {
        // openssl::sign::Signer: the key, the digest (none for the one-shot EdDSA form), the RSA padding in force (PKCS#1 v1.5 unless
        // changed) and the data fed so far.  `sig_made` is the relation "sig is the signature of data by key under that scheme".
        pub uninterp spec fn sig_made(key: int, padding: i32, digest: Option<u8>, data: Seq<u8>, sig: Seq<u8>) -> bool;
        pub struct RsaPssSaltlen { pub v: i32 }
        impl RsaPssSaltlen {
            pub const DIGEST_LENGTH: RsaPssSaltlen = RsaPssSaltlen { v: -1 };
            pub const MAXIMUM_LENGTH: RsaPssSaltlen = RsaPssSaltlen { v: -2 };
            #[verifier::external_body] pub fn custom(n: i32) -> (r: RsaPssSaltlen) ensures r.v == n { unimplemented!() }
        }
        pub struct Signer<'a> { pub key: Ghost<int>, pub digest: Ghost<Option<u8>>, pub padding: Ghost<i32>, pub data: Ghost<Seq<u8>>, pub k: &'a u8 }
        impl<'a> Signer<'a> {
            #[verifier::external_body]
            pub fn new<T>(md: super::hash::MessageDigest, key: &'a super::pkey::PKey<T>) -> (r: Result<Signer<'a>, ErrorStack>)
                ensures r matches Ok(s) ==> s.key@ == key.ident@ && s.digest@ == Some(md.id) && s.padding@ == super::rsa::Padding::PKCS1.id && s.data@ == Seq::<u8>::empty() { unimplemented!() }
            #[verifier::external_body]
            pub fn new_without_digest<T>(key: &'a super::pkey::PKey<T>) -> (r: Result<Signer<'a>, ErrorStack>)
                ensures r matches Ok(s) ==> s.key@ == key.ident@ && s.digest@ is None && s.padding@ == super::rsa::Padding::PKCS1.id && s.data@ == Seq::<u8>::empty() { unimplemented!() }
            #[verifier::external_body]
            pub fn set_rsa_padding(&mut self, p: super::rsa::Padding) -> (r: Result<(), ErrorStack>)
                ensures final(self).key == old(self).key, final(self).digest == old(self).digest, final(self).data == old(self).data,
                    r is Ok ==> final(self).padding@ == p.id, r is Err ==> final(self).padding == old(self).padding { unimplemented!() }
            #[verifier::external_body]
            pub fn set_rsa_pss_saltlen(&mut self, l: RsaPssSaltlen) -> (r: Result<(), ErrorStack>)
                ensures *final(self) == *old(self) { unimplemented!() }
            #[verifier::external_body]
            pub fn update(&mut self, d: &[u8]) -> (r: Result<(), ErrorStack>)
                ensures final(self).key == old(self).key, final(self).digest == old(self).digest, final(self).padding == old(self).padding,
                    r is Ok ==> final(self).data@ == old(self).data@ + d@ { unimplemented!() }
            #[verifier::external_body]
            pub fn sign_to_vec(&self) -> (r: Result<Vec<u8>, ErrorStack>)
                ensures r matches Ok(v) ==> sig_made(self.key@, self.padding@, self.digest@, self.data@, v@) { unimplemented!() }
            #[verifier::external_body]
            pub fn sign_oneshot_to_vec(&mut self, d: &[u8]) -> (r: Result<Vec<u8>, ErrorStack>)
                ensures r matches Ok(v) ==> sig_made(old(self).key@, old(self).padding@, old(self).digest@, d@, v@) { unimplemented!() }
        }
        }
    }
    pub mod rsa {
        use vstd::prelude::*;
        verus! {
        #[derive(Clone, Copy, PartialEq, Eq)]
        pub struct Padding { pub id: i32 }
        impl Padding {
            pub const NONE: Padding = Padding { id: 3 };
            pub const PKCS1: Padding = Padding { id: 1 };
            pub const PKCS1_OAEP: Padding = Padding { id: 4 };
            pub const PKCS1_PSS: Padding = Padding { id: 6 };
        }
        pub struct Rsa<T> { pub size: u32, pub ident: Ghost<int>, pub p: Option<T> }
        pub uninterp spec fn rsa_e(ident: int) -> Seq<u8>;
        pub uninterp spec fn rsa_n(ident: int) -> Seq<u8>;
        impl Rsa<super::pkey::Private> {
            // RSA_generate_key_ex: a key whose modulus has `bits` bits
            #[verifier::external_body]
            pub fn generate(bits: u32) -> (r: Result<Rsa<super::pkey::Private>, super::error::ErrorStack>)
                ensures r matches Ok(k) ==> k.size == bits / 8 { unimplemented!() }
        }
        impl<T> Rsa<T> {
            #[verifier::external_body] pub fn size(&self) -> (r: u32) ensures r == self.size { unimplemented!() }
            #[verifier::external_body] pub fn e(&self) -> (r: &super::bn::BigNumRef) ensures r.be@ == rsa_e(self.ident@) { unimplemented!() }
            #[verifier::external_body] pub fn n(&self) -> (r: &super::bn::BigNumRef) ensures r.be@ == rsa_n(self.ident@) { unimplemented!() }
        }
        }
    }
    pub mod ec {
        use vstd::prelude::*;
        use super::error::ErrorStack;
        use super::nid::Nid;
        verus! {
        pub struct EcGroup { pub curve: Ghost<Option<Nid>> }
        pub type EcGroupRef = EcGroup;
        pub struct EcPoint { pub ident: Ghost<int> }
        pub type EcPointRef = EcPoint;
        pub struct EcKey<T> { pub curve: Ghost<Option<Nid>>, pub ident: Ghost<int>, pub p: Option<T> }
        pub type EcKeyRef<T> = EcKey<T>;
        pub uninterp spec fn ec_x(ident: int) -> Seq<u8>;   // affine coordinates of the public point, minimal big endian
        pub uninterp spec fn ec_y(ident: int) -> Seq<u8>;
        // byte size of the field / of the group order for the three supported curves
        pub open spec fn curve_size(c: Option<Nid>) -> int {
            if c == Some(Nid::X9_62_PRIME256V1) { 32 } else if c == Some(Nid::SECP384R1) { 48 } else if c == Some(Nid::SECP521R1) { 66 } else { 0 }
        }
        impl EcGroup {
            #[verifier::external_body]
            pub fn from_curve_name(n: Nid) -> (r: Result<EcGroup, ErrorStack>)
                ensures (n == Nid::X9_62_PRIME256V1 || n == Nid::SECP384R1 || n == Nid::SECP521R1) ==> r is Ok,
                        r matches Ok(g) ==> g.curve@ == Some(n) { unimplemented!() }
            #[verifier::external_body]
            pub fn curve_name(&self) -> (r: Option<Nid>) ensures r == self.curve@ { unimplemented!() }
            // EC_GROUP_set_asn1_flag: how the group is written out; the curve stays the curve
            #[verifier::external_body]
            pub fn set_asn1_flag(&mut self, f: Asn1Flag) ensures final(self).curve == old(self).curve { unimplemented!() }
            // bit length of the field (EC_GROUP_get_degree): 256 / 384 / 521 for the three supported curves
            #[verifier::external_body]
            pub fn degree(&self) -> (r: u32)
                ensures self.curve@ == Some(Nid::X9_62_PRIME256V1) ==> r == 256, self.curve@ == Some(Nid::SECP384R1) ==> r == 384, self.curve@ == Some(Nid::SECP521R1) ==> r == 521
            { unimplemented!() }
            // bit length of the group order
            #[verifier::external_body]
            pub fn order_bits(&self) -> (r: u32)
                ensures self.curve@ == Some(Nid::X9_62_PRIME256V1) ==> r == 256, self.curve@ == Some(Nid::SECP384R1) ==> r == 384, self.curve@ == Some(Nid::SECP521R1) ==> r == 521
            { unimplemented!() }
        }
        pub struct Asn1Flag { pub id: u8 }
        impl Asn1Flag {
            pub const EXPLICIT_CURVE: Asn1Flag = Asn1Flag { id: 0 };
            pub const NAMED_CURVE: Asn1Flag = Asn1Flag { id: 1 };
        }
        impl EcKey<super::pkey::Private> {
            #[verifier::external_body]
            pub fn generate(g: &EcGroupRef) -> (r: Result<EcKey<super::pkey::Private>, ErrorStack>)
                ensures r matches Ok(k) ==> k.curve == g.curve { unimplemented!() }
        }
        impl<T> EcKey<T> {
            #[verifier::external_body] pub fn group(&self) -> (r: &EcGroupRef) ensures r.curve == self.curve { unimplemented!() }
            #[verifier::external_body] pub fn public_key(&self) -> (r: &EcPointRef) ensures r.ident == self.ident { unimplemented!() }
            #[verifier::external_body] pub fn as_ref(&self) -> (r: &EcKeyRef<T>) ensures *r == *self { unimplemented!() }
        }
        impl EcPoint {
            // coordinates are field elements: they fit in curve_size bytes
            #[verifier::external_body]
            pub fn affine_coordinates_gfp(&self, g: &EcGroupRef, x: &mut super::bn::BigNum, y: &mut super::bn::BigNum, ctx: &mut super::bn::BigNumContext) -> (r: Result<(), ErrorStack>)
                ensures r is Ok ==> final(x).be@ == ec_x(self.ident@) && final(y).be@ == ec_y(self.ident@)
                    && final(x).be@.len() <= curve_size(g.curve@) && final(y).be@.len() <= curve_size(g.curve@) { unimplemented!() }
        }
        }
    }
    pub mod ecdsa {
        use vstd::prelude::*;
        use super::error::ErrorStack;
        verus! {
        pub struct EcdsaSig { pub r: super::bn::BigNum, pub s: super::bn::BigNum }
        // (r, s) is an ECDSA signature of digest under the key: a relation (the signature is randomised)
        pub uninterp spec fn ecdsa_valid(key_ident: int, digest: Seq<u8>, r: Seq<u8>, s: Seq<u8>) -> bool;
        impl EcdsaSig {
            // r and s are below the group order: they fit in curve_size bytes
            #[verifier::external_body]
            pub fn sign<T>(digest: &Vec<u8>, key: &super::ec::EcKeyRef<T>) -> (r: Result<EcdsaSig, ErrorStack>)
                ensures r matches Ok(sig) ==> ecdsa_valid(key.ident@, digest@, sig.r.be@, sig.s.be@)
                    && sig.r.be@.len() <= super::ec::curve_size(key.curve@) && sig.s.be@.len() <= super::ec::curve_size(key.curve@) { unimplemented!() }
            #[verifier::external_body] pub fn r(&self) -> (b: &super::bn::BigNumRef) ensures *b == self.r { unimplemented!() }
            #[verifier::external_body] pub fn s(&self) -> (b: &super::bn::BigNumRef) ensures *b == self.s { unimplemented!() }
        }
        }
    }
    pub mod stack {
        use vstd::prelude::*;
        use super::error::ErrorStack;
        verus! {
        pub struct Stack<T> { pub v: Vec<T> }
        impl<T> Stack<T> {
            #[verifier::external_body]
            pub fn new() -> (r: Result<Stack<T>, ErrorStack>) ensures r matches Ok(s) ==> s.v@.len() == 0 { unimplemented!() }
            #[verifier::external_body]
            pub fn push(&mut self, t: T) -> (r: Result<(), ErrorStack>) ensures r is Ok ==> final(self).v@ == old(self).v@.push(t) { unimplemented!() }
        }
        }
    }
    pub mod x509 {
        use vstd::prelude::*;
        use super::error::ErrorStack;
        use super::nid::Nid;
        verus! {
        // ---- what a certificate / request builder has been told, as plain ghost data
        pub ghost enum ExtView {
            BasicConstraints,
            San { dns: Seq<Seq<char>>, ip: Seq<Seq<char>> },
            Custom { name: Seq<char>, value: Seq<char> },
        }
        pub ghost struct NameView { pub by_nid: Seq<(Nid, Seq<char>)>, pub by_text: Seq<(Seq<char>, Seq<char>)> }
        pub ghost struct CertView {
            pub version: Option<i32>, pub serial_random_bits: Option<i32>,
            pub subject: Option<NameView>, pub issuer: Option<NameView>,
            pub pubkey: Option<int>, pub not_before: Option<int>, pub not_after: Option<int>,
            pub exts: Seq<ExtView>, pub signed: Option<(int, u8)>,
        }
        pub open spec fn empty_cert() -> CertView {
            CertView { version: None, serial_random_bits: None, subject: None, issuer: None, pubkey: None,
                       not_before: None, not_after: None, exts: Seq::empty(), signed: None }
        }
        pub struct X509 { pub not_after: super::asn1::Asn1Time, pub view: Ghost<CertView>, pub san: Ghost<Option<Seq<GeneralName>>> }
        // one subjectAltName entry as OpenSSL hands it out: a dNSName, an iPAddress (4 or 16 octets), or something else (neither)
        pub struct GeneralName { pub dns: Ghost<Option<Seq<char>>>, pub ip: Ghost<Option<Seq<u8>>> }
        impl GeneralName {
            #[verifier::external_body]
            pub fn dnsname(&self) -> (r: Option<&str>) ensures match r { Some(d) => self.dns@ == Some(d@), None => self.dns@ is None } { unimplemented!() }
            #[verifier::external_body]
            pub fn ipaddress(&self) -> (r: Option<&[u8]>) ensures match r { Some(i) => self.ip@ == Some(i@), None => self.ip@ is None } { unimplemented!() }
        }
        // the certificates of a PEM text, in order: X509::from_pem reads the first, stack_from_pem all of them
        pub uninterp spec fn certs_of_pem(d: Seq<u8>) -> Seq<X509>;
        impl X509 {
            #[verifier::external_body]
            pub fn from_pem(d: &[u8]) -> (r: Result<X509, ErrorStack>)
                ensures match r { Ok(c) => certs_of_pem(d@).len() > 0 && certs_of_pem(d@)[0] == c, Err(_) => certs_of_pem(d@).len() == 0 } { unimplemented!() }
            #[verifier::external_body]
            pub fn stack_from_pem(d: &[u8]) -> (r: Result<Vec<X509>, ErrorStack>)
                ensures r matches Ok(v) ==> v@ == certs_of_pem(d@) { unimplemented!() }
        }
        impl X509 {
            // the subjectAltName extension, entry by entry (None when the certificate has none)
            #[verifier::external_body]
            pub fn subject_alt_names(&self) -> (r: Option<super::stack::Stack<GeneralName>>)
                ensures match r { Some(s) => self.san@ == Some(s.v@), None => self.san@ is None } { unimplemented!() }
        }
        pub struct X509Req { pub view: Ghost<CertView> }
        pub struct X509Name { pub view: Ghost<NameView> }
        pub struct X509NameBuilder { pub view: Ghost<NameView> }
        pub struct X509v3Context { pub x: u8 }
        pub struct X509Extension { pub view: Ghost<ExtView> }
        // a builder's `signed` says what the signature covers: any change made after `sign` leaves the request / certificate without a valid signature
        pub struct X509ReqBuilder { pub view: Ghost<CertView> }
        pub struct X509Builder { pub view: Ghost<CertView> }
        impl X509 {
            #[verifier::external_body]
            pub fn not_after(&self) -> (r: &super::asn1::Asn1TimeRef) ensures *r == self.not_after { unimplemented!() }
            // notBefore: any instant (a CA may or may not backdate it)
            #[verifier::external_body]
            pub fn not_before(&self) -> (r: &super::asn1::Asn1TimeRef) { unimplemented!() }
            #[verifier::external_body]
            pub fn serial_number(&self) -> (r: &super::asn1::Asn1Integer) { unimplemented!() }
        }
        impl X509NameBuilder {
            #[verifier::external_body]
            pub fn new() -> (r: Result<X509NameBuilder, ErrorStack>)
                ensures r matches Ok(b) ==> b.view@ == (NameView { by_nid: Seq::empty(), by_text: Seq::empty() }) { unimplemented!() }
            #[verifier::external_body]
            pub fn append_entry_by_nid(&mut self, n: Nid, v: &String) -> (r: Result<(), ErrorStack>)
                ensures r is Ok ==> final(self).view@ == (NameView { by_nid: old(self).view@.by_nid.push((n, v@)), ..old(self).view@ }) { unimplemented!() }
            #[verifier::external_body]
            pub fn append_entry_by_text(&mut self, k: &str, v: &str) -> (r: Result<(), ErrorStack>)
                // OpenSSL refuses a name entry longer than its upper bound (64 for O, OU, CN: RFC 5280 ub-common-name ...): a value whose
                // length depends on the input would make the whole certificate fail for some inputs
                requires v@.len() <= 64, //@C16.name_entries_fit_whatever_the_domain
                ensures r is Ok ==> final(self).view@ == (NameView { by_text: old(self).view@.by_text.push((k@, v@)), ..old(self).view@ }) { unimplemented!() }
            #[verifier::external_body]
            pub fn build(self) -> (r: X509Name) ensures r.view == self.view { unimplemented!() }
        }
        impl X509Extension {
            // X509V3_EXT_nconf(name, value): an extension given as `name` = `value` configuration text
            #[verifier::external_body]
            pub fn new(conf: Option<u8>, ctx: Option<&X509v3Context>, name: &str, value: &str) -> (r: Result<X509Extension, ErrorStack>)
                ensures r matches Ok(e) ==> e.view@ == (ExtView::Custom { name: name@, value: value@ }) { unimplemented!() }
        }
        impl X509ReqBuilder {
            #[verifier::external_body]
            pub fn new() -> (r: Result<X509ReqBuilder, ErrorStack>) ensures r matches Ok(b) ==> b.view@ == empty_cert() { unimplemented!() }
            #[verifier::external_body]
            pub fn set_pubkey<T>(&mut self, k: &super::pkey::PKey<T>) -> (r: Result<(), ErrorStack>)
                ensures r is Ok ==> final(self).view@ == (CertView { pubkey: Some(k.ident@), signed: None, ..old(self).view@ }) { unimplemented!() }
            #[verifier::external_body]
            pub fn set_subject_name(&mut self, n: &X509Name) -> (r: Result<(), ErrorStack>)
                ensures r is Ok ==> final(self).view@ == (CertView { subject: Some(n.view@), signed: None, ..old(self).view@ }) { unimplemented!() }
            #[verifier::external_body]
            pub fn x509v3_context(&self, conf: Option<u8>) -> X509v3Context { unimplemented!() }
            #[verifier::external_body]
            pub fn add_extensions(&mut self, s: &super::stack::Stack<X509Extension>) -> (r: Result<(), ErrorStack>)
                ensures r is Ok ==> final(self).view@ == (CertView { exts: old(self).view@.exts + s.v@.map_values(|e: X509Extension| e.view@), signed: None, ..old(self).view@ }) { unimplemented!() }
            #[verifier::external_body]
            pub fn sign<T>(&mut self, k: &super::pkey::PKey<T>, d: super::hash::MessageDigest) -> (r: Result<(), ErrorStack>)
                ensures r is Ok ==> final(self).view@ == (CertView { signed: Some((k.ident@, d.id)), ..old(self).view@ }) { unimplemented!() }
            #[verifier::external_body]
            pub fn build(self) -> (r: X509Req) ensures r.view == self.view { unimplemented!() }
        }
        impl X509Builder {
            #[verifier::external_body]
            pub fn new() -> (r: Result<X509Builder, ErrorStack>) ensures r matches Ok(b) ==> b.view@ == empty_cert() { unimplemented!() }
            #[verifier::external_body]
            pub fn set_version(&mut self, v: i32) -> (r: Result<(), ErrorStack>)
                ensures r is Ok ==> final(self).view@ == (CertView { version: Some(v), signed: None, ..old(self).view@ }) { unimplemented!() }
            #[verifier::external_body]
            pub fn set_serial_number(&mut self, s: &super::asn1::Asn1Integer) -> (r: Result<(), ErrorStack>)
                ensures r is Ok ==> final(self).view@ == (CertView { serial_random_bits: Some(s.bits@), signed: None, ..old(self).view@ }) { unimplemented!() }
            #[verifier::external_body]
            pub fn set_subject_name(&mut self, n: &X509Name) -> (r: Result<(), ErrorStack>)
                ensures r is Ok ==> final(self).view@ == (CertView { subject: Some(n.view@), signed: None, ..old(self).view@ }) { unimplemented!() }
            #[verifier::external_body]
            pub fn set_issuer_name(&mut self, n: &X509Name) -> (r: Result<(), ErrorStack>)
                ensures r is Ok ==> final(self).view@ == (CertView { issuer: Some(n.view@), signed: None, ..old(self).view@ }) { unimplemented!() }
            #[verifier::external_body]
            pub fn set_pubkey<T>(&mut self, k: &super::pkey::PKey<T>) -> (r: Result<(), ErrorStack>)
                ensures r is Ok ==> final(self).view@ == (CertView { pubkey: Some(k.ident@), signed: None, ..old(self).view@ }) { unimplemented!() }
            #[verifier::external_body]
            pub fn set_not_before(&mut self, t: &super::asn1::Asn1Time) -> (r: Result<(), ErrorStack>)
                ensures r is Ok ==> final(self).view@ == (CertView { not_before: Some(t.t@), signed: None, ..old(self).view@ }) { unimplemented!() }
            #[verifier::external_body]
            pub fn set_not_after(&mut self, t: &super::asn1::Asn1Time) -> (r: Result<(), ErrorStack>)
                ensures r is Ok ==> final(self).view@ == (CertView { not_after: Some(t.t@), signed: None, ..old(self).view@ }) { unimplemented!() }
            #[verifier::external_body]
            pub fn append_extension(&mut self, e: X509Extension) -> (r: Result<(), ErrorStack>)
                ensures r is Ok ==> final(self).view@ == (CertView { exts: old(self).view@.exts.push(e.view@), signed: None, ..old(self).view@ }) { unimplemented!() }
            #[verifier::external_body]
            pub fn x509v3_context(&self, a: Option<u8>, b: Option<u8>) -> X509v3Context { unimplemented!() }
            #[verifier::external_body]
            pub fn sign<T>(&mut self, k: &super::pkey::PKey<T>, d: super::hash::MessageDigest) -> (r: Result<(), ErrorStack>)
                ensures r is Ok ==> final(self).view@ == (CertView { signed: Some((k.ident@, d.id)), ..old(self).view@ }) { unimplemented!() }
            #[verifier::external_body]
            pub fn build(self) -> (r: X509) ensures r.view == self.view { unimplemented!() }
        }
        pub mod extension {
            use vstd::prelude::*;
            use super::*;
            verus! {
            pub struct BasicConstraints { pub x: u8 }
            impl BasicConstraints {
                #[verifier::external_body] pub fn new() -> BasicConstraints { unimplemented!() }
                #[verifier::external_body]
                pub fn build(&self) -> (r: Result<X509Extension, ErrorStack>) ensures r matches Ok(e) ==> e.view@ == ExtView::BasicConstraints { unimplemented!() }
            }
            pub struct SubjectAlternativeName { pub dns: Ghost<Seq<Seq<char>>>, pub ip: Ghost<Seq<Seq<char>>> }
            impl SubjectAlternativeName {
                #[verifier::external_body]
                pub fn new() -> (r: SubjectAlternativeName) ensures r.dns@ == Seq::<Seq<char>>::empty(), r.ip@ == Seq::<Seq<char>>::empty() { unimplemented!() }
                #[verifier::external_body]
                pub fn dns(&mut self, d: &str) -> (r: &mut SubjectAlternativeName)
                    ensures *final(self) == *final(r), r.dns@ == old(self).dns@.push(d@), r.ip@ == old(self).ip@ { unimplemented!() }
                #[verifier::external_body]
                pub fn ip(&mut self, d: &str) -> (r: &mut SubjectAlternativeName)
                    ensures *final(self) == *final(r), r.ip@ == old(self).ip@.push(d@), r.dns@ == old(self).dns@ { unimplemented!() }
                #[verifier::external_body]
                pub fn build(&self, ctx: &X509v3Context) -> (r: Result<X509Extension, ErrorStack>)
                    ensures r matches Ok(e) ==> e.view@ == (ExtView::San { dns: self.dns@, ip: self.ip@ }) { unimplemented!() }
            }
            }
        }
        }
    }
}
