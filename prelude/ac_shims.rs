// Trusted model of what the acme_common functions under contract use of OpenSSL and of acme_common::error.
pub mod error {
    use vstd::prelude::*;
    verus! {
    #[derive(Debug)]
    pub struct Error { pub message: String }
    impl vstd::std_specs::convert::FromSpecImpl<crate::openssl::error::ErrorStack> for Error {
        open spec fn obeys_from_spec() -> bool { false }
        open spec fn from_spec(e: crate::openssl::error::ErrorStack) -> Self { arbitrary() }
    }
    impl From<crate::openssl::error::ErrorStack> for Error {
        #[verifier::external_body] fn from(e: crate::openssl::error::ErrorStack) -> Self { unimplemented!() }
    }
    impl<'a> vstd::std_specs::convert::FromSpecImpl<&'a str> for Error {
        open spec fn obeys_from_spec() -> bool { false }
        open spec fn from_spec(e: &'a str) -> Self { arbitrary() }
    }
    impl From<&str> for Error { #[verifier::external_body] fn from(e: &str) -> Self { unimplemented!() } }
    impl vstd::std_specs::convert::FromSpecImpl<String> for Error {
        open spec fn obeys_from_spec() -> bool { false }
        open spec fn from_spec(e: String) -> Self { arbitrary() }
    }
    impl From<String> for Error { #[verifier::external_body] fn from(e: String) -> Self { unimplemented!() } }
    }
}
pub mod openssl {
    pub mod error { use vstd::prelude::*; verus! { #[derive(Debug)] pub struct ErrorStack { pub x: u8 } } }
    pub mod asn1 {
        use vstd::prelude::*;
        use super::error::ErrorStack;
        verus! {
        pub struct Asn1Time { pub t: Ghost<int> }      // seconds since the epoch
        pub type Asn1TimeRef = Asn1Time;
        // openssl::asn1::TimeDiff { days: c_int, secs: c_int }
        pub struct TimeDiff { pub days: i32, pub secs: i32 }
        pub uninterp spec fn wall_now() -> int;
        impl Asn1Time {
            #[verifier::external_body]
            pub fn days_from_now(days: u32) -> (r: Result<Asn1Time, ErrorStack>)
                ensures r matches Ok(t) ==> t.t@ == wall_now() + (days as int) * 86400 { unimplemented!() }
            // ASN1_TIME_diff: days and secs have the same sign, |secs| < 86400, days*86400 + secs = to - from
            #[verifier::external_body]
            pub fn diff(&self, to: &Asn1Time) -> (r: Result<TimeDiff, ErrorStack>)
                ensures r matches Ok(d) ==> (d.days as int) * 86400 + (d.secs as int) == to.t@ - self.t@
                    && -86400 < d.secs < 86400 { unimplemented!() }
        }
        }
    }
    pub mod x509 {
        use vstd::prelude::*;
        verus! {
        pub struct X509 { pub not_after: super::asn1::Asn1Time }
        impl X509 {
            #[verifier::external_body]
            pub fn not_after(&self) -> (r: &super::asn1::Asn1TimeRef) ensures *r == self.not_after { unimplemented!() }
        }
        }
    }
}
