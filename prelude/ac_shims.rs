// Trusted model of what the acme_common functions under contract use of OpenSSL and of acme_common::error.
pub mod error {
    use vstd::prelude::*;
    verus! {
    #[derive(Debug)]
    pub struct Error { pub message: String }
    impl vstd::std_specs::convert::FromSpecImpl<crate::openssl::error::ErrorStack> for Error {
        open spec fn obeys_from_spec() -> bool { false }
        open spec fn from_spec(e: crate::openssl::error::ErrorStack) -> Self { arbitrary() }
    }
    impl From<crate::openssl::error::ErrorStack> for Error {
        #[verifier::external_body] fn from(e: crate::openssl::error::ErrorStack) -> Self { unimplemented!() }
    }
    impl<'a> vstd::std_specs::convert::FromSpecImpl<&'a str> for Error {
        open spec fn obeys_from_spec() -> bool { false }
        open spec fn from_spec(e: &'a str) -> Self { arbitrary() }
    }
    impl From<&str> for Error { #[verifier::external_body] fn from(e: &str) -> Self { unimplemented!() } }
    impl vstd::std_specs::convert::FromSpecImpl<String> for Error {
        open spec fn obeys_from_spec() -> bool { false }
        open spec fn from_spec(e: String) -> Self { arbitrary() }
    }
    impl From<String> for Error { #[verifier::external_body] fn from(e: String) -> Self { unimplemented!() } }
    }
}
pub mod openssl {
    pub mod error { use vstd::prelude::*; verus! { #[derive(Debug)] pub struct ErrorStack { pub x: u8 } } }
    pub mod asn1 {
        use vstd::prelude::*;
        use super::error::ErrorStack;
        verus! {
        pub struct Asn1Time { pub t: Ghost<int> }      // seconds since the epoch
        pub type Asn1TimeRef = Asn1Time;
        // openssl::asn1::TimeDiff { days: c_int, secs: c_int }
        pub struct TimeDiff { pub days: i32, pub secs: i32 }
        pub uninterp spec fn wall_now() -> int;
        impl Asn1Time {
            #[verifier::external_body]
            pub fn days_from_now(days: u32) -> (r: Result<Asn1Time, ErrorStack>)
                ensures r matches Ok(t) ==> t.t@ == wall_now() + (days as int) * 86400 { unimplemented!() }
            // ASN1_TIME_diff: days and secs have the same sign, |secs| < 86400, days*86400 + secs = to - from
            #[verifier::external_body]
            pub fn diff(&self, to: &Asn1Time) -> (r: Result<TimeDiff, ErrorStack>)
                ensures r matches Ok(d) ==> (d.days as int) * 86400 + (d.secs as int) == to.t@ - self.t@
                    && -86400 < d.secs < 86400 { unimplemented!() }
        }
        }
    }
    pub mod nid {
        use vstd::prelude::*;
        verus! {
        #[derive(Clone, Copy, PartialEq, Eq, Debug)]
        pub struct Nid { pub id: u32 }
        impl Nid {
            pub const X9_62_PRIME256V1: Nid = Nid { id: 415 };
            pub const SECP384R1: Nid = Nid { id: 715 };
            pub const SECP521R1: Nid = Nid { id: 716 };
        }
        }
    }
    pub mod bn {
        use vstd::prelude::*;
        use super::error::ErrorStack;
        verus! {
        // a non-negative big integer, seen through its minimal big-endian byte string
        pub struct BigNum { pub be: Ghost<Seq<u8>> }
        pub type BigNumRef = BigNum;
        pub struct BigNumContext { pub x: u8 }
        impl BigNumContext { #[verifier::external_body] pub fn new() -> (r: Result<BigNumContext, ErrorStack>) ensures r is Ok { unimplemented!() } }
        pub open spec fn left_pad(b: Seq<u8>, n: int) -> Seq<u8> { Seq::new((n - b.len()) as nat, |i: int| 0u8) + b }
        // Vec::resize_with(n, || 0) on a Vec<u8>  (rule T-ITER)
        #[verifier::external_body]
        pub fn resize_zero(v: &mut Vec<u8>, n: usize)
            ensures final(v)@.len() == n, forall|i: int| 0 <= i < n ==> final(v)@[i] == (if i < old(v)@.len() { old(v)@[i] } else { 0u8 })
        { v.resize_with(n, || 0) }
        impl BigNum {
            #[verifier::external_body]
            pub fn new() -> (r: Result<BigNum, ErrorStack>) ensures r is Ok { unimplemented!() }
            // BN_bn2bin: minimal length, big endian
            #[verifier::external_body]
            pub fn to_vec(&self) -> (r: Vec<u8>) ensures r@ == self.be@ { unimplemented!() }
            // BN_bn2binpad: fixed width, error when the number does not fit
            #[verifier::external_body]
            pub fn to_vec_padded(&self, n: i32) -> (r: Result<Vec<u8>, ErrorStack>)
                ensures r matches Ok(v) ==> n >= 0 && self.be@.len() <= n && v@ == left_pad(self.be@, n as int) { unimplemented!() }
        }
        }
    }
    pub mod hash {
        use vstd::prelude::*;
        verus! {
        #[derive(Clone, Copy)]
        pub struct MessageDigest { pub id: u8 }   // 0 = null, 1 = sha256, 2 = sha384, 3 = sha512
        impl MessageDigest {
            #[verifier::external_body] pub fn null() -> (r: MessageDigest) ensures r.id == 0 { unimplemented!() }
            #[verifier::external_body] pub fn sha256() -> (r: MessageDigest) ensures r.id == 1 { unimplemented!() }
            #[verifier::external_body] pub fn sha384() -> (r: MessageDigest) ensures r.id == 2 { unimplemented!() }
            #[verifier::external_body] pub fn sha512() -> (r: MessageDigest) ensures r.id == 3 { unimplemented!() }
        }
        }
    }
    pub mod pkey {
        use vstd::prelude::*;
        use super::error::ErrorStack;
        verus! {
        pub struct Private { pub x: u8 }
        #[derive(PartialEq, Eq, Clone, Copy)]
        pub struct Id { pub id: u8 }
        impl Id {
            pub const RSA: Id = Id { id: 1 };
            pub const EC: Id = Id { id: 2 };
            pub const ED25519: Id = Id { id: 3 };
            pub const ED448: Id = Id { id: 4 };
        }
        // what kind of key this is: (id, RSA modulus size in bytes, EC curve nid)
        pub ghost struct KeyKind { pub id: Id, pub rsa_size: u32, pub curve: Option<super::nid::Nid> }
        pub struct PKey<T> { pub kind: Ghost<KeyKind>, pub ident: Ghost<int>, pub p: Option<T> }
        // which (id, size, curve) combinations OpenSSL can hand back for a parsed private key
        pub open spec fn kind_consistent(k: KeyKind) -> bool {
            (k.id == Id::RSA ==> k.curve is None) && (k.id == Id::EC ==> k.rsa_size == 0)
            && (k.id != Id::RSA && k.id != Id::EC ==> k.rsa_size == 0 && k.curve is None)
        }
        impl PKey<Private> {
            #[verifier::external_body]
            pub fn private_key_from_der(d: &[u8]) -> (r: Result<PKey<Private>, ErrorStack>)
                ensures r matches Ok(k) ==> kind_consistent(k.kind@) { unimplemented!() }
            #[verifier::external_body]
            pub fn private_key_from_pem(d: &[u8]) -> (r: Result<PKey<Private>, ErrorStack>)
                ensures r matches Ok(k) ==> kind_consistent(k.kind@) { unimplemented!() }
        }
        impl<T> PKey<T> {
            #[verifier::external_body]
            pub fn id(&self) -> (r: Id) ensures r == self.kind@.id { unimplemented!() }
            #[verifier::external_body]
            pub fn rsa(&self) -> (r: Result<super::rsa::Rsa<T>, ErrorStack>)
                ensures (self.kind@.id == Id::RSA ==> r is Ok), (r matches Ok(k) ==> k.size == self.kind@.rsa_size && k.ident == self.ident) { unimplemented!() }
            #[verifier::external_body]
            pub fn ec_key(&self) -> (r: Result<super::ec::EcKey<T>, ErrorStack>)
                ensures (self.kind@.id == Id::EC ==> r is Ok), (r matches Ok(k) ==> k.curve@ == self.kind@.curve && k.ident == self.ident) { unimplemented!() }
        }
        }
    }
    pub mod rsa {
        use vstd::prelude::*;
        verus! {
        pub struct Rsa<T> { pub size: u32, pub ident: Ghost<int>, pub p: Option<T> }
        pub uninterp spec fn rsa_e(ident: int) -> Seq<u8>;
        pub uninterp spec fn rsa_n(ident: int) -> Seq<u8>;
        impl<T> Rsa<T> {
            #[verifier::external_body] pub fn size(&self) -> (r: u32) ensures r == self.size { unimplemented!() }
            #[verifier::external_body] pub fn e(&self) -> (r: &super::bn::BigNumRef) ensures r.be@ == rsa_e(self.ident@) { unimplemented!() }
            #[verifier::external_body] pub fn n(&self) -> (r: &super::bn::BigNumRef) ensures r.be@ == rsa_n(self.ident@) { unimplemented!() }
        }
        }
    }
    pub mod ec {
        use vstd::prelude::*;
        use super::error::ErrorStack;
        use super::nid::Nid;
        verus! {
        pub struct EcGroup { pub curve: Ghost<Option<Nid>> }
        pub type EcGroupRef = EcGroup;
        pub struct EcPoint { pub ident: Ghost<int> }
        pub type EcPointRef = EcPoint;
        pub struct EcKey<T> { pub curve: Ghost<Option<Nid>>, pub ident: Ghost<int>, pub p: Option<T> }
        pub type EcKeyRef<T> = EcKey<T>;
        pub uninterp spec fn ec_x(ident: int) -> Seq<u8>;   // affine coordinates of the public point, minimal big endian
        pub uninterp spec fn ec_y(ident: int) -> Seq<u8>;
        // byte size of the field / of the group order for the three supported curves
        pub open spec fn curve_size(c: Option<Nid>) -> int {
            if c == Some(Nid::X9_62_PRIME256V1) { 32 } else if c == Some(Nid::SECP384R1) { 48 } else if c == Some(Nid::SECP521R1) { 66 } else { 0 }
        }
        impl EcGroup {
            #[verifier::external_body]
            pub fn from_curve_name(n: Nid) -> (r: Result<EcGroup, ErrorStack>)
                ensures (n == Nid::X9_62_PRIME256V1 || n == Nid::SECP384R1 || n == Nid::SECP521R1) ==> r is Ok,
                        r matches Ok(g) ==> g.curve@ == Some(n) { unimplemented!() }
            #[verifier::external_body]
            pub fn curve_name(&self) -> (r: Option<Nid>) ensures r == self.curve@ { unimplemented!() }
        }
        impl<T> EcKey<T> {
            #[verifier::external_body] pub fn group(&self) -> (r: &EcGroupRef) ensures r.curve == self.curve { unimplemented!() }
            #[verifier::external_body] pub fn public_key(&self) -> (r: &EcPointRef) ensures r.ident == self.ident { unimplemented!() }
            #[verifier::external_body] pub fn as_ref(&self) -> (r: &EcKeyRef<T>) ensures *r == *self { unimplemented!() }
        }
        impl EcPoint {
            // coordinates are field elements: they fit in curve_size bytes
            #[verifier::external_body]
            pub fn affine_coordinates_gfp(&self, g: &EcGroupRef, x: &mut super::bn::BigNum, y: &mut super::bn::BigNum, ctx: &mut super::bn::BigNumContext) -> (r: Result<(), ErrorStack>)
                ensures r is Ok ==> final(x).be@ == ec_x(self.ident@) && final(y).be@ == ec_y(self.ident@)
                    && final(x).be@.len() <= curve_size(g.curve@) && final(y).be@.len() <= curve_size(g.curve@) { unimplemented!() }
        }
        }
    }
    pub mod ecdsa {
        use vstd::prelude::*;
        use super::error::ErrorStack;
        verus! {
        pub struct EcdsaSig { pub r: super::bn::BigNum, pub s: super::bn::BigNum }
        // (r, s) is an ECDSA signature of digest under the key: a relation (the signature is randomised)
        pub uninterp spec fn ecdsa_valid(key_ident: int, digest: Seq<u8>, r: Seq<u8>, s: Seq<u8>) -> bool;
        impl EcdsaSig {
            // r and s are below the group order: they fit in curve_size bytes
            #[verifier::external_body]
            pub fn sign<T>(digest: &Vec<u8>, key: &super::ec::EcKeyRef<T>) -> (r: Result<EcdsaSig, ErrorStack>)
                ensures r matches Ok(sig) ==> ecdsa_valid(key.ident@, digest@, sig.r.be@, sig.s.be@)
                    && sig.r.be@.len() <= super::ec::curve_size(key.curve@) && sig.s.be@.len() <= super::ec::curve_size(key.curve@) { unimplemented!() }
            #[verifier::external_body] pub fn r(&self) -> (b: &super::bn::BigNumRef) ensures *b == self.r { unimplemented!() }
            #[verifier::external_body] pub fn s(&self) -> (b: &super::bn::BigNumRef) ensures *b == self.s { unimplemented!() }
        }
        }
    }
    pub mod x509 {
        use vstd::prelude::*;
        verus! {
        pub struct X509 { pub not_after: super::asn1::Asn1Time }
        impl X509 {
            #[verifier::external_body]
            pub fn not_after(&self) -> (r: &super::asn1::Asn1TimeRef) ensures *r == self.not_after { unimplemented!() }
        }
        }
    }
}
