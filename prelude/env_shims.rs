// Trusted model of the hook-data environment (HashMap<String, String> seen as a map of texts) and small string helpers.
pub mod venv {
    use vstd::prelude::*;
    use std::collections::HashMap;
    verus! {
    pub uninterp spec fn envmap(h: HashMap<String, String>) -> Map<Seq<char>, Seq<char>>;
    pub uninterp spec fn proc_env() -> Map<Seq<char>, Seq<char>>;    // the daemon's own environment (std::env::vars)
    // HashMap::new()  (rule T-MAP)
    #[verifier::external_body]
    pub fn new_map() -> (r: HashMap<String, String>) ensures envmap(r) == Map::<Seq<char>, Seq<char>>::empty() { HashMap::new() }
    // HashMap<String,String>::clone  (rule T-MAP: `M.clone()` on an environment map)
    #[verifier::external_body]
    pub fn clone_map(h: &HashMap<String, String>) -> (r: HashMap<String, String>) ensures envmap(r) == envmap(*h) { h.clone() }
    // A.extend(B.iter().map(|(k, v)| (k.to_owned(), v.to_owned())))  /  A.extend(B.clone()): B's entries override A's
    #[verifier::external_body]
    pub fn extend_from(a: &mut HashMap<String, String>, b: &HashMap<String, String>)
        ensures envmap(*final(a)) == envmap(*old(a)).union_prefer_right(envmap(*b)) { unimplemented!() }
    // M.is_empty() on an environment map
    #[verifier::external_body]
    pub fn map_is_empty(h: &HashMap<String, String>) -> (r: bool) ensures r == (envmap(*h) =~= Map::<Seq<char>, Seq<char>>::empty()) { h.is_empty() }
    // documented precedence of one set_env call: the given variables over what is already set over the daemon's environment
    pub open spec fn set_env_spec(old: Map<Seq<char>, Seq<char>>, given: Map<Seq<char>, Seq<char>>) -> Map<Seq<char>, Seq<char>> {
        proc_env().union_prefer_right(old).union_prefer_right(given)
    }
    pub uninterp spec fn trim_start(s: Seq<char>, p: Seq<char>) -> Seq<char>;
    // S.trim_start_matches(P).to_string()
    #[verifier::external_body]
    pub fn trim_start_matches_str(s: &str, p: &str) -> (r: String) ensures r@ == trim_start(s@, p@) { unimplemented!() }
    #[verifier::external_body]
    pub fn cat2(a: &str, b: &str) -> (r: String) ensures r@ == a@ + b@ { unimplemented!() }
    }
}
