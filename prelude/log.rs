// log crate: calls are erased by T-LOG; the module exists so `use log;` style paths resolve.
pub mod log { }
