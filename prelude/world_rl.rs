// Ghost world for the rate-limit unit: a monotone clock and the history of admissions.
verus! {
pub tracked struct World {
    pub ghost clock: int,             // the latest instant observed (nanoseconds)
    pub ghost admissions: Seq<int>,   // every instant ever pushed on a limiter's log (never pruned)
}
}
pub mod vtime {
    use vstd::prelude::*;
    use crate::*;
    use std::time::{Duration, Instant};
    verus! {
    // std::time::Instant::now, with the monotone-clock assumption made explicit (rule T-CLOCK)
    #[verifier::external_body]
    pub fn now(Tracked(w): Tracked<&mut World>) -> (r: Instant)
        ensures inst(r) >= old(w).clock, final(w).clock == inst(r), final(w).admissions == old(w).admissions
    { Instant::now() }
    // tokio::time::sleep(d).await  (T-ASYNC): returns after at least d
    #[verifier::external_body]
    pub fn sleep(d: Duration, Tracked(w): Tracked<&mut World>)
        ensures final(w).clock >= old(w).clock + dur(d), final(w).admissions == old(w).admissions
    { }
    // comparison operators on Instant / Duration (rule T-CMP): the operator is kept, only its spelling changes
    pub open spec fn s_inst_gt(a: Instant, b: Instant) -> bool { inst(a) > inst(b) }
    pub open spec fn s_inst_ge(a: Instant, b: Instant) -> bool { inst(a) >= inst(b) }
    pub open spec fn s_inst_lt(a: Instant, b: Instant) -> bool { inst(a) < inst(b) }
    pub open spec fn s_inst_le(a: Instant, b: Instant) -> bool { inst(a) <= inst(b) }
    #[verifier::external_body] #[verifier::when_used_as_spec(s_inst_gt)]
    pub fn inst_gt(a: Instant, b: Instant) -> (r: bool) ensures r == s_inst_gt(a, b) { a > b }
    #[verifier::external_body] #[verifier::when_used_as_spec(s_inst_ge)]
    pub fn inst_ge(a: Instant, b: Instant) -> (r: bool) ensures r == s_inst_ge(a, b) { a >= b }
    #[verifier::external_body] #[verifier::when_used_as_spec(s_inst_lt)]
    pub fn inst_lt(a: Instant, b: Instant) -> (r: bool) ensures r == s_inst_lt(a, b) { a < b }
    #[verifier::external_body] #[verifier::when_used_as_spec(s_inst_le)]
    pub fn inst_le(a: Instant, b: Instant) -> (r: bool) ensures r == s_inst_le(a, b) { a <= b }
    }
}
pub mod titer {
    use vstd::prelude::*;
    verus! {
    // V.iter().filter(C).count()   (rule T-ITER): std semantics, assumed
    #[verifier::external_body]
    pub fn count_filter<T, F: Fn(&&T) -> bool>(v: &Vec<T>, f: F) -> (r: usize)
        requires forall|x: &&T| f.requires((x,))
        ensures forall|p: spec_fn(T) -> bool| (forall|t: T, b: bool| #[trigger] f.ensures((&&t,), b) ==> b == p(t))
                    ==> r == (#[trigger] v@.filter(p)).len()
    { v.iter().filter(f).count() }
    // V.sort_by(|a, b| a.1.partial_cmp(&b.1).unwrap())  on Vec<(usize, Duration)>  (rule T-ITER): a
    // permutation, ascending by the second component; assumed
    #[verifier::external_body]
    pub fn sort_by_duration_asc(v: &mut Vec<(usize, std::time::Duration)>)
        ensures final(v)@.len() == old(v)@.len(),
            forall|i: int| 0 <= i < final(v)@.len() ==> old(v)@.contains(#[trigger] final(v)@[i]),
            forall|i: int, j: int| 0 <= i <= j < final(v)@.len() ==> crate::dur(final(v)@[i].1) <= crate::dur(final(v)@[j].1),
    { v.sort_by(|a, b| a.1.partial_cmp(&b.1).unwrap()) }
    // V.retain(C)   (rule T-ITER): std semantics, assumed
    #[verifier::external_body]
    pub fn retain<T, F: FnMut(&T) -> bool>(v: &mut Vec<T>, f: F)
        requires forall|x: &T| f.requires((x,))
        ensures forall|p: spec_fn(T) -> bool| (forall|t: T, b: bool| #[trigger] f.ensures((&t,), b) ==> b == p(t))
                    ==> final(v)@ == #[trigger] old(v)@.filter(p)
    { v.retain(f) }
    }
}
