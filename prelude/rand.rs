// Trusted model of rand::{thread_rng, Rng::gen_range} on a Range<Duration>.
pub mod rand {
    use vstd::prelude::*;
    use std::time::Duration;
    verus! {
    pub struct ThreadRng { pub x: u8 }
    #[verifier::external_body]
    pub fn thread_rng() -> ThreadRng { unimplemented!() }
    impl ThreadRng {
        // gen_range panics on an empty range
        #[verifier::external_body]
        pub fn gen_range(&mut self, r: std::ops::Range<Duration>) -> (d: Duration)
            requires crate::dur(r.start) < crate::dur(r.end)
            ensures crate::dur(r.start) <= crate::dur(d) < crate::dur(r.end)
        { unimplemented!() }
    }
    // Duration::ZERO (rule T-CONST-STD)
    #[verifier::external_body]
    pub fn duration_zero() -> (d: Duration) ensures crate::dur(d) == 0 { Duration::ZERO }
    }
}
