// Trusted stubs around acme_proto.rs::request_certificate.  Each callee is a contract only (its own contract is
// proved in its own unit where it has one); effects the properties talk about are stated over the ghost World, and
// "X happens only after Y" is a precondition of X.
pub mod jws {
    use vstd::prelude::*;
    use crate::shims::*;
    verus! {
    pub uninterp spec fn utf8(s: Seq<char>) -> Seq<u8>;
    pub uninterp spec fn lit_bytes(s: Seq<char>) -> Seq<u8>;     // b"..." literal with that text
    // b"..." (rule T-BYTES): the bytes of the literal
    #[verifier::external_body]
    pub fn bytes_lit(s: &'static str) -> (r: &'static [u8]) ensures r@ == lit_bytes(s@) { s.as_bytes() }
    // s is a kid-form JWS (proved in unit jws): signed by `key`, kid = account URL, this payload, this url, this nonce
    pub uninterp spec fn kid_request(s: Seq<char>, key: AccountKey, kid: Seq<char>, payload: Seq<u8>, url: Seq<char>, nonce: Seq<char>) -> bool;
    #[verifier::external_body]
    pub fn encode_kid(key_pair: &KeyPair, sign_alg: &JwsSignatureAlgorithm, key_id: &str, payload: &[u8], url: &str, nonce: &str) -> (r: Result<String, crate::acme_common::error::Error>)
        ensures r matches Ok(s) ==> forall|k: AccountKey| k.key == *key_pair && k.signature_algorithm == *sign_alg ==>
            #[trigger] kid_request(s@, k, key_id@, payload@, url@, nonce@)
    { unimplemented!() }
    }
}
pub mod account {
    use vstd::prelude::*;
    use crate::shims::*;
    verus! {
    pub uninterp spec fn acct_url(a: Account, endpoint_name: Seq<char>) -> Seq<char>;
    }
}
pub mod shims {
    use vstd::prelude::*;
    use crate::*;
    use crate::acme_common::error::Error;
    verus! {
    pub assume_specification<T> [std::mem::drop] (x: T);
    // ---- locks (async_lock::RwLock behind Arc): guards give access to the protected value.  Scheduling between tasks is not
    // modelled (C12); what one task holds is: `Locks.held` is the set of locks the task has a guard of, each with the rank of its type.
    // The contract of read() / write() is the lock discipline of the daemon: a task takes no lock it already holds (the lock is
    // write-preferring: a second read guard waits for ever behind a queued writer, a second write guard behind the first) and
    // takes locks in rank order (the account before the endpoint, as every path of request_certificate does) - so no task can
    // wait for itself and no two tasks can wait for each other.  Guards are released where Rust drops them (rule T-DROP).
    pub struct RwLock<T> { pub v: T, pub id: Ghost<int> }
    pub struct ReadGuard<'a, T> { pub r: &'a T }
    pub struct WriteGuard<'a, T> { pub r: &'a mut T }
    pub tracked struct Locks { pub ghost held: Set<(int, int)> }   // (rank, identity) of every lock the task has a guard of
    impl Locks {
        pub proof fn new() -> (tracked r: Locks) ensures r.held == Set::<(int, int)>::empty() { Locks { held: Set::empty() } }
        pub proof fn release(tracked &mut self, l: (int, int)) ensures final(self).held == old(self).held.remove(l) { self.held = self.held.remove(l); }
    }
    pub trait Ranked { spec fn rank() -> int; }
    impl Ranked for Account { open spec fn rank() -> int { 0 } }
    impl Ranked for Endpoint { open spec fn rank() -> int { 1 } }
    pub open spec fn lid<T: Ranked>(l: std::sync::Arc<RwLock<T>>) -> (int, int) { (T::rank(), l.id@) }
    pub open spec fn may_take(held: Set<(int, int)>, rank: int) -> bool { forall|k: (int, int)| #[trigger] held.contains(k) ==> k.0 < rank }
    impl<T: Ranked> RwLock<T> {
        #[verifier::external_body] pub fn read(&self, Tracked(lk): Tracked<&mut Locks>) -> (g: ReadGuard<'_, T>)
            requires !old(lk).held.contains((T::rank(), self.id@)), //@C07.a_task_never_takes_a_lock_it_already_holds,C09.a_task_never_takes_a_lock_it_already_holds
                may_take(old(lk).held.remove((T::rank(), self.id@)), T::rank()), //@C07.locks_are_taken_in_one_order_account_before_endpoint,C09.locks_are_taken_in_one_order_account_before_endpoint
            ensures final(lk).held == old(lk).held.insert((T::rank(), self.id@)) { unimplemented!() }
        #[verifier::external_body] pub fn write(&self, Tracked(lk): Tracked<&mut Locks>) -> (g: WriteGuard<'_, T>)
            requires !old(lk).held.contains((T::rank(), self.id@)), //@C07.a_task_never_takes_a_lock_it_already_holds,C09.a_task_never_takes_a_lock_it_already_holds
                may_take(old(lk).held.remove((T::rank(), self.id@)), T::rank()), //@C07.locks_are_taken_in_one_order_account_before_endpoint,C09.locks_are_taken_in_one_order_account_before_endpoint
            ensures final(lk).held == old(lk).held.insert((T::rank(), self.id@)) { unimplemented!() }
    }
    impl<'a, T> std::ops::Deref for ReadGuard<'a, T> { type Target = T; #[verifier::external_body] fn deref(&self) -> (r: &T) ensures *r == *self.r { self.r } }
    impl<'a, T> std::ops::Deref for WriteGuard<'a, T> { type Target = T; #[verifier::external_body] fn deref(&self) -> &T { self.r } }
    impl<'a, T> std::ops::DerefMut for WriteGuard<'a, T> { #[verifier::external_body] fn deref_mut(&mut self) -> &mut T { self.r } }
    pub type AccountSync = std::sync::Arc<RwLock<Account>>;
    pub type EndpointSync = std::sync::Arc<RwLock<Endpoint>>;

    #[derive(Clone, Copy, PartialEq, Eq)]
    pub struct KeyType { pub id: u8 }
    impl vstd::std_specs::cmp::PartialEqSpecImpl for KeyType {
        open spec fn obeys_eq_spec() -> bool { true }
        open spec fn eq_spec(&self, other: &KeyType) -> bool { *self == *other }
    }
    pub struct KeyPair { pub key_type: KeyType, pub id: Ghost<int> }
    // acme_common::crypto::gen_keypair (unit keys): a fresh key of the requested type, in memory only - it is in no file
    #[verifier::external_body]
    pub fn gen_keypair(key_type: KeyType) -> (r: Result<KeyPair, Error>) ensures r matches Ok(k) ==> k.key_type == key_type && fresh_key(k.id@) { unimplemented!() }
    // a key that has just been generated is not the key of any file
    pub uninterp spec fn fresh_key(id: int) -> bool;
    pub struct JwsSignatureAlgorithm { pub id: u8 }
    pub struct AccountKey { pub key: KeyPair, pub signature_algorithm: JwsSignatureAlgorithm }
    pub struct AccountEndpoint { pub account_url: String }
    pub struct Account { pub current_key: AccountKey, pub name: String }
    pub struct Endpoint { pub name: String }
    impl Account {
        #[verifier::external_body]
        pub fn get_endpoint(&self, n: &str) -> (r: Result<&AccountEndpoint, Error>)
            ensures r matches Ok(ep) ==> ep.account_url@ == crate::account::acct_url(*self, n@) { unimplemented!() }
        // account.rs::synchronize / register (unit account)
        #[verifier::external_body]
        pub fn synchronize(&mut self, e: &mut Endpoint, Tracked(w): Tracked<&mut World>) -> (r: Result<(), Error>)
            ensures *final(w) == *old(w) { unimplemented!() }
        #[verifier::external_body]
        pub fn register(&mut self, e: &mut Endpoint, Tracked(w): Tracked<&mut World>) -> (r: Result<(), Error>)
            ensures *final(w) == *old(w) { unimplemented!() }
    }

    #[derive(PartialEq)]
    pub enum IdentifierType { Dns, Ip }
    impl vstd::std_specs::cmp::PartialEqSpecImpl for IdentifierType {
        open spec fn obeys_eq_spec() -> bool { true }
        open spec fn eq_spec(&self, other: &IdentifierType) -> bool { *self == *other }
    }
    #[derive(Clone, Copy, PartialEq)]
    pub enum Challenge { Http01, Dns01, TlsAlpn01 }
    pub struct Identifier { pub id_type: IdentifierType, pub value: String, pub challenge: Challenge }
    pub struct FileManager { pub opaque: u8 }
    #[derive(Clone, Copy)]
    pub struct HashFunction { pub id: u8 }
    pub struct SubjectAttributes { pub opaque: u8 }
    #[derive(Clone)]
    pub struct HookType { pub id: u8 }
    pub struct ChallengeHookData { pub is_clean_hook: bool, pub rest: Ghost<int> }
    pub open spec fn clean_view(d: (ChallengeHookData, HookType)) -> CleanView { CleanView { data: data_id(d.0), ty: d.1.id as int } }
    pub open spec fn clean_views(s: Seq<(ChallengeHookData, HookType)>) -> Seq<CleanView> { s.map_values(|d: (ChallengeHookData, HookType)| clean_view(d)) }
    pub uninterp spec fn data_id(d: ChallengeHookData) -> int;
    pub struct Certificate {
        pub identifiers: Vec<Identifier>, pub csr_digest: HashFunction, pub subject_attributes: SubjectAttributes,
        pub kp_reuse: bool, pub file_manager: FileManager, pub key_type: KeyType,
    }
    // the configured entry an authorization is solved with (certificate.rs::get_identifier_from_str, unit schedule)
    pub uninterp spec fn chosen_for(c: Certificate, identifier: Seq<char>, wildcard: bool) -> Option<Identifier>;
    impl Certificate {
        #[verifier::external_body] pub fn warn(&self, m: &str) {}
        #[verifier::external_body] pub fn info(&self, m: &str) {}
        #[verifier::external_body] pub fn trace(&self, m: &str) {}
        #[verifier::external_body] pub fn identifier_list(&self) -> String { unimplemented!() }
        #[verifier::external_body]
        pub fn get_identifier_from_str(&self, s: &str, wildcard: bool) -> (r: Result<Identifier, Error>)
            ensures r matches Ok(d) ==> chosen_for(*self, s@, wildcard) == Some(d) { unimplemented!() }
        // certificate.rs::call_challenge_hooks: runs the challenge hooks of the entry chosen for (identifier, wildcard)
        #[verifier::external_body]
        pub fn call_challenge_hooks(&self, file_name: &str, proof: &str, raw_proof: Option<String>, identifier: &str, wildcard: bool,
                                    Tracked(w): Tracked<&mut World>) -> (r: Result<(ChallengeHookData, HookType), Error>)
            requires
                // challenge hooks are run only for the authorization just fetched, and only while it is pending
                old(w).cur_auth matches Some(a) && a.pending && a.identifier == identifier@ && a.wildcard == wildcard, //@C05.challenge_hooks_only_for_the_pending_authorization_being_solved
                // the hooks get the file name and the proofs of one and the same challenge, computed for one key, each in its own place
                exists|c: structs::Challenge, k: KeyPair| file_name@ == structs::file_name_of(c) && proof@ == structs::proof_text_of(c, k)
                    && structs::opt_text(raw_proof) == structs::raw_proof_of(c, k), //@C05.challenge_hooks_get_the_file_name_and_the_proofs_of_the_challenge,C10.challenge_hooks_get_the_file_name_and_the_proofs_of_the_challenge
            ensures
                final(w).cur_auth == old(w).cur_auth, final(w).downloaded == old(w).downloaded, final(w).key_written == old(w).key_written,
                final(w).cert_written == old(w).cert_written, final(w).pair_installed == old(w).pair_installed, final(w).settled == old(w).settled, final(w).disk_key == old(w).disk_key,
                match r {
                    Ok(t) => final(w).hooks_ok && !t.0.is_clean_hook
                        && final(w).pending_clean == old(w).pending_clean.push(clean_view((ChallengeHookData { is_clean_hook: true, ..t.0 }, t.1))),
                    Err(_) => !final(w).hooks_ok && final(w).pending_clean == old(w).pending_clean,
                }
        { unimplemented!() }
        // certificate.rs::call_challenge_hooks_clean: the clean hooks owed are run in order, with the recorded data
        #[verifier::external_body]
        pub fn call_challenge_hooks_clean(&self, data: &ChallengeHookData, hook_type: HookType, Tracked(w): Tracked<&mut World>) -> (r: Result<(), Error>)
            requires old(w).pending_clean.len() > 0 && old(w).pending_clean[0] == clean_view((*data, hook_type)), //@C10.clean_hooks_get_the_recorded_data_with_is_clean_hook_set
            ensures final(w).pending_clean == old(w).pending_clean.skip(1),
                final(w).cur_auth == old(w).cur_auth, final(w).hooks_ok == old(w).hooks_ok, final(w).downloaded == old(w).downloaded,
                final(w).key_written == old(w).key_written, final(w).cert_written == old(w).cert_written, final(w).pair_installed == old(w).pair_installed, final(w).settled == old(w).settled, final(w).disk_key == old(w).disk_key,
        { unimplemented!() }
    }
    pub mod structs {
        use vstd::prelude::*;
        use super::*;
        verus! {
        pub struct TokenChallenge { pub url: String, pub token: String }
        pub enum Challenge { Http01(TokenChallenge), Dns01(TokenChallenge), TlsAlpn01(TokenChallenge), Unknown }
        pub uninterp spec fn proof_text_of(c: Challenge, k: KeyPair) -> Seq<char>;
        pub uninterp spec fn raw_proof_of(c: Challenge, k: KeyPair) -> Option<Seq<char>>;
        pub uninterp spec fn file_name_of(c: Challenge) -> Seq<char>;
        pub open spec fn opt_text(o: Option<String>) -> Option<Seq<char>> { match o { Some(s) => Some(s@), None => None } }
        impl Challenge {
            // (verified in unit chalproof: the values RFC 8555 section 8 / RFC 8737 prescribe for the token and the key)
            #[verifier::external_body] pub fn get_proof(&self, k: &KeyPair) -> (r: Result<(String, Option<String>), Error>)
                ensures r matches Ok(t) ==> t.0@ == proof_text_of(*self, *k) && opt_text(t.1) == raw_proof_of(*self, *k) { unimplemented!() }
            #[verifier::external_body] pub fn get_file_name(&self) -> (r: String) ensures r@ == file_name_of(*self) { unimplemented!() }
            #[verifier::external_body] pub fn get_url(&self) -> String { unimplemented!() }
        }
        #[derive(PartialEq)]
        pub enum AuthorizationStatus { Pending, Valid, Invalid, Deactivated, Expired, Revoked }
        impl vstd::std_specs::cmp::PartialEqSpecImpl for AuthorizationStatus {
            open spec fn obeys_eq_spec() -> bool { true }
            open spec fn eq_spec(&self, other: &AuthorizationStatus) -> bool { *self == *other }
        }
        impl std::fmt::Display for AuthorizationStatus { #[verifier::external_body] fn fmt(&self, f: &mut std::fmt::Formatter) -> std::fmt::Result { unimplemented!() } }
        #[derive(PartialEq)]
        pub enum OrderStatus { Pending, Ready, Processing, Valid, Invalid }
        impl vstd::std_specs::cmp::PartialEqSpecImpl for OrderStatus {
            open spec fn obeys_eq_spec() -> bool { true }
            open spec fn eq_spec(&self, other: &OrderStatus) -> bool { *self == *other }
        }
        pub struct OrdIdentifier { pub value: String }
        impl std::fmt::Display for OrdIdentifier { #[verifier::external_body] fn fmt(&self, f: &mut std::fmt::Formatter) -> std::fmt::Result { unimplemented!() } }
        pub struct Authorization { pub identifier: OrdIdentifier, pub status: AuthorizationStatus, pub challenges: Vec<Challenge>, pub wildcard: Option<bool> }
        impl Authorization { #[verifier::external_body] pub fn get_error(&self) -> Option<Error> { unimplemented!() } }
        // structs/order.rs::Identifier as an order object carries it (the CA's own list, not the configuration's)
        pub struct OrderIdentifier { pub id_type: crate::shims::IdentifierType, pub value: String }
        pub struct Order { pub status: OrderStatus, pub authorizations: Vec<String>, pub finalize: String, pub certificate: Option<String>,
                           pub identifiers: Vec<OrderIdentifier>, pub expires: Option<String>, pub not_before: Option<String>, pub not_after: Option<String> }
        impl Order { #[verifier::external_body] pub fn get_error(&self) -> Option<Error> { unimplemented!() } }
        pub struct NewOrder { pub ids: Ghost<Seq<Identifier>> }
        impl NewOrder {
            // structs/order.rs::NewOrder::new (unit ident)
            #[verifier::external_body] pub fn new(ids: &Vec<Identifier>) -> (r: NewOrder) ensures r.ids@ == ids@ { unimplemented!() }
        }
        pub enum AcmeError { AccountDoesNotExist, Other }
        }
    }
    pub open spec fn wildcard_of(a: structs::Authorization) -> bool { match a.wildcard { Some(b) => b, None => false } }
    pub open spec fn auth_view(a: structs::Authorization) -> AuthView {
        AuthView { identifier: a.identifier.value@, wildcard: wildcard_of(a), pending: a.status is Pending }
    }
    // acme_proto.rs: `impl PartialEq<structs::Challenge> for Challenge` (unit chalproof): same challenge type
    pub open spec fn same_type(c: Challenge, o: structs::Challenge) -> bool {
        (c is Http01 && o is Http01) || (c is Dns01 && o is Dns01) || (c is TlsAlpn01 && o is TlsAlpn01)
    }
    impl vstd::std_specs::cmp::PartialEqSpecImpl<structs::Challenge> for Challenge {
        open spec fn obeys_eq_spec() -> bool { true }
        open spec fn eq_spec(&self, other: &structs::Challenge) -> bool { same_type(*self, *other) }
    }
    impl PartialEq<structs::Challenge> for Challenge {
        #[verifier::external_body] fn eq(&self, other: &structs::Challenge) -> (r: bool) { unimplemented!() }
    }
    pub struct HttpError { pub x: u8 }
    pub uninterp spec fn err_is(e: HttpError, a: structs::AcmeError) -> bool;
    impl HttpError {
        #[verifier::external_body] pub fn in_err(e: HttpError) -> Error { unimplemented!() }
        // (verified in unit http: an ACME problem document of exactly that type)
        #[verifier::external_body] pub fn is_acme_err(&self, a: structs::AcmeError) -> (r: bool) ensures r == err_is(*self, a) { unimplemented!() }
    }
    pub mod serde_json {
        use vstd::prelude::*;
        use super::*;
        verus! {
        pub uninterp spec fn ser_spec<T>(t: T) -> Seq<char>;
        #[verifier::external_body] pub fn to_string<T>(x: &T) -> (r: Result<String, Error>) ensures r matches Ok(s) ==> s@ == ser_spec(*x) { unimplemented!() }
        }
    }
    pub struct JsonValue { pub text: Ghost<Seq<char>> }
    pub uninterp spec fn csr_json(b64: Seq<char>) -> Seq<char>;      // {"csr":"<b64>"}
    // json!({ "csr": v })  (rule T-JSON)
    #[verifier::external_body]
    pub fn json_csr(v: String) -> (r: JsonValue) ensures r.text@ == csr_json(v@) { unimplemented!() }
    impl JsonValue { #[verifier::external_body] pub fn to_string(&self) -> (r: String) ensures r@ == self.text@ { unimplemented!() } }
    // acme_common::crypto::X509Certificate as far as request_certificate may use it on the downloaded body: from_pem reads the FIRST
    // certificate of the text, to_pem writes that one certificate - a chain is not what comes back
    pub struct OpenSslError { pub x: u8 }
    impl From<OpenSslError> for Error { #[verifier::external_body] fn from(e: OpenSslError) -> Self { unimplemented!() } }
    impl vstd::std_specs::convert::FromSpecImpl<OpenSslError> for Error {
        open spec fn obeys_from_spec() -> bool { false }
        open spec fn from_spec(e: OpenSslError) -> Self { arbitrary() }
    }
    pub struct X509 { pub id: Ghost<int> }
    pub struct X509Certificate { pub inner_cert: X509 }
    pub uninterp spec fn first_cert_of(pem: Seq<u8>) -> Option<int>;
    pub uninterp spec fn cert_pem(id: int) -> Seq<u8>;
    impl X509 {
        #[verifier::external_body] pub fn to_pem(&self) -> (r: Result<Vec<u8>, OpenSslError>) ensures r matches Ok(v) ==> v@ == cert_pem(self.id@) { unimplemented!() }
    }
    impl X509Certificate {
        #[verifier::external_body]
        pub fn from_pem(pem_data: &[u8]) -> (r: Result<X509Certificate, Error>)
            ensures match r { Ok(c) => first_cert_of(pem_data@) == Some(c.inner_cert.id@), Err(_) => first_cert_of(pem_data@) is None } { unimplemented!() }
        #[verifier::external_body] pub fn expires_in(&self) -> Result<std::time::Duration, Error> { unimplemented!() }
        #[verifier::external_body] pub fn subject_alt_names(&self) -> std::collections::HashSet<String> { unimplemented!() }
    }
    // the CSR (acme_common Csr::new, unit x509): what it was built from
    pub struct Csr { pub key: Ghost<int>, pub dns: Ghost<Seq<Seq<char>>>, pub ip: Ghost<Seq<Seq<char>>> }
    pub uninterp spec fn csr_b64(c: Csr) -> Seq<char>;
    impl Csr {
        #[verifier::external_body]
        pub fn new(k: &KeyPair, d: HashFunction, domains: &[String], ips: &[String], attrs: &SubjectAttributes) -> (r: Result<Csr, Error>)
            ensures r matches Ok(c) ==> c.key@ == k.id@ && c.dns@ == domains@.map_values(|s: String| s@) && c.ip@ == ips@.map_values(|s: String| s@) { unimplemented!() }
        #[verifier::external_body] pub fn to_pem(&self) -> Result<String, Error> { unimplemented!() }
        #[verifier::external_body] pub fn to_der_base64(&self) -> (r: Result<String, Error>) ensures r matches Ok(s) ==> s@ == csr_b64(*self) { unimplemented!() }
    }
    // cert.identifiers.iter().filter(|e| e.id_type == T).map(|e| e.value.to_owned()).collect()  (rule T-ITER)
    pub open spec fn values_spec(ids: Seq<Identifier>, t: IdentifierType) -> Seq<Seq<char>> {
        ids.filter(|e: Identifier| e.id_type == t).map_values(|e: Identifier| e.value@)
    }
    #[verifier::external_body]
    pub fn values_of_type(ids: &Vec<Identifier>, t: IdentifierType) -> (r: Vec<String>)
        ensures r@.map_values(|s: String| s@) == values_spec(ids@, t) { unimplemented!() }
    // the same chain over the identifiers an order object of the CA lists (structs::order::Identifier): whatever the CA answered
    pub open spec fn order_values_spec(ids: Seq<structs::OrderIdentifier>, t: IdentifierType) -> Seq<Seq<char>> {
        ids.filter(|e: structs::OrderIdentifier| e.id_type == t).map_values(|e: structs::OrderIdentifier| e.value@)
    }
    #[verifier::external_body]
    pub fn order_values_of_type(ids: &Vec<structs::OrderIdentifier>, t: IdentifierType) -> (r: Vec<String>)
        ensures r@.map_values(|s: String| s@) == order_values_spec(ids@, t) { unimplemented!() }
    pub mod certificate {
        use vstd::prelude::*;
        use super::*;
        verus! {
        // acme_proto/certificate.rs::get_key_pair: re-reads the key file when kp_reuse is set and it is usable, otherwise
        // generates a key AND WRITES IT to the key file at once
        #[verifier::external_body]
        pub fn get_key_pair(c: &Certificate, Tracked(w): Tracked<&mut World>) -> (r: Result<KeyPair, Error>)
            requires
                // C03: replacing the installed key is only harmless once the certificate that goes with the new key is in hand
                c.kp_reuse || !old(w).pair_installed, //@C03.new_key_is_written_only_once_its_certificate_is_in_hand
            ensures final(w).cur_auth == old(w).cur_auth, final(w).hooks_ok == old(w).hooks_ok, final(w).pending_clean == old(w).pending_clean,
                final(w).downloaded == old(w).downloaded, final(w).cert_written == old(w).cert_written, final(w).pair_installed == old(w).pair_installed, final(w).settled == old(w).settled,
                // the key handed back is the key in the key file (read from it, or generated and stored)
                r matches Ok(k) ==> final(w).disk_key == Some(k.id@),
        { unimplemented!() }
        }
    }
    pub mod storage {
        use vstd::prelude::*;
        use super::*;
        verus! {
        // the body is a parseable chain whose leaf key is the key in the key file: nothing in request_certificate checks it
        pub uninterp spec fn validated_against_key_file(data: Seq<u8>) -> bool;
        #[verifier::external_body]
        pub fn write_certificate(fm: &FileManager, data: &[u8], Tracked(w): Tracked<&mut World>) -> (r: Result<(), Error>)
            requires
                old(w).downloaded matches Some(d) && crate::utf8_bytes(d) == data@, //@C02.certificate_file_is_the_downloaded_chain
                validated_against_key_file(data@), //@C03.certificate_is_validated_against_the_key_before_it_is_written
            ensures final(w).cert_written == (old(w).cert_written || r is Ok),
                final(w).cur_auth == old(w).cur_auth, final(w).hooks_ok == old(w).hooks_ok, final(w).pending_clean == old(w).pending_clean,
                final(w).downloaded == old(w).downloaded, final(w).key_written == old(w).key_written, final(w).pair_installed == old(w).pair_installed, final(w).settled == old(w).settled, final(w).disk_key == old(w).disk_key,
        { unimplemented!() }
        }
    }
    pub mod http {
        use vstd::prelude::*;
        use super::*;
        use super::structs::*;
        verus! {
        pub open spec fn same_but_auth(a: World, b: World) -> bool {
            a.hooks_ok == b.hooks_ok && a.pending_clean == b.pending_clean && a.downloaded == b.downloaded && a.key_written == b.key_written
                && a.cert_written == b.cert_written && a.pair_installed == b.pair_installed && a.disk_key == b.disk_key
        }
        #[verifier::external_body]
        pub fn refresh_directory(e: &mut Endpoint, Tracked(w): Tracked<&mut World>) -> (r: Result<(), HttpError>) ensures *final(w) == *old(w) { unimplemented!() }
        #[verifier::external_body]
        pub fn new_order<F: Fn(&str, &str) -> Result<String, Error>>(e: &mut Endpoint, d: &F, Tracked(w): Tracked<&mut World>) -> (r: Result<(Order, String), HttpError>)
            ensures *final(w) == *old(w) { unimplemented!() }
        // the authorization just fetched becomes the one being worked on
        #[verifier::external_body]
        pub fn get_authorization<F: Fn(&str, &str) -> Result<String, Error>>(e: &mut Endpoint, d: &F, u: &str, Tracked(w): Tracked<&mut World>) -> (r: Result<Authorization, HttpError>)
            ensures same_but_auth(*final(w), *old(w)), r matches Ok(a) ==> final(w).cur_auth == Some(auth_view(a)),
                // an authorization the CA already reports valid is settled as it is fetched
                final(w).settled == old(w).settled + (if r matches Ok(a) && a.status is Valid { 1int } else { 0int }) { unimplemented!() }
        // "the challenge is ready": only after the challenge hooks have succeeded
        #[verifier::external_body]
        pub fn post_jose_no_response<F: Fn(&str, &str) -> Result<String, Error>>(e: &mut Endpoint, d: &F, u: &str, Tracked(w): Tracked<&mut World>) -> (r: Result<(), HttpError>)
            requires old(w).hooks_ok, //@C05.challenge_is_announced_only_after_its_hooks_succeeded
            ensures !final(w).hooks_ok, final(w).cur_auth == old(w).cur_auth, final(w).pending_clean == old(w).pending_clean,
                final(w).downloaded == old(w).downloaded, final(w).key_written == old(w).key_written, final(w).cert_written == old(w).cert_written,
                final(w).pair_installed == old(w).pair_installed, final(w).settled == old(w).settled, final(w).disk_key == old(w).disk_key,
        { unimplemented!() }
        #[verifier::external_body]
        pub fn pool_authorization<F: Fn(&str, &str) -> Result<String, Error>, S: Fn(&Authorization) -> bool>(e: &mut Endpoint, d: &F, b: &S, u: &str, Tracked(w): Tracked<&mut World>) -> (r: Result<Authorization, HttpError>)
            requires forall|a: &Authorization| b.requires((a,))
            // (unit http: Ok only with an authorization on which the caller's predicate holds) - the authorization polled is settled then
            ensures *final(w) == (World { settled: old(w).settled + (if r is Ok { 1int } else { 0int }), ..*old(w) }),
                r matches Ok(a) ==> b.ensures((&a,), true) { unimplemented!() }
        #[verifier::external_body]
        pub fn pool_order<F: Fn(&str, &str) -> Result<String, Error>, S: Fn(&Order) -> bool>(e: &mut Endpoint, d: &F, b: &S, u: &str, Tracked(w): Tracked<&mut World>) -> (r: Result<Order, HttpError>)
            requires forall|o: &Order| b.requires((o,))
            // acme_proto/http.rs::pool_order (unit http): Ok only with an order on which the caller's predicate holds
            ensures *final(w) == *old(w), r matches Ok(o) ==> b.ensures((&o,), true) { unimplemented!() }
        #[verifier::external_body]
        pub fn finalize_order<F: Fn(&str, &str) -> Result<String, Error>>(e: &mut Endpoint, d: &F, u: &str, Tracked(w): Tracked<&mut World>) -> (r: Result<Order, HttpError>)
            ensures *final(w) == *old(w) { unimplemented!() }
        // acme_proto/http.rs::get_certificate (unit http): the result is the body of the download response
        #[verifier::external_body]
        pub fn get_certificate<F: Fn(&str, &str) -> Result<String, Error>>(e: &mut Endpoint, d: &F, u: &str, Tracked(w): Tracked<&mut World>) -> (r: Result<String, HttpError>)
            requires old(w).cert_url == Some(u@), //@C03.the_certificate_is_downloaded_from_the_url_the_order_gives,C02.the_certificate_is_downloaded_from_the_url_the_order_gives
            ensures final(w).cur_auth == old(w).cur_auth, final(w).hooks_ok == old(w).hooks_ok, final(w).pending_clean == old(w).pending_clean,
                final(w).key_written == old(w).key_written, final(w).cert_written == old(w).cert_written, final(w).pair_installed == old(w).pair_installed, final(w).settled == old(w).settled, final(w).disk_key == old(w).disk_key,
                match r { Ok(s) => final(w).downloaded == Some(s@), Err(_) => final(w).downloaded == old(w).downloaded },
        { unimplemented!() }
        }
    }
    }
}
