// Trusted model of the nom combinators used by acmed/src/duration.rs (rule T-NOM uncurries
// `comb(args)(input)` into `crate::nom::comb(args, input)`).
pub mod nom {
    use vstd::prelude::*;
    verus! {
    #[derive(Debug)]
    pub struct NomError { pub x: u8 }
    pub type IResult<I, O> = Result<(I, O), NomError>;
    // take_while_m_n(1, 1, pred)(input): exactly one leading character satisfying pred
    #[verifier::external_body]
    pub fn take_while_m_n<'a, F: Fn(char) -> bool>(m: usize, n: usize, pred: F, input: &'a str) -> (r: IResult<&'a str, &'a str>)
        requires m == 1 && n == 1, forall|c: char| pred.requires((c,))
        ensures r matches Ok(t) ==> t.1@.len() == 1 && input@.len() >= 1 && t.1@[0] == input@[0]
                    && t.0@ == input@.skip(1) && pred.ensures((input@[0],), true)
    { unimplemented!() }
    // take_while1(pred)(input) / take_while(pred)(input): the longest prefix of characters satisfying pred (non-empty for take_while1)
    pub open spec fn prefix_len<F: Fn(char) -> bool>(pred: F, s: Seq<char>) -> int
        decreases s.len()
    {
        if s.len() > 0 && pred.ensures((s[0],), true) { 1 + prefix_len(pred, s.skip(1)) } else { 0 }
    }
    #[verifier::external_body]
    pub fn take_while1<'a, F: Fn(char) -> bool>(pred: F, input: &'a str) -> (r: IResult<&'a str, &'a str>)
        requires forall|c: char| pred.requires((c,))
        ensures r matches Ok(t) ==> prefix_len(pred, input@) >= 1 && t.1@ == input@.take(prefix_len(pred, input@)) && t.0@ == input@.skip(prefix_len(pred, input@)),
            r is Err ==> prefix_len(pred, input@) == 0
    { unimplemented!() }
    #[verifier::external_body]
    pub fn take_while<'a, F: Fn(char) -> bool>(pred: F, input: &'a str) -> (r: IResult<&'a str, &'a str>)
        requires forall|c: char| pred.requires((c,))
        ensures r matches Ok(t) && t.1@ == input@.take(prefix_len(pred, input@)) && t.0@ == input@.skip(prefix_len(pred, input@))
    { unimplemented!() }
    // map_res(digit1, f)(input): the longest non-empty prefix of ASCII digits, converted by f; f's error is a parse error
    pub uninterp spec fn digits_prefix_len(s: Seq<char>) -> int;
    #[verifier::external_body]
    pub fn map_res_digit1<'a, T, E, F: Fn(&str) -> Result<T, E>>(f: F, input: &'a str) -> (r: IResult<&'a str, T>)
        requires forall|s: &str| f.requires((s,))
        ensures r matches Ok(t) ==> 1 <= digits_prefix_len(input@) <= input@.len()
                    && t.0@ == input@.skip(digits_prefix_len(input@))
                    && exists|s: &str| s@ == input@.take(digits_prefix_len(input@)) && #[trigger] f.ensures((s,), Ok(t.1))
    { unimplemented!() }
    // fold_many1(f, init, g)(input): applies f at least once, folding its results with g starting from init()
    // A successful fold_many1 is a chain: f succeeds n >= 1 times, each time on what the previous application left, and the
    // accumulator goes from init() through g(acc, output) to the result; the remaining input is what the last application left
    // (f fails on it, or does not consume - not needed here).
    pub open spec fn fold_chain<'a, O, R, F: Fn(&'a str) -> IResult<&'a str, O>, H: Fn() -> R, G: Fn(R, O) -> R>(
        f: F, init: H, g: G, input: &'a str, rest: &'a str, res: R, ins: Seq<&'a str>, outs: Seq<O>, accs: Seq<R>) -> bool
    {
        &&& fold_chain_min(1, f, init, g, input, rest, res, ins, outs, accs)
    }
    // (the same with at least `min` applications: fold_many0 is min = 0, fold_many1 is min = 1)
    pub open spec fn fold_chain_min<'a, O, R, F: Fn(&'a str) -> IResult<&'a str, O>, H: Fn() -> R, G: Fn(R, O) -> R>(
        min: int, f: F, init: H, g: G, input: &'a str, rest: &'a str, res: R, ins: Seq<&'a str>, outs: Seq<O>, accs: Seq<R>) -> bool
    {
        &&& outs.len() >= min && ins.len() == outs.len() + 1 && accs.len() == outs.len() + 1
        &&& ins[0] == input && ins.last() == rest && accs.last() == res
        &&& init.ensures((), accs[0])
        &&& forall|i: int| 0 <= i < outs.len() ==> f.ensures((#[trigger] ins[i],), Ok((ins[i + 1], outs[i])))
        &&& forall|i: int| 0 <= i < outs.len() ==> g.ensures((#[trigger] accs[i], outs[i]), accs[i + 1])
    }
    #[verifier::external_body]
    pub fn fold_many1<'a, O, R, F: Fn(&'a str) -> IResult<&'a str, O>, H: Fn() -> R, G: Fn(R, O) -> R>(f: F, init: H, g: G, input: &'a str) -> (r: IResult<&'a str, R>)
        requires forall|s: &'a str| f.requires((s,)), init.requires(()), forall|a: R, o: O| g.requires((a, o))
        ensures r matches Ok(t) ==> exists|ins: Seq<&'a str>, outs: Seq<O>, accs: Seq<R>| fold_chain(f, init, g, input, t.0, t.1, ins, outs, accs)
    { unimplemented!() }
    // fold_many0(f, init, g)(input): the same with zero or more applications (it never fails on an input f refuses at once)
    #[verifier::external_body]
    pub fn fold_many0<'a, O, R, F: Fn(&'a str) -> IResult<&'a str, O>, H: Fn() -> R, G: Fn(R, O) -> R>(f: F, init: H, g: G, input: &'a str) -> (r: IResult<&'a str, R>)
        requires forall|s: &'a str| f.requires((s,)), init.requires(()), forall|a: R, o: O| g.requires((a, o))
        ensures r matches Ok(t) ==> exists|ins: Seq<&'a str>, outs: Seq<O>, accs: Seq<R>| fold_chain_min(0, f, init, g, input, t.0, t.1, ins, outs, accs)
    { unimplemented!() }
    // S.len() of a str: its length in bytes, zero exactly for the empty text (rule T-STR)
    #[verifier::external_body]
    pub fn byte_len(s: &str) -> (n: usize) ensures (n == 0) == (s@.len() == 0) { s.len() }
    // S.chars().next()
    #[verifier::external_body]
    pub fn first_char(s: &str) -> (r: Option<char>)
        ensures r == (if s@.len() > 0 { Some(s@[0]) } else { None })
    { unimplemented!() }
    pub uninterp spec fn parse_u64_spec(s: Seq<char>) -> Option<u64>;
    #[derive(Debug)]
    pub struct ParseIntError { pub x: u8 }
    // S.parse::<u64>()
    #[verifier::external_body]
    pub fn parse_u64(s: &str) -> (r: Result<u64, ParseIntError>)
        ensures match r { Ok(v) => parse_u64_spec(s@) == Some(v), Err(_) => parse_u64_spec(s@) is None }
    { unimplemented!() }
    }
}
