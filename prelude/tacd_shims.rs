// Trusted model of what tacd/src/openssl_server.rs uses: openssl::ssl, std::net listeners, threads, anyhow.
pub mod anyhow {
    use vstd::prelude::*;
    verus! {
    // `origin`: where an error comes from - 1 = an operation on one client's connection, 0 = anything else (set-up, bind, bail!)
    pub struct Error { pub x: u8, pub origin: Ghost<int> }
    #[verifier::external]
    impl std::fmt::Debug for Error { fn fmt(&self, f: &mut std::fmt::Formatter) -> std::fmt::Result { Ok(()) } }
    pub type Result<T> = std::result::Result<T, Error>;
    // bail!("..") expands to `return Err(anyhow!(..))`  (rule T-ANYHOW)
    #[verifier::external_body]
    pub fn msg(m: &str) -> (r: Error) ensures r.origin@ == 0 { unimplemented!() }
    pub uninterp spec fn from_stack(e: crate::openssl::error::ErrorStack) -> Error;
    pub uninterp spec fn from_io(e: crate::vnet::IoError) -> Error;
    #[verifier::external_body]
    pub broadcast proof fn axiom_from_io_origin(e: crate::vnet::IoError)
        ensures #[trigger] from_io(e).origin@ == e.origin@ {}
    #[verifier::external_body]
    pub broadcast proof fn axiom_from_stack_origin(s: crate::openssl::error::ErrorStack)
        ensures #[trigger] from_stack(s).origin@ == 0 {}
    pub broadcast group axiom_from_origin { axiom_from_io_origin, axiom_from_stack_origin }
    impl vstd::std_specs::convert::FromSpecImpl<crate::openssl::error::ErrorStack> for Error {
        open spec fn obeys_from_spec() -> bool { true }
        open spec fn from_spec(e: crate::openssl::error::ErrorStack) -> Self { from_stack(e) }
    }
    impl From<crate::openssl::error::ErrorStack> for Error {
        #[verifier::external_body] fn from(e: crate::openssl::error::ErrorStack) -> (r: Self) ensures r == from_stack(e) { unimplemented!() }
    }
    impl vstd::std_specs::convert::FromSpecImpl<crate::vnet::IoError> for Error {
        open spec fn obeys_from_spec() -> bool { true }
        open spec fn from_spec(e: crate::vnet::IoError) -> Self { from_io(e) }
    }
    impl From<crate::vnet::IoError> for Error {
        #[verifier::external_body] fn from(e: crate::vnet::IoError) -> (r: Self) ensures r == from_io(e) { unimplemented!() }
    }
    }
}
pub mod acme_common { pub mod crypto {
    use vstd::prelude::*;
    verus! {
    pub struct KeyPair { pub inner_key: crate::openssl::pkey::PKey }
    pub struct X509Certificate { pub inner_cert: crate::openssl::x509::X509 }
    }
}}
pub mod openssl {
    pub mod error { use vstd::prelude::*; verus! { pub struct ErrorStack { pub x: u8 } } }
    pub mod pkey { use vstd::prelude::*; verus! { pub struct PKey { pub x: u8 } } }
    pub mod x509 { use vstd::prelude::*; verus! { pub struct X509 { pub x: u8 } } }
    pub mod ssl {
        use vstd::prelude::*;
        use super::error::ErrorStack;
        verus! {
        #[derive(PartialEq, Eq)]
        #[derive(Debug)]
        pub struct AlpnError { pub code: u8 }
        impl AlpnError {
            pub const ALERT_FATAL: AlpnError = AlpnError { code: 2 };
            pub const NOACK: AlpnError = AlpnError { code: 3 };
        }
        pub struct SslMethod { pub x: u8 }
        impl SslMethod { #[verifier::external_body] pub fn tls() -> SslMethod { unimplemented!() } }
        pub struct SslRef { pub x: u8 }
        // openssl::ssl::HandshakeError and what it carries: every detail of a failed handshake is the peer's (or the network's) choice
        pub struct SslErrorCode { pub x: u8 }
        pub struct SslError { pub x: u8 }
        impl SslError {
            // Some for a TLS protocol error, None when the transport failed (EOF, reset)
            #[verifier::external_body] pub fn ssl_error(&self) -> Option<&ErrorStack> { unimplemented!() }
            #[verifier::external_body] pub fn io_error(&self) -> Option<&crate::vnet::IoError> { unimplemented!() }
            #[verifier::external_body] pub fn code(&self) -> SslErrorCode { unimplemented!() }
        }
        pub struct MidHandshakeSslStream { pub x: u8 }
        impl MidHandshakeSslStream {
            #[verifier::external_body] pub fn error(&self) -> &SslError { unimplemented!() }
            #[verifier::external_body] pub fn into_error(self) -> SslError { unimplemented!() }
            #[verifier::external_body] pub fn get_ref(&self) -> &crate::vnet::Stream { unimplemented!() }
        }
        pub enum HandshakeError { SetupFailure(ErrorStack), Failure(MidHandshakeSslStream), WouldBlock(MidHandshakeSslStream) }
        #[verifier::external]
        impl std::fmt::Debug for HandshakeError { fn fmt(&self, f: &mut std::fmt::Formatter) -> std::fmt::Result { Ok(()) } }
        pub struct SslStream { pub x: u8 }
        // what a connection thread may ask about a finished handshake: every answer is the peer's choice
        impl SslStream {
            #[verifier::external_body] pub fn ssl(&self) -> &SslRef { unimplemented!() }
            #[verifier::external_body] pub fn get_ref(&self) -> &crate::vnet::Stream { unimplemented!() }
            #[verifier::external_body] pub fn shutdown(&mut self) -> Result<u8, HandshakeError> { unimplemented!() }
        }
        impl SslRef {
            // None when the ClientHello carried no ALPN extension (the selection callback is not run then)
            #[verifier::external_body] pub fn selected_alpn_protocol(&self) -> Option<&[u8]> { unimplemented!() }
            #[verifier::external_body] pub fn version_str(&self) -> &'static str { unimplemented!() }
            // None when the ClientHello carried no SNI extension
            #[verifier::external_body] pub fn servername(&self, t: NameType) -> Option<&str> { unimplemented!() }
            #[verifier::external_body] pub fn state_string_long(&self) -> &'static str { unimplemented!() }
        }
        pub struct NameType { pub x: u8 }
        impl NameType { pub const HOST_NAME: NameType = NameType { x: 0 }; }
        // the ALPN protocol list in wire format: length-prefixed names
        pub open spec fn acme_tls_1_wire() -> Seq<u8> {
            seq![10u8, 0x61, 0x63, 0x6d, 0x65, 0x2d, 0x74, 0x6c, 0x73, 0x2f, 0x31]   // "\\x0aacme-tls/1"
        }
        pub open spec fn acme_tls_1() -> Seq<u8> { acme_tls_1_wire().skip(1) }
        // does the client's wire-format list offer protocol p?
        pub uninterp spec fn wire_offers(list: Seq<u8>, p: Seq<u8>) -> bool;
        // openssl::ssl::select_next_proto: the first protocol of `server` that `client` also offers
        #[verifier::external_body]
        pub fn select_next_proto<'a>(server: &'a [u8], client: &'a [u8]) -> (r: Option<&'a [u8]>)
            ensures server@ == acme_tls_1_wire() ==> (match r {
                Some(p) => p@ == acme_tls_1() && wire_offers(client@, acme_tls_1()),
                None => !wire_offers(client@, acme_tls_1()) })
        { unimplemented!() }
        // protocol versions as tenths (TLS 1.2 = 12); max 99 = no upper bound
        pub struct SslAcceptorBuilder { pub alpn_restricted: Ghost<bool>, pub min_tls: Ghost<int>, pub max_tls: Ghost<int> }
        pub struct SslAcceptor { pub alpn_restricted: Ghost<bool>, pub min_tls: Ghost<int>, pub max_tls: Ghost<int> }
        #[derive(Clone, Copy)]
        pub struct SslVersion { pub v: u8 }
        impl SslVersion {
            pub const TLS1: SslVersion = SslVersion { v: 10 };
            pub const TLS1_1: SslVersion = SslVersion { v: 11 };
            pub const TLS1_2: SslVersion = SslVersion { v: 12 };
            pub const TLS1_3: SslVersion = SslVersion { v: 13 };
        }
        impl SslAcceptor {
            // the Mozilla server-side profiles of the openssl crate and the oldest protocol version each still accepts
            #[verifier::external_body]
            pub fn mozilla_intermediate(m: SslMethod) -> (r: Result<SslAcceptorBuilder, ErrorStack>)
                ensures r matches Ok(b) ==> !b.alpn_restricted@ && b.min_tls@ == 10 && b.max_tls@ == 99 { unimplemented!() }
            #[verifier::external_body]
            pub fn mozilla_intermediate_v5(m: SslMethod) -> (r: Result<SslAcceptorBuilder, ErrorStack>)
                ensures r matches Ok(b) ==> !b.alpn_restricted@ && b.min_tls@ == 12 && b.max_tls@ == 99 { unimplemented!() }
            #[verifier::external_body]
            pub fn mozilla_modern(m: SslMethod) -> (r: Result<SslAcceptorBuilder, ErrorStack>)
                ensures r matches Ok(b) ==> !b.alpn_restricted@ && b.min_tls@ == 12 && b.max_tls@ == 99 { unimplemented!() }
            #[verifier::external_body]
            pub fn mozilla_modern_v5(m: SslMethod) -> (r: Result<SslAcceptorBuilder, ErrorStack>)
                ensures r matches Ok(b) ==> !b.alpn_restricted@ && b.min_tls@ == 13 && b.max_tls@ == 99 { unimplemented!() }
            // the handshake may fail for any reason the peer chooses, and lasts for as long as the peer likes: it runs in the
            // connection's own thread, never in the accept loop (rule T-THREAD passes where the call stands)
            #[verifier::external_body]
            pub fn accept(&self, s: crate::vnet::Stream, Ghost(in_conn_thread): Ghost<bool>) -> (r: Result<SslStream, HandshakeError>)
                requires in_conn_thread //@C17.a_handshake_never_holds_up_the_accept_loop
            { unimplemented!() }
        }
        impl SslAcceptorBuilder {
            // C16: the callback must answer acme-tls/1 when (and only when) the client offers it, and a fatal alert otherwise
            #[verifier::external_body]
            pub fn set_alpn_select_callback<F>(&mut self, f: F)
                where F: for<'a> Fn(&mut SslRef, &'a [u8]) -> Result<&'a [u8], AlpnError>
                requires
                    forall|s: &mut SslRef, c: &[u8]| f.requires((s, c)),
                    forall|s: &mut SslRef, c: &[u8], r: Result<&[u8], AlpnError>| #[trigger] f.ensures((s, c), r) ==> (match r {
                        Ok(p) => p@ == acme_tls_1() && wire_offers(c@, acme_tls_1()),
                        Err(e) => e == AlpnError::ALERT_FATAL && !wire_offers(c@, acme_tls_1()) }), //@C16.alpn_only_acme_tls_1
                ensures final(self).alpn_restricted@, final(self).min_tls == old(self).min_tls, final(self).max_tls == old(self).max_tls
            { unimplemented!() }
            #[verifier::external_body]
            pub fn set_min_proto_version(&mut self, v: Option<SslVersion>) -> (r: Result<(), ErrorStack>)
                ensures final(self).alpn_restricted == old(self).alpn_restricted, final(self).max_tls == old(self).max_tls,
                    r is Ok ==> final(self).min_tls@ == (match v { Some(x) => x.v as int, None => 0 }) { unimplemented!() }
            #[verifier::external_body]
            pub fn set_max_proto_version(&mut self, v: Option<SslVersion>) -> (r: Result<(), ErrorStack>)
                ensures final(self).alpn_restricted == old(self).alpn_restricted, final(self).min_tls == old(self).min_tls,
                    r is Ok ==> final(self).max_tls@ == (match v { Some(x) => x.v as int, None => 99 }) { unimplemented!() }
            #[verifier::external_body]
            pub fn set_private_key(&mut self, k: &crate::openssl::pkey::PKey) -> (r: Result<(), ErrorStack>)
                ensures final(self).alpn_restricted == old(self).alpn_restricted, final(self).min_tls == old(self).min_tls, final(self).max_tls == old(self).max_tls { unimplemented!() }
            #[verifier::external_body]
            pub fn set_certificate(&mut self, c: &crate::openssl::x509::X509) -> (r: Result<(), ErrorStack>)
                ensures final(self).alpn_restricted == old(self).alpn_restricted, final(self).min_tls == old(self).min_tls, final(self).max_tls == old(self).max_tls { unimplemented!() }
            #[verifier::external_body]
            pub fn check_private_key(&self) -> (r: Result<(), ErrorStack>) { unimplemented!() }
            #[verifier::external_body]
            // RFC 8737 section 3: validation uses TLS 1.2 or higher - a responder that refuses TLS 1.2 (or 1.3) leaves such a client without the certificate
            #[verifier::external_body]
            pub fn build(self) -> (r: SslAcceptor)
                requires self.min_tls@ <= 12 && self.max_tls@ >= 13, //@C16.clients_speaking_tls_1_2_or_1_3_are_served
                ensures r.alpn_restricted == self.alpn_restricted, r.min_tls == self.min_tls, r.max_tls == self.max_tls { unimplemented!() }
        }
        }
    }
}
pub mod vnet {
    use vstd::prelude::*;
    verus! {
    pub struct IoError { pub x: u8, pub origin: Ghost<int> }
    #[verifier::external]
    impl std::fmt::Debug for IoError { fn fmt(&self, f: &mut std::fmt::Formatter) -> std::fmt::Result { Ok(()) } }
    pub struct Stream { pub x: u8 }
    pub struct SocketAddr { pub x: u8 }
    impl Stream {
        // fails once the peer has gone away
        #[verifier::external_body] pub fn peer_addr(&self) -> (r: Result<SocketAddr, IoError>) ensures r matches Err(e) ==> e.origin@ == 1 { unimplemented!() }
        #[verifier::external_body] pub fn local_addr(&self) -> (r: Result<SocketAddr, IoError>) ensures r matches Err(e) ==> e.origin@ == 1 { unimplemented!() }
        // a time limit on a client's connection leaves a valid client the time of a handshake over a network (a second at the very least)
        #[verifier::external_body] pub fn set_read_timeout(&self, d: Option<std::time::Duration>) -> (r: Result<(), IoError>)
            requires d matches Some(t) ==> crate::dur(t) >= crate::NANOS(), //@C16.a_time_limit_leaves_a_valid_client_the_time_to_shake_hands,C17.a_time_limit_leaves_a_valid_client_the_time_to_shake_hands
            ensures r matches Err(e) ==> e.origin@ == 1 { unimplemented!() }
        // a time limit on a client's connection leaves a valid client the time of a handshake over a network (a second at the very least)
        #[verifier::external_body] pub fn set_write_timeout(&self, d: Option<std::time::Duration>) -> (r: Result<(), IoError>)
            requires d matches Some(t) ==> crate::dur(t) >= crate::NANOS(), //@C16.a_time_limit_leaves_a_valid_client_the_time_to_shake_hands,C17.a_time_limit_leaves_a_valid_client_the_time_to_shake_hands
            ensures r matches Err(e) ==> e.origin@ == 1 { unimplemented!() }
        #[verifier::external_body] pub fn set_nodelay(&self, b: bool) -> (r: Result<(), IoError>) ensures r matches Err(e) ==> e.origin@ == 1 { unimplemented!() }
        // the handshake is driven to its end by one blocking call (a non-blocking stream would hand back an unfinished handshake that is then dropped)
        #[verifier::external_body] pub fn set_nonblocking(&self, b: bool) -> (r: Result<(), IoError>)
            requires !b, //@C16.the_handshake_runs_on_a_blocking_stream,C17.the_handshake_runs_on_a_blocking_stream
            ensures r matches Err(e) ==> e.origin@ == 1 { unimplemented!() }
    }
    pub struct TcpListener { pub x: u8 }
    pub struct UnixListener { pub x: u8 }
    // `incoming()` is modelled as an arbitrary finite sequence of connection attempts (every finite prefix of the real, endless one)
    impl TcpListener {
        #[verifier::external_body] pub fn bind(addr: &str) -> (r: Result<TcpListener, IoError>) ensures r matches Err(e) ==> e.origin@ == 0 { unimplemented!() }
        // a failed accept(2) is a matter of that one connection attempt
        #[verifier::external_body] pub fn incoming(&self) -> (r: Vec<Result<Stream, IoError>>)
            ensures forall|i: int| 0 <= i < r@.len() ==> (#[trigger] r@[i] matches Err(e) ==> e.origin@ == 1) { unimplemented!() }
    }
    impl UnixListener {
        #[verifier::external_body] pub fn bind(addr: &str) -> (r: Result<UnixListener, IoError>) ensures r matches Err(e) ==> e.origin@ == 0 { unimplemented!() }
        // (rule T-THREAD passes the address tacd was started with) `unix:PATH` listens on PATH: what follows the prefix, all of it
        #[verifier::external_body] pub fn bind_path(addr: &str, Ghost(given): Ghost<Seq<char>>) -> (r: Result<UnixListener, IoError>)
            requires addr@ == given.skip(5) //@C16.the_unix_socket_is_the_path_after_the_prefix,C17.the_unix_socket_is_the_path_after_the_prefix
            ensures r matches Err(e) ==> e.origin@ == 0 { unimplemented!() }
        #[verifier::external_body] pub fn incoming(&self) -> (r: Vec<Result<Stream, IoError>>)
            ensures forall|i: int| 0 <= i < r@.len() ==> (#[trigger] r@[i] matches Err(e) ==> e.origin@ == 1) { unimplemented!() }
    }
    // std::process::exit in the server: ends tacd for every later client - nothing a connection does may lead there
    #[verifier::external_body]
    pub fn process_exit(code: i32) -> !
        requires false //@C17.no_connection_ends_the_process
    { std::process::exit(code) }
    // what the accept loop iterates over: a connection attempt (accepted or failed), or - behind an adapter - an accepted connection
    pub trait Attempt { spec fn is_conn(&self) -> bool; }
    impl Attempt for Result<Stream, IoError> { open spec fn is_conn(&self) -> bool { self is Ok } }
    impl Attempt for Stream { open spec fn is_conn(&self) -> bool { true } }
    pub open spec fn is_connection<A: Attempt>(a: &A) -> bool { a.is_conn() }
    // iterator adapters on `incoming()` (rule T-ITER).  Keeping the accepted connections and dropping the failed accepts:
    #[verifier::external_body]
    pub fn accepted(v: Vec<Result<Stream, IoError>>) -> (r: Vec<Stream>)
        ensures r@.len() <= v@.len() { unimplemented!() }
    // map_while(Result::ok) / take_while(Result::is_ok): the stream *ends* at the first failed accept - the loop over it is over
    // as soon as one connection attempt fails, which a peer (or a burst of peers) can bring about
    #[verifier::external_body]
    pub fn until_first_error(v: Vec<Result<Stream, IoError>>) -> (r: Vec<Stream>)
        requires forall|i: int| 0 <= i < v@.len() ==> (#[trigger] v@[i]) is Ok, //@C17.a_failed_accept_does_not_end_the_accept_loop
        ensures r@.len() == v@.len() { unimplemented!() }
    #[verifier::external_body]
    pub fn results_until_first_error(v: Vec<Result<Stream, IoError>>) -> (r: Vec<Result<Stream, IoError>>)
        requires forall|i: int| 0 <= i < v@.len() ==> (#[trigger] v@[i]) is Ok, //@C17.a_failed_accept_does_not_end_the_accept_loop
        ensures r@ == v@ { unimplemented!() }
    // std::thread::spawn: the closure runs, so its body's obligations are checked with no assumption on its inputs
    // (rule T-THREAD gives every spawn the count of threads started so far)
    pub tracked struct Spawned { pub ghost n: int }
    impl Spawned { pub proof fn none() -> (tracked r: Spawned) ensures r.n == 0 { Spawned { n: 0 } } }
    #[verifier::external_body]
    pub fn spawn<F: FnOnce() -> ()>(Tracked(c): Tracked<&mut Spawned>, f: F) -> (h: JoinHandle<()>)
        requires f.requires(()) //@C17.connection_thread_cannot_panic
        ensures final(c).n == old(c).n + 1
    { unimplemented!() }
    // std::thread::JoinHandle.  A connection thread ends when its peer lets it end: whether it has finished is unknown until
    // `is_finished` says so, and `join` on a thread not known to have finished waits for as long as that peer likes.
    #[verifier::external_body]
    #[verifier::reject_recursive_types(T)]
    pub struct JoinHandle<T> { _p: std::marker::PhantomData<T> }
    pub struct ThreadPanic { pub opaque: u8 }
    impl<T> JoinHandle<T> {
        pub uninterp spec fn finished(&self) -> bool;
        #[verifier::external_body]
        pub fn is_finished(&self) -> (b: bool) ensures b ==> self.finished() { unimplemented!() }
        #[verifier::external_body]
        pub fn join(self) -> (r: std::result::Result<T, ThreadPanic>)
            requires self.finished() //@C17.the_accept_loop_never_waits_for_a_connection_thread
        { unimplemented!() }
    }
    pub open spec fn starts_with_spec(s: Seq<char>, p: Seq<char>) -> bool { s.len() >= p.len() && s.take(p.len() as int) == p }
    // str::starts_with(&str)
    #[verifier::external_body]
    pub fn str_starts_with(s: &str, p: &str) -> (r: bool) ensures r == starts_with_spec(s@, p@) { unimplemented!() }
    // &s[n..] : panics when n is beyond the end (n is a char boundary here because the tested prefix is ASCII)
    #[verifier::external_body]
    pub fn str_from(s: &str, n: usize) -> (r: &str)
        requires n <= s@.len()
        ensures r@ == s@.skip(n as int) { unimplemented!() }
    }
}
