// Trusted model for identifier.rs::get_tls_alpn_name: std::net address types, the reverse/map/join iterator idiom, small formats.
pub mod vrev {
    use vstd::prelude::*;
    use crate::acme_common::error::Error;
    verus! {
    #[derive(Debug)]
    pub struct AddrParseError { pub x: u8 }
    impl vstd::std_specs::convert::FromSpecImpl<AddrParseError> for Error {
        open spec fn obeys_from_spec() -> bool { false }
        open spec fn from_spec(e: AddrParseError) -> Self { arbitrary() }
    }
    impl From<AddrParseError> for Error { #[verifier::external_body] fn from(e: AddrParseError) -> Self { unimplemented!() } }
    pub struct Ipv4Addr { pub o: [u8; 4] }
    pub struct Ipv6Addr { pub o: [u8; 16] }
    pub enum IpAddr { V4(Ipv4Addr), V6(Ipv6Addr) }
    // textual address -> its octets (network order); None when the text is not an address
    pub uninterp spec fn ip_octets(s: Seq<char>) -> Option<Seq<u8>>;
    impl IpAddr {
        #[verifier::external_body]
        pub fn from_str(s: &str) -> (r: Result<IpAddr, AddrParseError>)
            ensures match r {
                Ok(IpAddr::V4(a)) => ip_octets(s@) == Some(a.o@) ,
                Ok(IpAddr::V6(a)) => ip_octets(s@) == Some(a.o@),
                Err(_) => ip_octets(s@) is None } { unimplemented!() }
    }
    // IPv4-mapped IPv6 addresses (::ffff:a.b.c.d) and the conversions std offers for them
    pub open spec fn is_mapped(o: Seq<u8>) -> bool {
        o.len() == 16 && (forall|i: int| 0 <= i < 10 ==> o[i] == 0) && o[10] == 0xff && o[11] == 0xff
    }
    pub open spec fn canonical(a: IpAddr) -> IpAddr {
        match a {
            IpAddr::V4(x) => a,
            IpAddr::V6(x) => if is_mapped(x.o@) { IpAddr::V4(Ipv4Addr { o: [x.o@[12], x.o@[13], x.o@[14], x.o@[15]] }) } else { a },
        }
    }
    impl IpAddr {
        #[verifier::external_body]
        pub fn to_canonical(&self) -> (r: IpAddr) ensures r == canonical(*self) { unimplemented!() }
        pub fn is_ipv4(&self) -> (r: bool) ensures r == (*self is V4) { match self { IpAddr::V4(_) => true, IpAddr::V6(_) => false } }
        pub fn is_ipv6(&self) -> (r: bool) ensures r == (*self is V6) { match self { IpAddr::V4(_) => false, IpAddr::V6(_) => true } }
    }
    impl Ipv6Addr {
        #[verifier::external_body]
        pub fn to_ipv4_mapped(&self) -> (r: Option<Ipv4Addr>)
            ensures match r { Some(v) => is_mapped(self.o@) && v.o@ == seq![self.o@[12], self.o@[13], self.o@[14], self.o@[15]], None => !is_mapped(self.o@) } { unimplemented!() }
    }
    impl Ipv4Addr { pub fn octets(&self) -> (r: [u8; 4]) ensures r == self.o { self.o } }
    impl Ipv6Addr { pub fn octets(&self) -> (r: [u8; 16]) ensures r == self.o { self.o } }
    // decimal text of a byte (u8::to_string)
    pub uninterp spec fn dec(b: u8) -> Seq<char>;
    // one lower-case hexadecimal digit
    pub open spec fn hexdigit(n: int) -> char {
        if n == 0 { '0' } else if n == 1 { '1' } else if n == 2 { '2' } else if n == 3 { '3' } else if n == 4 { '4' } else if n == 5 { '5' }
        else if n == 6 { '6' } else if n == 7 { '7' } else if n == 8 { '8' } else if n == 9 { '9' } else if n == 10 { 'a' } else if n == 11 { 'b' }
        else if n == 12 { 'c' } else if n == 13 { 'd' } else if n == 14 { 'e' } else { 'f' }
    }
    // format!("{a:x}.{b:x}") for a, b < 16 (rule T-FMT)
    #[verifier::external_body]
    pub fn hex_dot_hex(a: u8, b: u8) -> (r: String)
        requires a < 16, b < 16
        ensures r@ == seq![hexdigit(a as int), '.', hexdigit(b as int)] { unimplemented!() }
    // any other two-value format: an uninterpreted rendering
    pub uninterp spec fn fmt2_spec(f: Seq<char>, a: u8, b: u8) -> Seq<char>;
    #[verifier::external_body]
    pub fn fmt2(f: &str, a: u8, b: u8) -> (r: String) ensures r@ == fmt2_spec(f@, a, b) { unimplemented!() }
    // join of texts with a separator
    pub open spec fn join(s: Seq<Seq<char>>, sep: Seq<char>) -> Seq<char>
        decreases s.len()
    {
        if s.len() == 0 { Seq::empty() } else if s.len() == 1 { s[0] } else { join(s.drop_last(), sep) + sep + s.last() }
    }
    pub open spec fn ordered(o: Seq<u8>, rev: bool) -> Seq<u8> { if rev { o.reverse() } else { o } }
    // OCTETS.iter()[.rev()].map(F).collect::<Vec<String>>().join(SEP)   (rule T-ITER): F's images, in (reverse) order, joined
    #[verifier::external_body]
    pub fn map_join<F: Fn(&u8) -> String>(o: &[u8], rev: bool, f: F, sep: &str) -> (r: String)
        requires forall|b: &u8| f.requires((b,))
        ensures forall|img: spec_fn(u8) -> Seq<char>| (forall|b: u8, s: String| #[trigger] f.ensures((&b,), s) ==> s@ == img(b))
            ==> r@ == join(#[trigger] ordered(o@, rev).map_values(img), sep@)
    { unimplemented!() }
    // the same with `|v| v.to_string()` (decimal)
    #[verifier::external_body]
    pub fn map_join_dec(o: &[u8], rev: bool, sep: &str) -> (r: String)
        ensures r@ == join(ordered(o@, rev).map_values(|b: u8| dec(b)), sep@) { unimplemented!() }
    #[verifier::external_body]
    pub fn cat2(a: &str, b: &str) -> (r: String) ensures r@ == a@ + b@ { unimplemented!() }
    }
}
