// Trusted model for hooks.rs::set_env: std::env::vars, HashMap<String,String>::{entry().or_insert, insert, iter().map(deref)}
pub mod venv2 {
    use vstd::prelude::*;
    use std::collections::HashMap;
    use crate::venv::*;
    verus! {
    // first occurrence of a name wins (what `entry(k).or_insert(v)` over the sequence gives, and what getenv does)
    pub open spec fn map_first(s: Seq<(String, String)>) -> Map<Seq<char>, Seq<char>>
        decreases s.len()
    {
        if s.len() == 0 { Map::empty() } else {
            let m = map_first(s.drop_last());
            if m.dom().contains(s.last().0@) { m } else { m.insert(s.last().0@, s.last().1@) }
        }
    }
    // later pairs override earlier ones
    pub open spec fn map_last(s: Seq<(String, String)>) -> Map<Seq<char>, Seq<char>>
        decreases s.len()
    {
        if s.len() == 0 { Map::empty() } else { map_last(s.drop_last()).insert(s.last().0@, s.last().1@) }
    }
    // std::env::vars() collected: the daemon's own environment
    #[verifier::external_body]
    pub fn proc_vars() -> (r: Vec<(String, String)>) ensures map_first(r@) == proc_env() { std::env::vars().collect() }
    // H.iter().map(deref): the (name, value) pairs of a map, cloned
    #[verifier::external_body]
    pub fn owned_pairs(h: &HashMap<String, String>) -> (r: Vec<(String, String)>) ensures map_last(r@) == envmap(*h) { unimplemented!() }
    // H.entry(K).or_insert(V);
    #[verifier::external_body]
    pub fn insert_if_absent(h: &mut HashMap<String, String>, k: String, v: String)
        ensures envmap(*final(h)) == (if envmap(*old(h)).dom().contains(k@) { envmap(*old(h)) } else { envmap(*old(h)).insert(k@, v@) })
    { h.entry(k).or_insert(v); }
    // H.insert(K, V);
    #[verifier::external_body]
    pub fn insert(h: &mut HashMap<String, String>, k: String, v: String)
        ensures envmap(*final(h)) == envmap(*old(h)).insert(k@, v@)
    { h.insert(k, v); }
    }
}
