// Ghost world threaded through effectful functions (rule T-GHOST).  Plain counters/flags/maps.
verus! {
pub ghost struct Net {
    pub permit: bool,                       // a limiter pass not yet consumed by a send (C09)
    pub sends: nat,                         // HTTP requests put on the wire, any method
    pub posts: nat,                         // POST transmissions (C08)
    pub latest_nonce: Option<Seq<char>>,    // newest well-formed Replay-Nonce the server issued (C04)
    pub built: Option<(Seq<char>, Seq<char>, Seq<char>)>,  // (nonce, url, body) of the latest data-builder call (history variable)
    pub trust_roots: Seq<Seq<u8>>,          // PEM contents of the configured root certificate files (C18)
    pub last_success: bool,                 // status class of the latest response
    pub last_body: Seq<char>,               // body of the latest response
    pub waited: nat,                        // nanoseconds this task has spent in std::thread::sleep between transmissions (C07: bounded)
}
// one observable effect on the file system / child processes, in program order
pub ghost enum FsEvent {
    Hook { ty: int, data: int, ok: bool },             // hooks::call(.., data, ty): ty = hook_type_id, data = opaque identity of the hook data, ok = every hook run succeeded (or may fail)
    Open { path: Seq<char>, mode: u32, created: bool, truncated: bool },
    Write { path: Seq<char> },
    Chown { path: Seq<char>, uid: Option<u32>, gid: Option<u32> },
    Lchown { path: Seq<char>, uid: Option<u32>, gid: Option<u32> },   // ownership of the path itself, a symbolic link not followed (lchown / fchownat AT_SYMLINK_NOFOLLOW)
    Chmod { path: Seq<char>, mode: u32 },   // fchmod / chmod: the mode is set as given, the umask does not apply
    Rename { from: Seq<char>, to: Seq<char> },
    Remove { path: Seq<char> },
}
pub ghost struct Fs {
    pub files: Map<Seq<char>, Seq<u8>>,     // regular files that exist -> content
    pub modes: Map<Seq<char>, u32>,         // mode argument of the open(2) that created the file
    pub events: Seq<FsEvent>,
}
pub tracked struct World {
    pub ghost clock: int,             // the latest instant observed (nanoseconds)
    pub ghost admissions: Seq<int>,   // every instant ever pushed on the limiter's log (never pruned)
    pub ghost net: Net,
    pub ghost fs: Fs,
}
}
// std::thread as far as the HTTP layer uses it: sleep(d) blocks for d, and what has been waited is on record
pub mod vthread {
    use vstd::prelude::*;
    use crate::*;
    verus! {
    #[verifier::external_body]
    pub fn sleep(d: std::time::Duration, Tracked(w): Tracked<&mut World>)
        ensures final(w).clock >= old(w).clock + dur(d), final(w).admissions == old(w).admissions, final(w).fs == old(w).fs,
            final(w).net == (Net { waited: old(w).net.waited + dur(d), ..old(w).net })
    { }
    }
}
pub mod vtime {
    use vstd::prelude::*;
    use crate::*;
    use std::time::{Duration, Instant};
    verus! {
    // std::time::Instant::now, with the monotone-clock assumption made explicit (rule T-CLOCK)
    #[verifier::external_body]
    pub fn now(Tracked(w): Tracked<&mut World>) -> (r: Instant)
        ensures inst(r) >= old(w).clock, final(w).clock == inst(r), final(w).admissions == old(w).admissions,
                final(w).net == old(w).net, final(w).fs == old(w).fs
    { Instant::now() }
    // tokio::time::sleep(d).await  (T-ASYNC): returns after at least d
    #[verifier::external_body]
    pub fn sleep(d: Duration, Tracked(w): Tracked<&mut World>)
        ensures final(w).clock >= old(w).clock + dur(d), final(w).admissions == old(w).admissions,
                final(w).net == old(w).net, final(w).fs == old(w).fs
    { }
    // comparison operators on Instant (rule T-CMP): the operator is kept, only its spelling changes
    pub open spec fn s_inst_gt(a: Instant, b: Instant) -> bool { inst(a) > inst(b) }
    pub open spec fn s_inst_ge(a: Instant, b: Instant) -> bool { inst(a) >= inst(b) }
    pub open spec fn s_inst_lt(a: Instant, b: Instant) -> bool { inst(a) < inst(b) }
    pub open spec fn s_inst_le(a: Instant, b: Instant) -> bool { inst(a) <= inst(b) }
    #[verifier::external_body] #[verifier::when_used_as_spec(s_inst_gt)]
    pub fn inst_gt(a: Instant, b: Instant) -> (r: bool) ensures r == s_inst_gt(a, b) { a > b }
    #[verifier::external_body] #[verifier::when_used_as_spec(s_inst_ge)]
    pub fn inst_ge(a: Instant, b: Instant) -> (r: bool) ensures r == s_inst_ge(a, b) { a >= b }
    #[verifier::external_body] #[verifier::when_used_as_spec(s_inst_lt)]
    pub fn inst_lt(a: Instant, b: Instant) -> (r: bool) ensures r == s_inst_lt(a, b) { a < b }
    #[verifier::external_body] #[verifier::when_used_as_spec(s_inst_le)]
    pub fn inst_le(a: Instant, b: Instant) -> (r: bool) ensures r == s_inst_le(a, b) { a <= b }
    }
}
