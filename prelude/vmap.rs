// Trusted helpers for HashMap iteration and str splitting (rules T-MAP / T-ITER / T-STR); std semantics, assumed.
pub mod vmap {
    use vstd::prelude::*;
    use std::collections::HashMap;
    verus! {
    // the (key, value) pairs of a map in the order `iter()` yields them: every key once
    pub uninterp spec fn pairs_of<K, V>(m: HashMap<K, V>) -> Seq<(K, V)>;
    #[verifier::external_body]
    pub fn pairs<K: Clone, V: Clone>(m: &HashMap<K, V>) -> (r: Vec<(K, V)>) ensures r@ == pairs_of(*m) { unimplemented!() }
    #[verifier::external_body]
    pub fn is_empty<K, V>(m: &HashMap<K, V>) -> (r: bool) ensures r == (pairs_of(*m).len() == 0) { unimplemented!() }
    #[verifier::external_body]
    pub fn str_is_empty(s: &str) -> (r: bool) ensures r == (s@.len() == 0) { unimplemented!() }
    // S.split(C).collect::<Vec<&str>>(): the parts joined by C give S back, no part contains C, there is at least one part
    pub open spec fn join(parts: Seq<Seq<char>>, c: char) -> Seq<char>
        decreases parts.len()
    {
        if parts.len() == 0 { Seq::empty() } else if parts.len() == 1 { parts[0] } else { join(parts.drop_last(), c) + seq![c] + parts.last() }
    }
    pub open spec fn views(s: Seq<&str>) -> Seq<Seq<char>> { s.map_values(|p: &str| p@) }
    #[verifier::external_body]
    pub fn split_char<'a>(s: &'a str, c: char) -> (r: Vec<&'a str>)
        ensures r@.len() >= 1, join(views(r@), c) == s@,
            forall|i: int| 0 <= i < r@.len() ==> !(#[trigger] r@[i])@.contains(c)
    { unimplemented!() }
    pub proof fn lemma_join2(a: Seq<char>, b: Seq<char>)
        ensures join(seq![a, b], '=') == a + seq!['='] + b
    {
        assert(seq![a, b].drop_last() =~= seq![a]);
        assert(join(seq![a], '=') == a);
    }
    }
}
pub mod vstr {
    use vstd::prelude::*;
    verus! {
    pub uninterp spec fn lower(s: Seq<char>) -> Seq<char>;          // str::to_lowercase
    pub uninterp spec fn all_ascii(s: Seq<char>) -> bool;           // str::is_ascii
    pub uninterp spec fn puny(s: Seq<char>) -> Option<Seq<char>>;   // punycode::encode
    #[verifier::external_body]
    pub fn str_to_lowercase(s: &str) -> (r: String) ensures r@ == lower(s@) { unimplemented!() }
    #[verifier::external_body]
    pub fn str_is_ascii(s: &str) -> (r: bool) ensures r == all_ascii(s@) { unimplemented!() }
    pub struct PunyError { pub x: u8 }
    #[verifier::external_body]
    pub fn punycode_encode(s: &str) -> (r: Result<String, PunyError>)
        ensures match r { Ok(v) => puny(s@) == Some(v@), Err(_) => puny(s@) is None } { unimplemented!() }
    #[verifier::external_body]
    pub fn cat2(a: &str, b: &str) -> (r: String) ensures r@ == a@ + b@ { unimplemented!() }
    // Vec<String>::join(sep) for a one-character separator
    #[verifier::external_body]
    pub fn join_strings(v: &Vec<String>, c: char) -> (r: String)
        ensures r@ == crate::vmap::join(v@.map_values(|s: String| s@), c) { unimplemented!() }
    }
}
