// Trusted model of serde_json::json!({..}) for flat objects of strings (rule T-JSON) and of acme_common::b64_encode.
pub mod vjson {
    use vstd::prelude::*;
    verus! {
    pub struct Value { pub members: Ghost<Map<Seq<char>, Seq<char>>> }
    pub open spec fn pairs_map(p: Seq<(&'static str, String)>) -> Map<Seq<char>, Seq<char>>
        decreases p.len()
    {
        if p.len() == 0 { Map::empty() } else { pairs_map(p.drop_last()).insert(p.last().0@, p.last().1@) }
    }
    // json!({ "k": v, ... }): an object with exactly these string members
    #[verifier::external_body]
    pub fn object(p: Vec<(&'static str, String)>) -> (r: Value) ensures r.members@ == pairs_map(p@) { unimplemented!() }
    #[verifier::external_body]
    pub fn sv(s: &str) -> (r: String) ensures r@ == s@ { unimplemented!() }
    }
}
pub mod vb64 {
    use vstd::prelude::*;
    verus! {
    pub uninterp spec fn b64url(b: Seq<u8>) -> Seq<char>;   // base64url without padding (RFC 4648 section 5)
    #[verifier::external_body]
    pub fn b64_encode_bytes(input: &Vec<u8>) -> (r: String) ensures r@ == b64url(input@) { unimplemented!() }
    }
}
