// Trusted specs for std::time.  `inst` = nanoseconds since an arbitrary epoch, `dur` = nanoseconds.
// Panicking std operations carry the `requires` that excludes the panic.
verus! {
#[verifier::external_type_specification]
#[verifier::external_body]
pub struct ExInstant(std::time::Instant);

pub uninterp spec fn inst(i: std::time::Instant) -> int;
pub uninterp spec fn dur(d: std::time::Duration) -> nat;
pub open spec fn NANOS() -> nat { 1_000_000_000 }
pub open spec fn DUR_MAX() -> nat { (u64::MAX as nat) * 1_000_000_000 + 999_999_999 }
#[verifier::external_body]
pub broadcast proof fn dur_bounded(d: std::time::Duration)
    ensures #[trigger] dur(d) <= DUR_MAX() {}
#[verifier::external_body]
pub broadcast proof fn dur_ext(a: std::time::Duration, b: std::time::Duration)
    ensures (#[trigger] dur(a) == #[trigger] dur(b)) ==> a == b {}
#[verifier::external_body]
pub broadcast proof fn inst_ext(a: std::time::Instant, b: std::time::Instant)
    ensures (#[trigger] inst(a) == #[trigger] inst(b)) ==> a == b {}

pub assume_specification [std::time::Duration::from_secs] (s: u64) -> (r: std::time::Duration)
    ensures dur(r) == (s as nat) * 1_000_000_000;
pub assume_specification [std::time::Duration::from_millis] (s: u64) -> (r: std::time::Duration)
    ensures dur(r) == (s as nat) * 1_000_000;
pub assume_specification [std::time::Duration::new] (s: u64, n: u32) -> (r: std::time::Duration)
    requires (s as nat) + (n as nat) / 1_000_000_000 <= u64::MAX
    ensures dur(r) == (s as nat) * 1_000_000_000 + (n as nat);
pub assume_specification [std::time::Duration::as_secs] (d: &std::time::Duration) -> (r: u64)
    ensures r as nat == dur(*d) / 1_000_000_000;
pub assume_specification [std::time::Duration::is_zero] (d: &std::time::Duration) -> (r: bool)
    ensures r == (dur(*d) == 0);
pub assume_specification [std::time::Duration::saturating_sub] (a: std::time::Duration, b: std::time::Duration) -> (r: std::time::Duration)
    ensures dur(r) == (if dur(a) >= dur(b) { dur(a) - dur(b) } else { 0 }) as nat;
pub assume_specification [std::time::Instant::checked_sub] (i: &std::time::Instant, d: std::time::Duration) -> (r: std::option::Option<std::time::Instant>)
    ensures r matches Some(x) ==> inst(x) == inst(*i) - dur(d),
            r is None ==> inst(*i) - dur(d) < inst_floor();
pub assume_specification [<std::time::Duration as Clone>::clone] (d: &std::time::Duration) -> (r: std::time::Duration)
    ensures r == *d;
// the clock read directly (units that follow the clock through their ghost world use rule T-CLOCK instead): any instant, any elapsed time
pub assume_specification [std::time::Instant::now] () -> (r: std::time::Instant);
pub assume_specification [std::time::Instant::elapsed] (i: &std::time::Instant) -> (r: std::time::Duration);
pub assume_specification [<std::time::Instant as Clone>::clone] (d: &std::time::Instant) -> (r: std::time::Instant)
    ensures r == *d;
}
verus! {
pub assume_specification<T: std::cmp::Ord + std::marker::Destruct> [std::cmp::min] (a: T, b: T) -> (r: T)
    ensures r == (if vstd::std_specs::cmp::OrdSpec::cmp_spec(&a, &b) is Greater { b } else { a });
pub assume_specification<T: std::cmp::Ord + std::marker::Destruct> [std::cmp::max] (a: T, b: T) -> (r: T)
    ensures r == (if vstd::std_specs::cmp::OrdSpec::cmp_spec(&a, &b) is Greater { a } else { b });
}
verus! {
// the oldest instant the platform can represent: checked_sub yields None only below it, and every Instant is above it
pub uninterp spec fn inst_floor() -> int;
#[verifier::external_body]
pub proof fn inst_lower_bound(i: std::time::Instant) ensures inst(i) >= inst_floor() {}
}
verus! {
pub assume_specification<T> [<[T]>::reverse] (s: &mut [T])
    ensures final(s)@ == old(s)@.reverse();
}
verus! {
pub assume_specification [std::time::Duration::checked_add] (a: std::time::Duration, b: std::time::Duration) -> (r: Option<std::time::Duration>)
    ensures match r { Some(d) => dur(d) == dur(a) + dur(b), None => dur(a) + dur(b) > DUR_MAX() };
}
verus! {
// std::time::Duration::ZERO / MAX (rule T-CONST-STD: associated constants of std types are read through a function)
#[verifier::external_body]
pub fn duration_zero() -> (d: std::time::Duration) ensures dur(d) == 0 { std::time::Duration::ZERO }
#[verifier::external_body]
pub fn duration_max() -> (d: std::time::Duration) ensures dur(d) == DUR_MAX() { std::time::Duration::MAX }
pub assume_specification [std::time::Duration::from_micros] (s: u64) -> (r: std::time::Duration)
    ensures dur(r) == (s as nat) * 1_000;
pub assume_specification [std::time::Duration::from_nanos] (s: u64) -> (r: std::time::Duration)
    ensures dur(r) == (s as nat);
pub assume_specification [std::time::Duration::as_millis] (d: &std::time::Duration) -> (r: u128)
    ensures r as nat == dur(*d) / 1_000_000;
pub assume_specification [std::time::Duration::as_nanos] (d: &std::time::Duration) -> (r: u128)
    ensures r as nat == dur(*d);
pub assume_specification [std::time::Duration::subsec_nanos] (d: &std::time::Duration) -> (r: u32)
    ensures r as nat == dur(*d) % 1_000_000_000;
pub assume_specification [std::time::Duration::checked_sub] (a: std::time::Duration, b: std::time::Duration) -> (r: Option<std::time::Duration>)
    ensures match r { Some(d) => dur(a) >= dur(b) && dur(d) == dur(a) - dur(b), None => dur(a) < dur(b) };
pub assume_specification [std::time::Duration::saturating_add] (a: std::time::Duration, b: std::time::Duration) -> (r: std::time::Duration)
    ensures dur(r) == (if dur(a) + dur(b) > DUR_MAX() { DUR_MAX() } else { dur(a) + dur(b) });
pub assume_specification [std::time::Duration::checked_mul] (a: std::time::Duration, b: u32) -> (r: Option<std::time::Duration>)
    ensures match r { Some(d) => dur(d) == dur(a) * (b as nat), None => dur(a) * (b as nat) > DUR_MAX() };
pub assume_specification [std::time::Duration::saturating_mul] (a: std::time::Duration, b: u32) -> (r: std::time::Duration)
    ensures dur(r) == (if dur(a) * (b as nat) > DUR_MAX() { DUR_MAX() } else { dur(a) * (b as nat) });
}

// tokio::time::timeout(D, FUT).await is rewritten (rule T-ASYNC) to `if fires(D) { Err(elapsed()) } else { Ok(FUT) }`: the time limit
// fires and the future is dropped - modelled as never started - or the future runs to its end (a future cut half-way is not modelled)
pub mod tokio_time {
    use vstd::prelude::*;
    verus! {
    #[derive(Debug)]
    pub struct Elapsed { pub x: u8 }
    #[verifier::external]
    impl std::fmt::Display for Elapsed { fn fmt(&self, f: &mut std::fmt::Formatter) -> std::fmt::Result { Ok(()) } }
    #[verifier::external_body]
    pub fn fires(d: std::time::Duration) -> bool { unimplemented!() }
    #[verifier::external_body]
    pub fn elapsed() -> Elapsed { unimplemented!() }
    }
}
