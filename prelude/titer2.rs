// More helpers for the closed list of iterator idioms (rule T-ITER); std semantics, assumed.
pub mod titer2 {
    use vstd::prelude::*;
    use std::collections::HashSet;
    verus! {
    // V.iter().map(|e| e.to_owned()).collect::<HashSet<T>>()
    #[verifier::external_body]
    pub fn vec_to_hashset<T: Clone + std::hash::Hash + Eq>(v: &Vec<T>) -> (r: HashSet<T>)
        ensures r@ == v@.to_set()
    { v.iter().map(|e| e.to_owned()).collect() }
    // V.extend(W.iter().map(|v| v.to_string()))   for W: &[&str]
    #[verifier::external_body]
    pub fn extend_from_strs(v: &mut Vec<String>, w: &[&str])
        ensures final(v)@.map_values(|s: String| s@) == old(v)@.map_values(|s: String| s@) + w@.map_values(|s: &str| s@)
    { v.extend(w.iter().map(|x| x.to_string())) }
    // V.extend(W.iter().map(|v| v.to_owned()))   for W: &Vec<String>
    #[verifier::external_body]
    pub fn extend_from_strings(v: &mut Vec<String>, w: &Vec<String>)
        ensures final(v)@.map_values(|s: String| s@) == old(v)@.map_values(|s: String| s@) + w@.map_values(|s: String| s@)
    { v.extend(w.iter().map(|x| x.to_owned())) }
    }
}
