// Trusted model of acme_common::to_idna (verified in unit idna), std::net::IpAddr parsing/printing, str::to_lowercase.
pub mod vident {
    use vstd::prelude::*;
    verus! {
    pub uninterp spec fn lower(s: Seq<char>) -> Seq<char>;
    #[verifier::external_body]
    pub fn str_to_lowercase(s: &str) -> (r: String) ensures r@ == lower(s@) { unimplemented!() }
    // the A-label form of a domain name, label by label (contract proved in unit `idna`)
    pub uninterp spec fn idna_spec(d: Seq<char>) -> Option<Seq<char>>;
    #[verifier::external_body]
    pub fn to_idna(domain_name: &str) -> (r: Result<String, crate::acme_common::error::Error>)
        ensures match r { Ok(v) => idna_spec(domain_name@) == Some(v@), Err(_) => idna_spec(domain_name@) is None } { unimplemented!() }
    // canonical text form of an IP address: what IpAddr::to_string prints for what IpAddr::from_str accepts
    pub uninterp spec fn ip_canon(s: Seq<char>) -> Option<Seq<char>>;
    pub struct AddrParseError { pub x: u8 }
    impl vstd::std_specs::convert::FromSpecImpl<AddrParseError> for crate::acme_common::error::Error {
        open spec fn obeys_from_spec() -> bool { false }
        open spec fn from_spec(e: AddrParseError) -> Self { arbitrary() }
    }
    impl From<AddrParseError> for crate::acme_common::error::Error { #[verifier::external_body] fn from(e: AddrParseError) -> Self { unimplemented!() } }
    pub uninterp spec fn canonical_form(text: Seq<char>) -> Seq<char>;
    pub struct IpAddr { pub canon: Ghost<Seq<char>> }
    impl IpAddr {
        #[verifier::external_body]
        pub fn from_str(s: &str) -> (r: Result<IpAddr, AddrParseError>)
            ensures match r { Ok(a) => ip_canon(s@) == Some(a.canon@), Err(_) => ip_canon(s@) is None } { unimplemented!() }
        #[verifier::external_body]
        pub fn to_string(&self) -> (r: String) ensures r@ == self.canon@ { unimplemented!() }
        // IpAddr::to_canonical(): an IPv4-mapped IPv6 address becomes the IPv4 address (ANOTHER identifier), any other is itself
        #[verifier::external_body]
        pub fn to_canonical(&self) -> (r: IpAddr) ensures r.canon@ == canonical_form(self.canon@) { unimplemented!() }
        // classification predicates of std::net::IpAddr (results unspecified)
        #[verifier::external_body] pub fn is_unspecified(&self) -> bool { unimplemented!() }
        #[verifier::external_body] pub fn is_multicast(&self) -> bool { unimplemented!() }
        #[verifier::external_body] pub fn is_loopback(&self) -> bool { unimplemented!() }
        #[verifier::external_body] pub fn is_ipv4(&self) -> bool { unimplemented!() }
        #[verifier::external_body] pub fn is_ipv6(&self) -> bool { unimplemented!() }
    }
    }
}
