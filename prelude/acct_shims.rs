// Trusted model for acme_proto/account.rs: JWS builders (contracts proven in unit jws, restated as relations), the request
// payload structures, and the CA's side of newAccount / account update / keyChange (RFC 8555 sections 7.3, 7.3.2, 7.3.5).
pub mod pshims {
    use vstd::prelude::*;
    use crate::*;
    use crate::shims::*;
    use crate::account::*;
    use crate::acme_common::error::Error;
    verus! {
    // ---- JWS: `s` is a flattened JWS signed by `key` over `payload`, with `url` and `nonce` in its protected header,
    //      carrying the public key itself (jwk form) or the account URL `kid` (kid form)
    pub uninterp spec fn jwk_request(s: Seq<char>, key: KeyPair, payload: Seq<u8>, url: Seq<char>, nonce: Option<Seq<char>>) -> bool;
    pub uninterp spec fn kid_request(s: Seq<char>, key: KeyPair, kid: Seq<char>, payload: Seq<u8>, url: Seq<char>, nonce: Seq<char>) -> bool;
    // the `alg` member of the protected header of JWS text `s` (the algorithm it is signed with)
    pub uninterp spec fn signed_with(s: Seq<char>, alg: JwsSignatureAlgorithm) -> bool;
    // a JWS text has one decoding
    #[verifier::external_body]
    pub broadcast proof fn axiom_kid_request_functional(s: Seq<char>, k1: KeyPair, i1: Seq<char>, p1: Seq<u8>, u1: Seq<char>, n1: Seq<char>,
                                                        k2: KeyPair, i2: Seq<char>, p2: Seq<u8>, u2: Seq<char>, n2: Seq<char>)
        ensures #[trigger] kid_request(s, k1, i1, p1, u1, n1) && #[trigger] kid_request(s, k2, i2, p2, u2, n2) ==> k1 == k2 && i1 == i2 && p1 == p2 {}
    #[verifier::external_body]
    pub broadcast proof fn axiom_jwk_request_functional(s: Seq<char>, k1: KeyPair, p1: Seq<u8>, u1: Seq<char>, n1: Option<Seq<char>>,
                                                        k2: KeyPair, p2: Seq<u8>, u2: Seq<char>, n2: Option<Seq<char>>)
        ensures #[trigger] jwk_request(s, k1, p1, u1, n1) && #[trigger] jwk_request(s, k2, p2, u2, n2) ==> k1 == k2 && p1 == p2 {}
    // the request built for account `a` on endpoint `en`: signed by the account's current key, kid = the account URL stored for that endpoint
    pub open spec fn kid_builder_ok(s: Seq<char>, a: &Account, en: Seq<char>, payload: Seq<u8>, url: Seq<char>, n: Seq<char>) -> bool {
        ep_of(*a, en) matches Some(ep) && kid_request(s, a.current_key.key, ep.account_url@, payload, url, n)
        && signed_with(s, a.current_key.signature_algorithm)
    }
    pub mod jws {
        use vstd::prelude::*;
        use crate::shims::*;
        use crate::pshims::*;
        use crate::acme_common::error::Error;
        verus! {
        // jws.rs::encode_jwk / encode_kid (verified in unit jws)
        #[verifier::external_body]
        pub fn encode_jwk(key_pair: &KeyPair, sign_alg: &JwsSignatureAlgorithm, payload: &[u8], url: &str, nonce: Option<String>) -> (r: Result<String, Error>)
            ensures r matches Ok(s) ==> jwk_request(s@, *key_pair, payload@, url@, match nonce { Some(n) => Some(n@), None => None }) && signed_with(s@, *sign_alg) { unimplemented!() }
        #[verifier::external_body]
        pub fn encode_kid(key_pair: &KeyPair, sign_alg: &JwsSignatureAlgorithm, key_id: &str, payload: &[u8], url: &str, nonce: &str) -> (r: Result<String, Error>)
            ensures r matches Ok(s) ==> kid_request(s@, *key_pair, key_id@, payload@, url@, nonce@) && signed_with(s@, *sign_alg) { unimplemented!() }
        }
    }
    // ---- what a request payload says (uninterpreted readings of the JSON text)
    pub uninterp spec fn payload_contacts(p: Seq<u8>) -> Seq<u8>;    // fingerprint of the contact list it carries
    pub uninterp spec fn payload_eab(p: Seq<u8>) -> Seq<u8>;         // fingerprint of the external account binding it carries
    pub uninterp spec fn is_rollover(p: Seq<u8>) -> bool;            // it is a keyChange inner JWS
    pub uninterp spec fn rollover_new_key(p: Seq<u8>) -> Seq<u8>;    // fingerprint of the key that signed the inner JWS (the new key)
    pub uninterp spec fn rollover_old_key(p: Seq<u8>) -> Seq<u8>;    // fingerprint of the `oldKey` member
    pub uninterp spec fn rollover_account(p: Seq<u8>) -> Seq<char>;  // the `account` member
    // the inner JWS of a keyChange is a jwk-form JWS without nonce, signed by the new key (RFC 8555 section 7.3.5)
    #[verifier::external_body]
    pub broadcast proof fn axiom_inner_jws_is_rollover(s: Seq<char>, k: KeyPair, p: Seq<u8>, u: Seq<char>)
        ensures #[trigger] jwk_request(s, k, p, u, None::<Seq<char>>) ==> is_rollover(crate::utf8_bytes(s)) && rollover_new_key(crate::utf8_bytes(s)) == kp_fp(k)
            && rollover_old_key(crate::utf8_bytes(s)) == payload_old_key(p) && rollover_account(crate::utf8_bytes(s)) == payload_account(p) {}
    pub uninterp spec fn payload_old_key(p: Seq<u8>) -> Seq<u8>;
    pub uninterp spec fn payload_account(p: Seq<u8>) -> Seq<char>;
    pub broadcast group group_jws { axiom_kid_request_functional, axiom_jwk_request_functional, axiom_inner_jws_is_rollover }
    pub mod serde_json {
        use vstd::prelude::*;
        use crate::acme_common::error::Error;
        verus! {
        pub uninterp spec fn ser<T>(t: T) -> Seq<char>;
        #[verifier::external_body]
        pub fn to_string<T>(x: &T) -> (r: Result<String, Error>) ensures r matches Ok(s) ==> s@ == ser(*x) { unimplemented!() }
        }
    }
    pub mod structs {
        use vstd::prelude::*;
        use crate::shims::*;
        use crate::pshims::*;
        use crate::account::{contacts_fp, eab_fp, kp_fp};
        use crate::acme_common::error::Error;
        verus! {
        pub struct Account { pub x: Ghost<int> }
        pub struct AccountUpdate { pub x: Ghost<int> }
        pub struct AccountKeyRollover { pub x: Ghost<int> }
        pub struct AccountResponse { pub orders: Option<String> }
        pub use crate::acme_proto::structs_error::AcmeError;
        pub uninterp spec fn strs_fp(s: Seq<String>) -> Seq<u8>;
        impl Account {
            // structs/account.rs::Account::new: the newAccount payload carries the account's contacts and, when configured, the binding
            #[verifier::external_body]
            pub fn new(account: &crate::account::Account, endpoint: &Endpoint) -> (r: Result<Account, Error>)
                ensures r matches Ok(a) ==> payload_contacts(crate::utf8_bytes(serde_json::ser(a))) == contacts_fp(account.contacts@)
                    && (account.external_account matches Some(ec) ==> payload_eab(crate::utf8_bytes(serde_json::ser(a))) == eab_fp(ec))
                    && !is_rollover(crate::utf8_bytes(serde_json::ser(a))) { unimplemented!() }
        }
        impl AccountUpdate {
            #[verifier::external_body]
            pub fn new(contact: &[String]) -> (r: AccountUpdate)
                ensures payload_contacts(crate::utf8_bytes(serde_json::ser(r))) == strs_fp(contact@) && !is_rollover(crate::utf8_bytes(serde_json::ser(r))) { unimplemented!() }
        }
        impl AccountKeyRollover {
            #[verifier::external_body]
            pub fn new(account_str: &str, old_key: &KeyPair) -> (r: Result<AccountKeyRollover, Error>)
                ensures r matches Ok(a) ==> payload_old_key(crate::utf8_bytes(serde_json::ser(a))) == kp_fp(*old_key)
                    && payload_account(crate::utf8_bytes(serde_json::ser(a))) == account_str@ { unimplemented!() }
        }
        }
    }
    // account.contacts.iter().map(|c| c.to_string()).collect()   (rule T-ITER): the contacts as the strings sent to the CA
    #[verifier::external_body]
    pub fn contacts_to_strings(c: &Vec<contact::AccountContact>) -> (r: Vec<String>)
        ensures structs::strs_fp(r@) == contacts_fp(c@) { unimplemented!() }
    // ---- HTTP errors
    pub struct HttpApiError { pub x: u8 }
    pub uninterp spec fn acme_type(e: HttpApiError) -> structs::AcmeError;
    impl HttpApiError { #[verifier::external_body] pub fn get_acme_type(&self) -> (r: structs::AcmeError) ensures r == acme_type(*self) { unimplemented!() } }
    pub enum HttpError { ApiError(HttpApiError), GenericError(Error) }
    impl HttpError {
        #[verifier::external_body] pub fn in_err(e: HttpError) -> Error { unimplemented!() }
        #[verifier::external_body] pub fn to_owned(&self) -> (r: HttpError) ensures r == *self { unimplemented!() }
    }
    // ---- the CA's side
    // newAccount: the CA records the key that signed the request (jwk form), the contacts and the binding of the payload
    pub open spec fn ca_created(s: Seq<char>, w: World) -> bool {
        forall|k: KeyPair, p: Seq<u8>, u: Seq<char>, n: Option<Seq<char>>| #[trigger] jwk_request(s, k, p, u, n) ==>
            w.ca_key == kp_fp(k) && w.ca_contacts == payload_contacts(p) && w.ca_eab == payload_eab(p)
    }
    // POST to the account URL (update) or to keyChange, accepted: contacts replaced / key replaced
    pub open spec fn ca_updated(s: Seq<char>, w0: World, w1: World) -> bool {
        forall|k: KeyPair, kid: Seq<char>, p: Seq<u8>, u: Seq<char>, n: Seq<char>| #[trigger] kid_request(s, k, kid, p, u, n) ==>
            w1.ca_eab == w0.ca_eab && w1.saves == w0.saves && w1.saved == w0.saved && (if is_rollover(p) {
                w1.ca_key == rollover_new_key(p) && w1.ca_contacts == w0.ca_contacts && w1.requests == w0.requests.push(Req::KeyChange)
            } else {
                w1.ca_contacts == payload_contacts(p) && w1.ca_key == w0.ca_key && w1.requests == w0.requests.push(Req::ContactUpdate)
            })
    }
    // ... refused: the request has been sent, nothing changes at the CA
    pub open spec fn ca_refused(s: Seq<char>, w0: World, w1: World) -> bool {
        forall|k: KeyPair, kid: Seq<char>, p: Seq<u8>, u: Seq<char>, n: Seq<char>| #[trigger] kid_request(s, k, kid, p, u, n) ==>
            w1.ca_eab == w0.ca_eab && w1.saves == w0.saves && w1.saved == w0.saved && w1.ca_key == w0.ca_key && w1.ca_contacts == w0.ca_contacts
            && w1.requests == w0.requests.push(if is_rollover(p) { Req::KeyChange } else { Req::ContactUpdate })
    }
    pub mod http {
        use vstd::prelude::*;
        use crate::*;
        use crate::shims::*;
        use crate::pshims::*;
        use crate::account::kp_fp;
        use crate::acme_common::error::Error;
        verus! {
        // acme_proto/http.rs::new_account (verified in unit http): POST newAccount, returns the account object and the Location header
        #[verifier::external_body]
        pub fn new_account<F: Fn(&str, &str) -> Result<String, Error>>(e: &mut Endpoint, d: &F, Tracked(w): Tracked<&mut World>) -> (r: Result<(structs::AccountResponse, String), HttpError>)
            requires forall|n: &str, u: &str| d.requires((n, u)),
            ensures final(e).name == old(e).name, final(e).dir == old(e).dir, final(w).saves == old(w).saves, final(w).saved == old(w).saved,
                r is Err ==> final(w).ca_key == old(w).ca_key && final(w).ca_contacts == old(w).ca_contacts && final(w).ca_eab == old(w).ca_eab,
                // a created account has a URL (trusted: the CA answers 201 with a Location header)
                r matches Ok(t) ==> t.1@.len() > 0 && final(w).requests == old(w).requests.push(Req::NewAccount)
                    && exists|n: &str, u: &str, s: String| #[trigger] d.ensures((n, u), Ok(s)) && ca_created(s@, *final(w)),
        { unimplemented!() }
        // acme_proto/http.rs::post_jose_no_response
        #[verifier::external_body]
        pub fn post_jose_no_response<F: Fn(&str, &str) -> Result<String, Error>>(e: &mut Endpoint, d: &F, url: &str, Tracked(w): Tracked<&mut World>) -> (r: Result<(), HttpError>)
            requires forall|n: &str, u: &str| d.requires((n, u)),
                // the CA honours such a request only when it is signed by the key it has on record for the account
                forall|n: &str, u: &str, s: String, k: KeyPair, kid: Seq<char>, p: Seq<u8>| #[trigger] d.ensures((n, u), Ok(s)) && #[trigger] kid_request(s@, k, kid, p, u@, n@)
                    ==> kp_fp(k) == old(w).ca_key, //@C11.request_is_signed_by_the_key_the_ca_holds
                // a key change names, in its inner object, the key the CA holds as `oldKey` and the account it is sent for (RFC 8555 section 7.3.5)
                forall|n: &str, u: &str, s: String, k: KeyPair, kid: Seq<char>, p: Seq<u8>| #[trigger] d.ensures((n, u), Ok(s)) && #[trigger] kid_request(s@, k, kid, p, u@, n@) && is_rollover(p)
                    ==> rollover_old_key(p) == old(w).ca_key && rollover_account(p) == kid, //@C11.key_change_names_the_key_the_ca_holds_and_its_account,C04.key_change_names_the_key_the_ca_holds_and_its_account
            ensures final(e).name == old(e).name, final(e).dir == old(e).dir, final(w).saves == old(w).saves, final(w).saved == old(w).saved,
                r is Ok ==> exists|n: &str, u: &str, s: String| #[trigger] d.ensures((n, u), Ok(s)) && u@ == url@ && ca_updated(s@, *old(w), *final(w)),
                // an error document from the CA means the request has been sent; any other error may have happened before that
                r matches Err(HttpError::ApiError(_)) ==> exists|n: &str, u: &str, s: String| #[trigger] d.ensures((n, u), Ok(s)) && u@ == url@ && ca_refused(s@, *old(w), *final(w)),
                // the error type `accountDoesNotExist` is the CA saying that it does not know the account
                r matches Err(HttpError::ApiError(e)) ==> (final(w).ca_unknown <==> acme_type(e) is AccountDoesNotExist),
                r matches Err(HttpError::GenericError(_)) ==> *final(w) == *old(w) || exists|n: &str, u: &str, s: String| #[trigger] d.ensures((n, u), Ok(s)) && u@ == url@ && ca_refused(s@, *old(w), *final(w)),
        { unimplemented!() }
        }
    }
    }
}
