// Trusted model of std::path, tokio::fs and nix::unistd as used by acmed/src/storage.rs.
// POSIX semantics: open(2) applies the mode only when it creates the file; without O_TRUNC an existing
// file keeps its old bytes beyond what is overwritten.
pub mod vpath {
    use vstd::prelude::*;
    use crate::*;
    verus! {
    pub struct PathBuf { pub s: String }
    pub type Path = PathBuf;
    pub struct Display { pub s: String }
    impl Display {
        #[verifier::external_body] pub fn to_string(&self) -> String { unimplemented!() }
    }
    impl Clone for PathBuf {
        #[verifier::external_body] fn clone(&self) -> (r: Self) ensures r == *self { unimplemented!() }
    }
    impl PathBuf {
        pub open spec fn view(&self) -> Seq<char> { self.s@ }
        #[verifier::external_body]
        pub fn from(s: &String) -> (r: PathBuf) ensures r@ == s@ { unimplemented!() }
        // the path as an owned OS string, to which text can be appended; and back (rule T-STR: `PathBuf::from(OS)` is `OS.into_path()`)
        #[verifier::external_body]
        pub fn as_os_str(&self) -> (r: OsString) ensures r@ == self@ { unimplemented!() }
        #[verifier::external_body]
        pub fn to_path_buf(&self) -> (r: PathBuf) ensures r@ == self@ { unimplemented!() }
        #[verifier::external_body]
        pub fn with_extension(&self, e: &str) -> (r: PathBuf) ensures r@ == with_extension_spec(self@, e@), r@ != self@ || e@.len() == 0 || true { unimplemented!() }
        #[verifier::external_body]
        pub fn with_file_name(&self, e: &str) -> (r: PathBuf) ensures r@ == with_file_name_spec(self@, e@) { unimplemented!() }
        #[verifier::external_body]
        pub fn join(&self, e: &str) -> (r: PathBuf) ensures r@ == path_join(self@, e@) { unimplemented!() }
        #[verifier::external_body]
        pub fn push(&mut self, p: &String) ensures final(self)@ == path_join(old(self)@, p@) { unimplemented!() }
        #[verifier::external_body]
        pub fn display(&self) -> Display { unimplemented!() }
        // Path::canonicalize: the absolute form of the path of something that exists (an error otherwise; no more is stated)
        #[verifier::external_body]
        pub fn canonicalize(&self) -> (r: Result<PathBuf, crate::acme_common::error::IoError>) { unimplemented!() }
        #[verifier::external_body]
        pub fn to_str(&self) -> Option<&str> { unimplemented!() }
        // Path::symlink_metadata (lstat): about the directory entry itself - a symbolic link to a regular file is not a regular file
        #[verifier::external_body]
        pub fn symlink_metadata(&self, Tracked(w): Tracked<&mut World>) -> (r: Result<crate::vfs::Metadata, crate::acme_common::error::IoError>)
            ensures *final(w) == *old(w),
                r matches Ok(m) ==> (m.file <==> (old(w).fs.files.contains_key(self@) && !is_symlink(self@))),
                r is Err ==> !old(w).fs.files.contains_key(self@) || is_symlink(self@)
        { unimplemented!() }
        // Path::metadata (stat): follows symbolic links
        #[verifier::external_body]
        pub fn metadata(&self, Tracked(w): Tracked<&mut World>) -> (r: Result<crate::vfs::Metadata, crate::acme_common::error::IoError>)
            ensures *final(w) == *old(w),
                r matches Ok(m) ==> (m.file <==> old(w).fs.files.contains_key(self@)) && (m.file ==> m.size as nat == old(w).fs.files[self@].len())
        { unimplemented!() }
        #[verifier::external_body]
        pub fn exists(&self, Tracked(w): Tracked<&mut World>) -> (r: bool)
            ensures *final(w) == *old(w), old(w).fs.files.contains_key(self@) ==> r
        { unimplemented!() }
        // Path::is_file : reads the file system, changes nothing
        #[verifier::external_body]
        pub fn is_file(&self, Tracked(w): Tracked<&mut World>) -> (r: bool)
            ensures *final(w) == *old(w), r == old(w).fs.files.contains_key(self@)
        { unimplemented!() }
    }
    // the directory entry at this path is a symbolic link (files.contains_key says whether a regular file is reached through it)
    pub uninterp spec fn is_symlink(p: Seq<char>) -> bool;
    pub uninterp spec fn path_join(a: Seq<char>, b: Seq<char>) -> Seq<char>;
    pub uninterp spec fn with_extension_spec(a: Seq<char>, e: Seq<char>) -> Seq<char>;
    pub uninterp spec fn with_file_name_spec(a: Seq<char>, e: Seq<char>) -> Seq<char>;
    // PathBuf::from(X) for the text-like X (rule T-STR -> to_path)
    pub trait PathLike: Sized { spec fn pview(self) -> Seq<char>; }
    impl PathLike for OsString { open spec fn pview(self) -> Seq<char> { self@ } }
    impl PathLike for String { open spec fn pview(self) -> Seq<char> { self@ } }
    impl<'a> PathLike for &'a String { open spec fn pview(self) -> Seq<char> { self@ } }
    impl<'a, 'b> PathLike for &'a &'b String { open spec fn pview(self) -> Seq<char> { self@ } }
    impl<'a> PathLike for &'a str { open spec fn pview(self) -> Seq<char> { self@ } }
    impl<'a> PathLike for &'a PathBuf { open spec fn pview(self) -> Seq<char> { self@ } }
    #[verifier::external_body]
    pub fn to_path<T: PathLike>(t: T) -> (r: PathBuf) ensures r@ == t.pview() { unimplemented!() }
    pub struct OsString { pub s: String }
    impl OsString {
        pub open spec fn view(&self) -> Seq<char> { self.s@ }
        #[verifier::external_body]
        pub fn to_owned(&self) -> (r: OsString) ensures r@ == self@ { unimplemented!() }
        #[verifier::external_body]
        pub fn push(&mut self, t: &str) ensures final(self)@ == old(self)@ + t@ { unimplemented!() }
        #[verifier::external_body]
        pub fn into_path(self) -> (r: PathBuf) ensures r@ == self@ { unimplemented!() }
    }
    }
}
pub mod vfs {
    use vstd::prelude::*;
    use crate::*;
    use crate::vpath::PathBuf;
    use crate::acme_common::error::IoError;
    verus! {
    pub struct OpenOptions { pub mode: u32, pub write: bool, pub create: bool, pub truncate: bool }
    // `pending`: bytes accepted by write_all that have not reached the file yet (tokio::fs::File hands its writes to a
    // background thread: they are in the file, and their failure is reported, only once the file has been flushed)
    pub struct File { pub path: Ghost<Seq<char>>, pub pos: Ghost<int>, pub pending: Ghost<Option<Seq<u8>>> }
    // environment oracle: in this file-system state, opening or reading the existing file `p` fails (I/O error, permissions).
    // Nothing is assumed about WHEN it holds; it only makes the outcome of a read a function of the state and the path.
    pub uninterp spec fn read_faults(fs: Fs, p: Seq<char>) -> bool;
    // bytes of a file after writing `data` at offset 0 over `old`
    pub open spec fn overwrite(old: Seq<u8>, data: Seq<u8>) -> Seq<u8> {
        if data.len() >= old.len() { data } else { data + old.skip(data.len() as int) }
    }
    // std::fs::Permissions / PermissionsExt::from_mode, File::set_permissions (fchmod: the umask does not apply)
    #[verifier::external_type_specification]
    #[verifier::external_body]
    pub struct ExPermissions(std::fs::Permissions);
    pub uninterp spec fn perm_mode(p: std::fs::Permissions) -> u32;
    pub assume_specification [<std::fs::Permissions as std::os::unix::fs::PermissionsExt>::from_mode] (m: u32) -> (r: std::fs::Permissions)
        ensures perm_mode(r) == m;
    impl File {
        #[verifier::external_body]
        pub fn set_permissions(&self, perm: std::fs::Permissions, Tracked(w): Tracked<&mut World>) -> (r: Result<(), IoError>)
            ensures final(w).clock == old(w).clock, final(w).admissions == old(w).admissions, final(w).net == old(w).net,
                final(w).fs.files == old(w).fs.files,
                final(w).fs.events == old(w).fs.events.push(FsEvent::Chmod { path: self.path@, mode: perm_mode(perm) }),
        { unimplemented!() }
    }
    impl OpenOptions {
        pub fn new() -> (r: OpenOptions)
            ensures r == (OpenOptions { mode: 0o666, write: false, create: false, truncate: false })
        { OpenOptions { mode: 0o666, write: false, create: false, truncate: false } }
        #[verifier::external_body]
        pub fn mode(&mut self, m: u32) -> (r: &mut OpenOptions)
            ensures *final(self) == *final(r), *r == (OpenOptions { mode: m, ..*old(self) }) { unimplemented!() }
        #[verifier::external_body]
        pub fn write(&mut self, b: bool) -> (r: &mut OpenOptions)
            ensures *final(self) == *final(r), *r == (OpenOptions { write: b, ..*old(self) }) { unimplemented!() }
        #[verifier::external_body]
        pub fn create(&mut self, b: bool) -> (r: &mut OpenOptions)
            ensures *final(self) == *final(r), *r == (OpenOptions { create: b, ..*old(self) }) { unimplemented!() }
        #[verifier::external_body]
        pub fn truncate(&mut self, b: bool) -> (r: &mut OpenOptions)
            ensures *final(self) == *final(r), *r == (OpenOptions { truncate: b, ..*old(self) }) { unimplemented!() }
        // tokio::fs::OpenOptions::open(..).await
        #[verifier::external_body]
        pub fn open(&self, p: &PathBuf, Tracked(w): Tracked<&mut World>) -> (r: Result<File, IoError>)
            ensures
                final(w).clock == old(w).clock, final(w).admissions == old(w).admissions, final(w).net == old(w).net,
                match r {
                    Ok(f) => {
                        let existed = old(w).fs.files.contains_key(p@);
                        &&& f.path@ == p@ && f.pos@ == 0 && f.pending@ is None
                        &&& self.write
                        &&& (existed || self.create)
                        &&& final(w).fs.files == old(w).fs.files.insert(p@,
                                if existed && !self.truncate { old(w).fs.files[p@] } else { Seq::<u8>::empty() })
                        &&& final(w).fs.modes == (if existed { old(w).fs.modes } else { old(w).fs.modes.insert(p@, self.mode) })
                        &&& final(w).fs.events == old(w).fs.events.push(
                                FsEvent::Open { path: p@, mode: self.mode, created: !existed, truncated: self.truncate })
                    },
                    Err(_) => final(w).fs == old(w).fs,
                }
        { unimplemented!() }
    }
    impl File {
        // tokio::fs::File::create (non-unix branch): create or truncate, mode 0o666
        #[verifier::external_body]
        pub fn create(p: &PathBuf, Tracked(w): Tracked<&mut World>) -> (r: Result<File, IoError>)
            ensures
                final(w).clock == old(w).clock, final(w).admissions == old(w).admissions, final(w).net == old(w).net,
                match r {
                    Ok(f) => {
                        let existed = old(w).fs.files.contains_key(p@);
                        &&& f.path@ == p@ && f.pos@ == 0 && f.pending@ is None
                        &&& final(w).fs.files == old(w).fs.files.insert(p@, Seq::<u8>::empty())
                        &&& final(w).fs.modes == (if existed { old(w).fs.modes } else { old(w).fs.modes.insert(p@, 0o666u32) })
                        &&& final(w).fs.events == old(w).fs.events.push(
                                FsEvent::Open { path: p@, mode: 0o666u32, created: !existed, truncated: true })
                    },
                    Err(_) => final(w).fs == old(w).fs,
                }
        { unimplemented!() }
        #[verifier::external_body]
        pub fn open(p: &PathBuf, Tracked(w): Tracked<&mut World>) -> (r: Result<File, IoError>)
            ensures *final(w) == *old(w), r matches Ok(f) ==> f.path@ == p@ && f.pos@ == 0 && f.pending@ is None && old(w).fs.files.contains_key(p@),
                // opening for reading fails only for a file that is absent or that the environment refuses (read_faults)
                (r is Ok) == (old(w).fs.files.contains_key(p@) && !read_faults(old(w).fs, p@)),
        { unimplemented!() }
        // AsyncWriteExt::write_all on a freshly opened file (offset 0): the bytes are accepted, nothing has reached the file yet
        #[verifier::external_body]
        pub fn write_all(&mut self, data: &[u8], Tracked(w): Tracked<&mut World>) -> (r: Result<(), IoError>)
            requires old(self).pos@ == 0, old(self).pending@ is None, old(w).fs.files.contains_key(old(self).path@)
            ensures
                final(self).path == old(self).path, *final(w) == *old(w),
                r is Ok ==> final(self).pos@ == data@.len() && final(self).pending@ == Some(data@),
                r is Err ==> final(self).pending@ is None,
        { unimplemented!() }
        // AsyncWriteExt::write: ONE write call - it takes a prefix of the data (how much is up to the runtime) and says how much
        #[verifier::external_body]
        pub fn write(&mut self, data: &[u8], Tracked(w): Tracked<&mut World>) -> (r: Result<usize, IoError>)
            requires old(self).pos@ == 0, old(self).pending@ is None, old(w).fs.files.contains_key(old(self).path@)
            ensures
                final(self).path == old(self).path, *final(w) == *old(w),
                r matches Ok(n) ==> n <= data@.len() && final(self).pos@ == n && final(self).pending@ == Some(data@.take(n as int)),
                r is Err ==> final(self).pending@ is None,
        { unimplemented!() }
        #[verifier::external_body]
        pub fn read_to_end(&mut self, buf: &mut Vec<u8>, Tracked(w): Tracked<&mut World>) -> (r: Result<usize, IoError>)
            ensures *final(w) == *old(w), final(self).path == old(self).path,
                    r is Ok ==> final(buf)@ == old(buf)@ + old(w).fs.files[old(self).path@],
                    !read_faults(old(w).fs, old(self).path@) ==> r is Ok,
        { unimplemented!() }
    }
    impl File {
        // AsyncWriteExt::flush: waits for the pending write; on success the bytes are in the file, a failure is reported here
        #[verifier::external_body]
        pub fn flush(&mut self, Tracked(w): Tracked<&mut World>) -> (r: Result<(), IoError>)
            ensures
                final(self).path == old(self).path, final(self).pos == old(self).pos, final(self).pending@ is None,
                final(w).clock == old(w).clock, final(w).admissions == old(w).admissions, final(w).net == old(w).net,
                final(w).fs.modes == old(w).fs.modes,
                old(self).pending@ is None ==> final(w).fs == old(w).fs,
                old(self).pending@ matches Some(d) ==> {
                    &&& final(w).fs.events == old(w).fs.events.push(FsEvent::Write { path: old(self).path@ })
                    &&& (r is Ok ==> final(w).fs.files == old(w).fs.files.insert(old(self).path@, overwrite(old(w).fs.files[old(self).path@], d)))
                    &&& (r is Err ==> final(w).fs.files.dom() == old(w).fs.files.dom()
                            && (forall|q: Seq<char>| q != old(self).path@ ==> final(w).fs.files[q] == old(w).fs.files[q]))
                },
        { unimplemented!() }
        #[verifier::external_body]
        pub fn sync_all(&self, Tracked(w): Tracked<&mut World>) -> (r: Result<(), IoError>)
            ensures *final(w) == *old(w) { unimplemented!() }
    }
    // ---- the free functions of tokio::fs / std::fs (whole-file operations)
    pub struct Metadata { pub size: u64, pub file: bool }
    impl Metadata {
        pub fn len(&self) -> (r: u64) ensures r == self.size { self.size }
        // (a unit that gives `path.is_file()` its ghost argument gives it to `metadata.is_file()` as well: accepted and left alone)
        #[verifier::external_body]
        pub fn is_file(&self, Tracked(w): Tracked<&mut World>) -> (r: bool) ensures r == self.file, *final(w) == *old(w) { self.file }
        pub fn is_dir(&self) -> (r: bool) ensures r == !self.file { !self.file }
    }
    #[verifier::external_body]
    pub fn metadata(p: &PathBuf, Tracked(w): Tracked<&mut World>) -> (r: Result<Metadata, IoError>)
        ensures *final(w) == *old(w),
            r matches Ok(m) ==> (m.file <==> old(w).fs.files.contains_key(p@)) && (m.file ==> m.size as nat == old(w).fs.files[p@].len()),
    { unimplemented!() }
    #[verifier::external_body]
    pub fn try_exists(p: &PathBuf, Tracked(w): Tracked<&mut World>) -> (r: Result<bool, IoError>)
        ensures *final(w) == *old(w) { unimplemented!() }
    #[verifier::external_body]
    pub fn read(p: &PathBuf, Tracked(w): Tracked<&mut World>) -> (r: Result<Vec<u8>, IoError>)
        ensures *final(w) == *old(w), r matches Ok(v) ==> old(w).fs.files.contains_key(p@) && v@ == old(w).fs.files[p@] { unimplemented!() }
    // fs::write: create or truncate (mode 0o666 for a new file), then write everything
    #[verifier::external_body]
    pub fn write(p: &PathBuf, data: &[u8], Tracked(w): Tracked<&mut World>) -> (r: Result<(), IoError>)
        ensures final(w).clock == old(w).clock, final(w).admissions == old(w).admissions, final(w).net == old(w).net,
            forall|q: Seq<char>| q != p@ ==> final(w).fs.files.contains_key(q) == old(w).fs.files.contains_key(q) && final(w).fs.files[q] == old(w).fs.files[q],
            r is Ok ==> final(w).fs.files == old(w).fs.files.insert(p@, data@)
                && final(w).fs.modes == (if old(w).fs.files.contains_key(p@) { old(w).fs.modes } else { old(w).fs.modes.insert(p@, 0o666u32) })
                && final(w).fs.events == old(w).fs.events.push(FsEvent::Open { path: p@, mode: 0o666u32, created: !old(w).fs.files.contains_key(p@), truncated: true }).push(FsEvent::Write { path: p@ }),
    { unimplemented!() }
    // fs::rename: the target is replaced by the source, which keeps its own mode and owner
    #[verifier::external_body]
    pub fn rename(from: &PathBuf, to: &PathBuf, Tracked(w): Tracked<&mut World>) -> (r: Result<(), IoError>)
        ensures final(w).clock == old(w).clock, final(w).admissions == old(w).admissions, final(w).net == old(w).net,
            r is Err ==> final(w).fs == old(w).fs,
            r is Ok ==> old(w).fs.files.contains_key(from@)
                && final(w).fs.files == old(w).fs.files.remove(from@).insert(to@, old(w).fs.files[from@])
                && final(w).fs.modes == old(w).fs.modes.remove(from@).insert(to@, old(w).fs.modes[from@])
                && final(w).fs.events == old(w).fs.events.push(FsEvent::Rename { from: from@, to: to@ }),
    { unimplemented!() }
    #[verifier::external_body]
    pub fn remove_file(p: &PathBuf, Tracked(w): Tracked<&mut World>) -> (r: Result<(), IoError>)
        ensures final(w).clock == old(w).clock, final(w).admissions == old(w).admissions, final(w).net == old(w).net,
            r is Err ==> final(w).fs == old(w).fs,
            r is Ok ==> final(w).fs.files == old(w).fs.files.remove(p@) && final(w).fs.modes == old(w).fs.modes.remove(p@)
                && final(w).fs.events == old(w).fs.events.push(FsEvent::Remove { path: p@ }),
    { unimplemented!() }
    }
}
// fully qualified paths of the external crate resolve to the model
pub mod tokio { pub mod fs { pub use crate::vfs::{File, OpenOptions, Metadata, metadata, try_exists, read, write, rename, remove_file}; } }
pub mod nix { pub mod unistd {
    use vstd::prelude::*;
    use crate::*;
    use crate::vpath::PathBuf;
    verus! {
    #[derive(Debug)]
    pub struct NixError { pub x: u8 }
    #[verifier::external]
    impl std::fmt::Display for NixError { fn fmt(&self, f: &mut std::fmt::Formatter) -> std::fmt::Result { Ok(()) } }
    impl vstd::std_specs::convert::FromSpecImpl<NixError> for crate::acme_common::error::Error {
        open spec fn obeys_from_spec() -> bool { false }
        open spec fn from_spec(e: NixError) -> Self { arbitrary() }
    }
    impl From<NixError> for crate::acme_common::error::Error {
        #[verifier::external_body] fn from(e: NixError) -> Self { unimplemented!() }
    }
    #[derive(Clone, Copy)]
    pub struct Uid { pub raw: u32 }
    #[derive(Clone, Copy)]
    pub struct Gid { pub raw: u32 }
    impl Uid {
        pub fn from_raw(r: u32) -> (u: Uid) ensures u.raw == r { Uid { raw: r } }
        pub fn as_raw(&self) -> (r: u32) ensures r == self.raw { self.raw }
    }
    impl Gid {
        pub fn from_raw(r: u32) -> (u: Gid) ensures u.raw == r { Gid { raw: r } }
        pub fn as_raw(&self) -> (r: u32) ensures r == self.raw { self.raw }
    }
    impl Uid {
        // the effective user of the process (whoever that is), and whether an id is root's
        #[verifier::external_body] pub fn effective() -> Uid { unimplemented!() }
        #[verifier::external_body] pub fn current() -> Uid { unimplemented!() }
        #[verifier::external_body] pub fn is_root(self) -> (r: bool) ensures r == (self.raw == 0) { unimplemented!() }
    }
    pub struct User { pub uid: Uid, pub gid: Gid }   // (gid: the primary group of the user, whatever it is)
    pub struct Group { pub gid: Gid }
    pub uninterp spec fn user_db(name: Seq<char>) -> Option<u32>;
    pub uninterp spec fn group_db(name: Seq<char>) -> Option<u32>;
    impl User {
        #[verifier::external_body]
        pub fn from_name(name: &String) -> (r: Result<Option<User>, NixError>)
            ensures r matches Ok(o) ==> (match o { Some(u) => user_db(name@) == Some(u.uid.raw), None => user_db(name@) is None })
        { unimplemented!() }
    }
    // the numeric side of the databases: whether an id has an entry at all (an id without an entry is still a valid owner for chown)
    pub uninterp spec fn uid_in_db(uid: u32) -> bool;
    pub uninterp spec fn gid_in_db(gid: u32) -> bool;
    impl User {
        #[verifier::external_body]
        pub fn from_uid(uid: Uid) -> (r: Result<Option<User>, NixError>)
            ensures r matches Ok(o) ==> (match o { Some(u) => uid_in_db(uid.raw) && u.uid == uid, None => !uid_in_db(uid.raw) })
        { unimplemented!() }
    }
    impl Group {
        #[verifier::external_body]
        pub fn from_gid(gid: Gid) -> (r: Result<Option<Group>, NixError>)
            ensures r matches Ok(o) ==> (match o { Some(g) => gid_in_db(gid.raw) && g.gid == gid, None => !gid_in_db(gid.raw) })
        { unimplemented!() }
    }
    impl Group {
        #[verifier::external_body]
        pub fn from_name(name: &String) -> (r: Result<Option<Group>, NixError>)
            ensures r matches Ok(o) ==> (match o { Some(g) => group_db(name@) == Some(g.gid.raw), None => group_db(name@) is None })
        { unimplemented!() }
    }
    pub open spec fn raw_uid(u: Option<Uid>) -> Option<u32> { match u { Some(x) => Some(x.raw), None => None } }
    pub open spec fn raw_gid(u: Option<Gid>) -> Option<u32> { match u { Some(x) => Some(x.raw), None => None } }
    #[verifier::external_body]
    pub fn chown(p: &PathBuf, uid: Option<Uid>, gid: Option<Gid>, Tracked(w): Tracked<&mut World>) -> (r: Result<(), NixError>)
        ensures
            final(w).clock == old(w).clock, final(w).admissions == old(w).admissions, final(w).net == old(w).net,
            final(w).fs.files == old(w).fs.files, final(w).fs.modes == old(w).fs.modes,
            final(w).fs.events == old(w).fs.events.push(FsEvent::Chown { path: p@, uid: raw_uid(uid), gid: raw_gid(gid) }),
    { unimplemented!() }
    // fchownat(None, path, uid, gid, flags): chown relative to the working directory; with AT_SYMLINK_NOFOLLOW a symbolic link is
    // not followed (the link changes owner, the file it names does not)
    #[verifier::external_body]
    pub fn fchownat(dirfd: Option<i32>, p: &PathBuf, uid: Option<Uid>, gid: Option<Gid>, flags: crate::nix::fcntl::AtFlags, Tracked(w): Tracked<&mut World>) -> (r: Result<(), NixError>)
        requires dirfd is None,
        ensures
            final(w).clock == old(w).clock, final(w).admissions == old(w).admissions, final(w).net == old(w).net,
            final(w).fs.files == old(w).fs.files, final(w).fs.modes == old(w).fs.modes,
            final(w).fs.events == old(w).fs.events.push(if flags.nofollow { FsEvent::Lchown { path: p@, uid: raw_uid(uid), gid: raw_gid(gid) } }
                                                        else { FsEvent::Chown { path: p@, uid: raw_uid(uid), gid: raw_gid(gid) } }),
    { unimplemented!() }
    }
}
pub mod fcntl {
    use vstd::prelude::*;
    verus! {
    #[derive(Clone, Copy)]
    pub struct AtFlags { pub nofollow: bool, pub other: u8 }
    impl AtFlags {
        pub const AT_SYMLINK_NOFOLLOW: AtFlags = AtFlags { nofollow: true, other: 0 };
        pub const AT_SYMLINK_FOLLOW: AtFlags = AtFlags { nofollow: false, other: 1 };
        pub const AT_EMPTY_PATH: AtFlags = AtFlags { nofollow: false, other: 2 };
        #[verifier::external_body] pub fn empty() -> (r: AtFlags) ensures r == (AtFlags { nofollow: false, other: 0 }) { unimplemented!() }
    }
    }
}
}
pub mod vparse {
    use vstd::prelude::*;
    verus! {
    #[derive(Debug)]
    pub struct ParseIntError { pub x: u8 }
    pub uninterp spec fn all_digits(s: Seq<char>) -> bool;
    pub uninterp spec fn parse_u32_spec(s: Seq<char>) -> Option<u32>;
    // S.bytes().all(|b| b.is_ascii_digit())   (rule T-ITER)
    #[verifier::external_body]
    pub fn all_ascii_digit(s: &String) -> (r: bool) ensures r == all_digits(s@) { unimplemented!() }
    // S.parse::<u32>()   (rule T-PARSE)
    #[verifier::external_body]
    pub fn parse_u32(s: &String) -> (r: Result<u32, ParseIntError>)
        ensures match r { Ok(v) => parse_u32_spec(s@) == Some(v), Err(_) => parse_u32_spec(s@) is None }
    { unimplemented!() }
    }
}
