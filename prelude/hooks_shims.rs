// Trusted model of async_process::Command / std::fs / template rendering as used by acmed/src/hooks.rs.
pub mod vproc {
    use vstd::prelude::*;
    use crate::*;
    verus! {
    // HookType derives Hash and Eq structurally: it obeys the hash-map key model
    #[verifier::external_body]
    pub broadcast proof fn axiom_hooktype_key_model()
        ensures #[trigger] vstd::std_specs::hash::obeys_key_model::<crate::config::HookType>() {}

    // ---- template rendering (minijinja through render_template): an uninterpreted function of template text and data
    pub uninterp spec fn render_spec<T>(tpl: Seq<char>, data: T) -> Option<Seq<char>>;
    #[verifier::external_body]
    pub fn render_template<T>(template: &str, data: &T) -> (r: Result<String, crate::acme_common::error::Error>)
        ensures match r { Ok(s) => render_spec(template@, *data) == Some(s@), Err(_) => render_spec(template@, *data) is None }
    { unimplemented!() }

    // ---- std::fs::File / BufReader as used for hook stdin/stdout/stderr files
    pub struct File { pub path: Ghost<Seq<char>>, pub created: Ghost<bool> }
    impl File {
        #[verifier::external_body]
        pub fn create(p: &String) -> (r: Result<File, crate::acme_common::error::IoError>)
            ensures r matches Ok(f) ==> f.path@ == p@ && f.created@ { unimplemented!() }
        #[verifier::external_body]
        pub fn open(p: &String) -> (r: Result<File, crate::acme_common::error::IoError>)
            ensures r matches Ok(f) ==> f.path@ == p@ && !f.created@ { unimplemented!() }
    }
    pub struct BufReader { pub path: Ghost<Seq<char>> }
    impl BufReader {
        #[verifier::external_body]
        pub fn new(f: File) -> (r: BufReader) ensures r.path@ == f.path@ { unimplemented!() }
        // `.lines()`: modelled as the finite list of lines (each may fail with an IO error)
        #[verifier::external_body]
        pub fn lines(self) -> Vec<Result<String, crate::acme_common::error::IoError>> { unimplemented!() }
    }

    // ---- async_process::{Command, Stdio, Child}
    pub ghost enum StdioSpec { Null, Piped, ToFile(Seq<char>) }
    pub struct Stdio { pub k: Ghost<StdioSpec> }
    impl Stdio {
        #[verifier::external_body] pub fn null() -> (r: Stdio) ensures r.k@ == StdioSpec::Null { unimplemented!() }
        #[verifier::external_body] pub fn piped() -> (r: Stdio) ensures r.k@ == StdioSpec::Piped { unimplemented!() }
        #[verifier::external_body] pub fn from(f: File) -> (r: Stdio) ensures r.k@ == StdioSpec::ToFile(f.path@) { unimplemented!() }
    }
    // what a spawned hook process looks like from outside
    pub ghost struct ProcSpec {
        pub cmd: Seq<char>, pub args: Seq<Seq<char>>, pub env_id: int,
        pub stdin: StdioSpec, pub stdout: StdioSpec, pub stderr: StdioSpec,
    }
    pub struct Command { pub p: Ghost<ProcSpec> }
    // the (name, value) pairs handed to `envs` (std::collections::hash_map::Iter); content specified in set_env
    pub struct EnvIter<K, V> { pub id: Ghost<int>, pub k: Option<K>, pub v: Option<V> }
    pub type Iter<K, V> = EnvIter<K, V>;
    pub uninterp spec fn env_id_of<T: ?Sized>(t: &T) -> int;
    #[verifier::external_body]
    pub fn cat2(a: &str, b: &str) -> (r: String) ensures r@ == a@ + b@ { unimplemented!() }
    pub struct ChildStdin { pub x: u8 }
    pub struct Child { pub stdin: Option<ChildStdin>, pub p: Ghost<ProcSpec> }
    pub struct ExitStatus { pub ok: Ghost<bool> }
    impl ExitStatus {
        #[verifier::external_body] pub fn success(&self) -> (r: bool) ensures r == self.ok@ { unimplemented!() }
        // the exit code, None when the process was ended by a signal; success = exit code 0
        #[verifier::external_body] pub fn code(&self) -> (r: Option<i32>) ensures (r matches Some(c) && c == 0) == self.ok@ { unimplemented!() }
    }
    impl ChildStdin {
        #[verifier::external_body]
        pub fn write_all(&mut self, b: &[u8]) -> Result<(), crate::acme_common::error::IoError> { unimplemented!() }
    }
    pub open spec fn strs(v: Seq<String>) -> Seq<Seq<char>> { v.map_values(|s: String| s@) }
    impl Command {
        #[verifier::external_body]
        pub fn new(cmd: &String) -> (r: Command)
            ensures r.p@ == (ProcSpec { cmd: cmd@, args: Seq::empty(), env_id: 0, stdin: StdioSpec::Null, stdout: StdioSpec::Null, stderr: StdioSpec::Null })
        { unimplemented!() }
        #[verifier::external_body]
        pub fn envs(&mut self, e: EnvIter<String, String>) -> (r: &mut Command)
            ensures *final(self) == *final(r), r.p@ == (ProcSpec { env_id: e.id@, ..old(self).p@ }) { unimplemented!() }
        #[verifier::external_body]
        pub fn args(&mut self, a: &[String]) -> (r: &mut Command)
            ensures *final(self) == *final(r), r.p@ == (ProcSpec { args: old(self).p@.args + strs(a@), ..old(self).p@ }) { unimplemented!() }
        #[verifier::external_body]
        pub fn stdout(&mut self, s: Stdio) -> (r: &mut Command)
            ensures *final(self) == *final(r), r.p@ == (ProcSpec { stdout: s.k@, ..old(self).p@ }) { unimplemented!() }
        #[verifier::external_body]
        pub fn stderr(&mut self, s: Stdio) -> (r: &mut Command)
            ensures *final(self) == *final(r), r.p@ == (ProcSpec { stderr: s.k@, ..old(self).p@ }) { unimplemented!() }
        #[verifier::external_body]
        pub fn stdin(&mut self, s: Stdio) -> (r: &mut Command)
            ensures *final(self) == *final(r), r.p@ == (ProcSpec { stdin: s.k@, ..old(self).p@ }) { unimplemented!() }
        // one child at a time: spawning requires that no spawned child is still un-waited
        #[verifier::external_body]
        pub fn spawn(&mut self, Tracked(w): Tracked<&mut World>) -> (r: Result<Child, crate::acme_common::error::IoError>)
            requires !old(w).running, //@C10.one_hook_process_at_a_time
            ensures final(self).p == old(self).p,
                match r {
                    Ok(c) => final(w).running && final(w).spawned == old(w).spawned.push(old(self).p@) && c.p == old(self).p
                        && (c.stdin is Some <==> old(self).p@.stdin is Piped) && final(w).runs == old(w).runs && final(w).bad_exits == old(w).bad_exits,
                    Err(_) => *final(w) == *old(w),
                }
        { unimplemented!() }
    }
    impl Child {
        #[verifier::external_body]
        pub fn status(&mut self, Tracked(w): Tracked<&mut World>) -> (r: Result<ExitStatus, crate::acme_common::error::IoError>)
            ensures !final(w).running, final(w).spawned == old(w).spawned, final(w).runs == old(w).runs,
                final(self).p == old(self).p, r matches Ok(st) ==> final(w).last_exit_ok == st.ok@,
                // a child that did not end with exit code 0 is on record, whatever its caller makes of it
                final(w).bad_exits == old(w).bad_exits + (if r matches Ok(st) && st.ok@ { 0nat } else { 1nat })
        { unimplemented!() }
    }
    }
}
pub mod serde { pub trait Serialize {} }
