// Verified (not trusted) lemmas about sorted integer logs; discharged by Verus on every run.
pub mod seqlemmas {
use vstd::prelude::*;
verus! {

pub open spec fn sorted(l: Seq<int>) -> bool {
    forall |i: int, j: int| 0 <= i <= j < l.len() ==> l[i] <= l[j]
}

// any n+1 consecutive-or-not admissions span at least d  <=>  no half-open window of length d holds more than n
pub open spec fn spaced(l: Seq<int>, n: int, d: int) -> bool {
    forall |i: int, j: int| 0 <= i && i + n <= j < l.len() ==> l[i] <= l[j] - d
}

pub open spec fn newer(l: Seq<int>, m: int) -> Seq<int> { l.filter(|x: int| x > m) }

pub proof fn lemma_newer_step(l: Seq<int>, m: int)
    requires l.len() > 0
    ensures newer(l, m) == (if l.last() > m { newer(l.drop_last(), m).push(l.last()) } else { newer(l.drop_last(), m) })
{
    reveal(Seq::filter);
}

pub proof fn lemma_newer_suffix(l: Seq<int>, m: int)
    requires sorted(l)
    ensures forall |i: int| 0 <= i < l.len() - newer(l, m).len() ==> l[i] <= m,
            forall |i: int| l.len() - newer(l, m).len() <= i < l.len() ==> l[i] > m,
            newer(l, m).len() <= l.len(),
    decreases l.len()
{
    if l.len() == 0 {
        reveal(Seq::filter);
    } else {
        let p = l.drop_last();
        assert(sorted(p));
        lemma_newer_suffix(p, m);
        lemma_newer_step(l, m);
        if l.last() > m {
            assert forall |i: int| 0 <= i < l.len() - newer(l, m).len() implies l[i] <= m by {
                assert(l[i] == p[i]);
            }
            assert forall |i: int| l.len() - newer(l, m).len() <= i < l.len() implies l[i] > m by {
                if i < p.len() { assert(l[i] == p[i]); }
            }
        } else {
            assert forall |i: int| 0 <= i < l.len() - newer(l, m).len() implies l[i] <= m by {
                assert(l[i] <= l[l.len() - 1]);
            }
            // newer(p) == newer(l): if non-empty, p's last > m but p.last <= l.last <= m
            if newer(p, m).len() > 0 {
                assert(p[p.len() - 1] > m);
                assert(l[p.len() - 1] <= l[l.len() - 1]);
            }
        }
    }
}

// in a sorted log the entries newer than m are exactly the suffix of that length
pub proof fn lemma_filter_suffix(l: Seq<int>, m: int)
    requires sorted(l)
    ensures newer(l, m).len() <= l.len(), newer(l, m) == l.skip(l.len() - newer(l, m).len())
    decreases l.len()
{
    if l.len() == 0 {
        reveal(Seq::filter);
        assert(newer(l, m) =~= l.skip(0));
    } else {
        let p = l.drop_last();
        assert(sorted(p));
        lemma_filter_suffix(p, m);
        lemma_newer_step(l, m);
        lemma_newer_suffix(p, m);
        let c = newer(p, m).len();
        if l.last() > m {
            assert(newer(l, m) =~= l.skip(l.len() - (c + 1))) by {
                assert forall |i: int| 0 <= i < c + 1 implies newer(l, m)[i] == l.skip(l.len() - (c + 1))[i] by {
                    if i < c {
                        assert(newer(p, m)[i] == p.skip(p.len() - c)[i]);
                    }
                }
            }
        } else {
            if c > 0 {
                assert(p[p.len() - 1] > m);
                assert(l[p.len() - 1] <= l[l.len() - 1]);
            }
            assert(newer(l, m) =~= l.skip(l.len() as int));
        }
    }
}

pub proof fn lemma_newer_antitone(l: Seq<int>, m1: int, m2: int)
    requires m1 <= m2
    ensures newer(l, m2).len() <= newer(l, m1).len()
    decreases l.len()
{
    if l.len() == 0 {
        reveal(Seq::filter);
    } else {
        lemma_newer_antitone(l.drop_last(), m1, m2);
        lemma_newer_step(l, m1);
        lemma_newer_step(l, m2);
    }
}

// a prefix that is entirely <= m contributes nothing
pub proof fn lemma_newer_skip(l: Seq<int>, k: int, m: int)
    requires 0 <= k <= l.len(), forall |i: int| 0 <= i < k ==> l[i] <= m
    ensures newer(l, m) == newer(l.skip(k), m)
    decreases l.len()
{
    if l.len() == k {
        assert(l.skip(k) =~= Seq::<int>::empty());
        reveal(Seq::filter);
        if l.len() > 0 {
            lemma_newer_skip(l.drop_last(), k - 1, m);
            lemma_newer_step(l, m);
            assert(l.drop_last().skip(k - 1) =~= Seq::<int>::empty());
        }
    } else {
        let p = l.drop_last();
        lemma_newer_skip(p, k, m);
        lemma_newer_step(l, m);
        assert(l.skip(k).drop_last() =~= p.skip(k));
        assert(l.skip(k).last() == l.last());
        lemma_newer_step(l.skip(k), m);
    }
}

pub proof fn lemma_sorted_skip(l: Seq<int>, k: int)
    requires sorted(l), 0 <= k <= l.len()
    ensures sorted(l.skip(k))
{
    assert forall |i: int, j: int| 0 <= i <= j < l.skip(k).len() implies l.skip(k)[i] <= l.skip(k)[j] by {
        assert(l.skip(k)[i] == l[k + i]);
        assert(l.skip(k)[j] == l[k + j]);
    }
}

// the push step: admission check passed at time now1 (fewer than n newer than now1-d), entry t >= now1 appended
pub proof fn lemma_push(l: Seq<int>, n: int, d: int, now1: int, t: int)
    requires sorted(l), spaced(l, n, d), n >= 1, d >= 0,
             newer(l, now1 - d).len() < n,
             t >= now1,
             forall |i: int| 0 <= i < l.len() ==> l[i] <= t,
    ensures sorted(l.push(t)), spaced(l.push(t), n, d)
{
    lemma_newer_suffix(l, now1 - d);
    let l2 = l.push(t);
    assert forall |i: int, j: int| 0 <= i && i + n <= j < l2.len() implies l2[i] <= l2[j] - d by {
        if j < l.len() {
            assert(l[i] <= l[j] - d);
        } else {
            assert(i < l.len() - newer(l, now1 - d).len());
            assert(l[i] <= now1 - d);
        }
    }
}

// what the user cares about: no window (t-d, t] contains n+1 admissions
pub proof fn lemma_window(l: Seq<int>, n: int, d: int, t: int, i: int, j: int)
    requires spaced(l, n, d), 0 <= i, i + n <= j < l.len()
    ensures !(t - d < l[i] && l[j] <= t)
{
    assert(l[i] <= l[j] - d);
}

// filtering a sequence of T by a threshold on a measure commutes with mapping the measure
pub proof fn lemma_filter_map<T>(s: Seq<T>, p: spec_fn(T) -> bool, f: spec_fn(T) -> int, m: int)
    requires forall |t: T| #[trigger] p(t) == (f(t) > m)
    ensures s.filter(p).map_values(f) == newer(s.map_values(f), m)
    decreases s.len()
{
    reveal(Seq::filter);
    if s.len() == 0 {
        assert(s.filter(p).map_values(f) =~= newer(s.map_values(f), m));
    } else {
        let q = s.drop_last();
        lemma_filter_map(q, p, f, m);
        assert(s.map_values(f).drop_last() =~= q.map_values(f));
        assert(s.map_values(f).last() == f(s.last()));
        lemma_newer_step(s.map_values(f), m);
        if p(s.last()) {
            assert(s.filter(p) == q.filter(p).push(s.last()));
            assert(s.filter(p).map_values(f) =~= q.filter(p).map_values(f).push(f(s.last())));
        } else {
            assert(s.filter(p) == q.filter(p));
        }
    }
}

pub proof fn lemma_filter_ext<T>(s: Seq<T>, p: spec_fn(T) -> bool, q: spec_fn(T) -> bool)
    requires forall |t: T| #[trigger] p(t) == q(t)
    ensures s.filter(p) == s.filter(q)
    decreases s.len()
{
    reveal(Seq::filter);
    if s.len() > 0 {
        lemma_filter_ext(s.drop_last(), p, q);
    }
}

}
}
