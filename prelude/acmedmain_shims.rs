// Trusted model for acmed/src/main.rs::inner_main: clap's command-line definition and matches, the log set-up, and the
// contract of MainEventLoop::new / run (verified in unit evloop).
pub mod clap {
    use vstd::prelude::*;
    verus! {
    pub enum ArgAction { Set, Append, SetTrue, SetFalse, Count, Help, HelpShort, HelpLong, Version }
    pub mod builder { pub enum ArgPredicate { IsPresent } }
    // what was given on the command line for an option, in order (every occurrence)
    pub uninterp spec fn given(name: Seq<char>) -> Seq<Seq<char>>;
    pub uninterp spec fn given_flag(name: Seq<char>) -> bool;
    // one argument definition: its id, whether it keeps every occurrence (ArgAction::Append), its default
    pub struct Arg { pub id: Ghost<Seq<char>>, pub append: Ghost<bool>, pub default: Ghost<Option<Seq<char>>> }
    pub trait Text { spec fn text(&self) -> Seq<char>; }
    impl Text for &str { open spec fn text(&self) -> Seq<char> { self@ } }
    impl Text for String { open spec fn text(&self) -> Seq<char> { self@ } }
    impl Arg {
        #[verifier::external_body] pub fn new(id: &str) -> (r: Arg) ensures r.id@ == id@, !r.append@, r.default@ is None { unimplemented!() }
        #[verifier::external_body] pub fn short(self, c: char) -> (r: Arg) ensures r == self { unimplemented!() }
        #[verifier::external_body] pub fn long(self, l: &str) -> (r: Arg) ensures r == self { unimplemented!() }
        #[verifier::external_body] pub fn help(self, h: &str) -> (r: Arg) ensures r == self { unimplemented!() }
        #[verifier::external_body] pub fn num_args(self, n: usize) -> (r: Arg) ensures r == self { unimplemented!() }
        #[verifier::external_body] pub fn value_name(self, n: &str) -> (r: Arg) ensures r == self { unimplemented!() }
        #[verifier::external_body] pub fn conflicts_with(self, n: &str) -> (r: Arg) ensures r == self { unimplemented!() }
        #[verifier::external_body] pub fn value_parser<P>(self, p: P) -> (r: Arg) ensures r == self { unimplemented!() }
        #[verifier::external_body] pub fn default_value<V: Text>(self, v: V) -> (r: Arg)
            ensures r.id == self.id, r.append == self.append, r.default@ == Some(v.text()) { unimplemented!() }
        #[verifier::external_body] pub fn default_value_if(self, other: &str, p: builder::ArgPredicate, v: Option<&str>) -> (r: Arg) ensures r == self { unimplemented!() }
        // ArgAction::Append keeps every occurrence of the option; every other action keeps one value at most
        #[verifier::external_body] pub fn action(self, a: ArgAction) -> (r: Arg)
            ensures r.id == self.id, r.default == self.default, r.append@ == (a is Append) { unimplemented!() }
    }
    pub struct Command { pub append_args: Ghost<Set<Seq<char>>>, pub defaults: Ghost<Map<Seq<char>, Seq<char>>> }
    impl Command {
        #[verifier::external_body] pub fn new(n: &str) -> (r: Command) ensures r.append_args@ == Set::<Seq<char>>::empty(), r.defaults@ == Map::<Seq<char>, Seq<char>>::empty() { unimplemented!() }
        #[verifier::external_body] pub fn version(self, v: &str) -> (r: Command) ensures r == self { unimplemented!() }
        #[verifier::external_body] pub fn long_version(self, v: String) -> (r: Command) ensures r == self { unimplemented!() }
        #[verifier::external_body] pub fn about(self, v: &str) -> (r: Command) ensures r == self { unimplemented!() }
        #[verifier::external_body] pub fn arg(self, a: Arg) -> (r: Command)
            // (an id is declared once: clap refuses a second definition of the same id)
            ensures r.append_args@ == (if a.append@ { self.append_args@.insert(a.id@) } else { self.append_args@ }),
                r.defaults@ == (match a.default@ { Some(d) => self.defaults@.insert(a.id@, d), None => self.defaults@ }) { unimplemented!() }
        #[verifier::external_body] pub fn get_matches(self) -> (m: ArgMatches) ensures m.append_args == self.append_args, m.defaults == self.defaults { unimplemented!() }
    }
    pub struct ArgMatches { pub append_args: Ghost<Set<Seq<char>>>, pub defaults: Ghost<Map<Seq<char>, Seq<char>>> }
    pub struct ValuesRef<'a> { pub vals: Vec<&'a String> }
    impl ArgMatches {
        // get_one::<String>(name): the value given (the last one), else the declared default, else nothing
        #[verifier::external_body]
        pub fn get_one_string(&self, name: &str) -> (r: Option<&String>)
            ensures match r {
                Some(s) => (given(name@).len() > 0 && s@ == given(name@).last()) || (given(name@).len() == 0 && self.defaults@.contains_key(name@) && s@ == self.defaults@[name@]),
                None => given(name@).len() == 0 && !self.defaults@.contains_key(name@) } { unimplemented!() }
        #[verifier::external_body]
        pub fn get_flag(&self, name: &str) -> (r: bool) ensures r == given_flag(name@) { unimplemented!() }
        // get_many::<String>(name): every occurrence - which only an argument declared with ArgAction::Append has (any other
        // action keeps the last value, or refuses a second occurrence)
        #[verifier::external_body]
        pub fn get_many_string(&self, name: &str) -> (r: Option<ValuesRef<'_>>)
            requires self.append_args@.contains(name@), //@C18.every_root_cert_option_of_the_command_line_is_kept
            ensures match r {
                Some(v) => v.vals@.len() > 0 && v.vals@.map_values(|s: &String| s@) == given(name@),
                None => given(name@).len() == 0 } { unimplemented!() }
    }
    // V.map(|e| e.as_str()).collect()   (rule T-ITER)
    #[verifier::external_body]
    pub fn values_as_strs<'a>(v: ValuesRef<'a>) -> (r: Vec<&'a str>)
        ensures r@.map_values(|s: &str| s@) == v.vals@.map_values(|s: &String| s@) { unimplemented!() }
    // O.map(|e| e.as_str())
    #[verifier::external_body]
    pub fn opt_as_str<'a>(o: Option<&'a String>) -> (r: Option<&'a str>)
        ensures match r { Some(s) => o matches Some(t) && s@ == t@, None => o is None } { unimplemented!() }
    }
}
pub mod shims {
    use vstd::prelude::*;
    verus! {
    pub struct Error { pub message: String }
    #[verifier::external_body] pub fn get_lib_name() -> String { unimplemented!() }
    #[verifier::external_body] pub fn get_lib_version() -> String { unimplemented!() }
    #[verifier::external_body] pub fn set_log_system(log_level: Option<&str>, has_syslog: bool, has_stderr: bool) -> Result<(), Error> { unimplemented!() }
    #[verifier::external_body] pub fn init_server(foreground: bool, pid_file: Option<&str>) { unimplemented!() }
    #[verifier::external_body] pub fn clean_pid_file(pid_file: Option<&str>) -> Result<(), Error> { unimplemented!() }
    #[verifier::external_body] pub fn exit(code: i32) -> ! { std::process::exit(code) }
    pub struct MainEventLoop { pub config_file: Ghost<Seq<char>>, pub roots: Ghost<Seq<Seq<char>>> }
    impl MainEventLoop {
        // MainEventLoop::new (verified in unit evloop: every endpoint gets the roots it is given, before its own and the global ones):
        // what it is given here is what the administrator passed - every --root-cert, in order - and the configuration file asked for
        #[verifier::external_body]
        pub fn new(config_file: &str, root_certs: &[&str]) -> (r: Result<MainEventLoop, Error>)
            requires
                root_certs@.map_values(|s: &str| s@) == crate::clap::given("root-cert"@), //@C18.every_root_cert_option_of_the_command_line_reaches_the_endpoints
            ensures r matches Ok(l) ==> l.config_file@ == config_file@ && l.roots@ == root_certs@.map_values(|s: &str| s@) { unimplemented!() }
        #[verifier::external_body] pub fn run(&mut self) { unimplemented!() }
    }
    }
}
