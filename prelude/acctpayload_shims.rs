// Trusted model for acme_proto/structs/account.rs (unit acctpayload): the account object and the endpoint as far as the payload
// constructors read them, the JWK of a key pair, the MAC-signed JWS (jws.rs::encode_kid_mac, verified in unit jws), serde_json.
pub mod shims {
    use vstd::prelude::*;
    use crate::acme_common::error::Error;
    use crate::acme_common::crypto::KeyPair;
    verus! {
    #[derive(Clone, Copy, PartialEq, Eq)]
    pub enum JwsSignatureAlgorithm { Hs256, Hs384, Hs512, Rs256, Es256, Es384, Es512, Ed25519, Ed448 }
    pub struct AccountContact { pub x: Ghost<int> }
    #[verifier::external]
    impl std::fmt::Display for AccountContact { fn fmt(&self, f: &mut std::fmt::Formatter) -> std::fmt::Result { Ok(()) } }
    // Display of a contact: `<type>:<value>` (contact.rs)
    pub uninterp spec fn contact_text(c: AccountContact) -> Seq<char>;
    #[verifier::external_body]
    pub broadcast proof fn axiom_contact_to_string(c: &AccountContact, r: String)
        ensures #[trigger] vstd::string::to_string_from_display_ensures::<AccountContact>(c, r) ==> r@ == contact_text(*c) {}
    pub struct ExternalAccount { pub identifier: String, pub key: Vec<u8>, pub signature_algorithm: JwsSignatureAlgorithm }
    pub struct AccountKey { pub key: KeyPair, pub signature_algorithm: JwsSignatureAlgorithm }
    pub mod serde_json {
        use vstd::prelude::*;
        use crate::acme_common::error::Error;
        verus! {
        // a JSON value; its text; the value a text parses into
        pub struct Value { pub id: Ghost<int> }
        pub uninterp spec fn json_text(v: Value) -> Seq<char>;
        pub uninterp spec fn json_value_of(s: Seq<char>) -> Option<Value>;
        #[verifier::external_body]
        pub fn to_string(v: &Value) -> (r: Result<String, Error>) ensures r matches Ok(s) ==> s@ == json_text(*v) { unimplemented!() }
        #[verifier::external_body]
        pub fn from_str(s: &String) -> (r: Result<Value, Error>)
            ensures match r { Ok(v) => json_value_of(s@) == Some(v), Err(_) => json_value_of(s@) is None } { unimplemented!() }
        }
    }
    pub use serde_json::{json_text, json_value_of};
    // KeyPair::jwk_public_key (verified in unit keys): the public JWK of the key
    pub uninterp spec fn jwk_of(k: KeyPair) -> serde_json::Value;
    pub uninterp spec fn jwk_thumb_of(k: KeyPair) -> serde_json::Value;
    impl KeyPair {
        #[verifier::external_body]
        pub fn jwk_public_key(&self) -> (r: Result<serde_json::Value, Error>) ensures r matches Ok(v) ==> v == jwk_of(*self) { unimplemented!() }
        // the RFC 7638 thumbprint form (required members only): another value than the public JWK
        #[verifier::external_body]
        pub fn jwk_public_key_thumbprint(&self) -> (r: Result<serde_json::Value, Error>) ensures r matches Ok(v) ==> v == jwk_thumb_of(*self) { unimplemented!() }
    }
    // jws.rs::encode_kid_mac (verified in unit jws): a flattened JWS over `payload` whose protected header carries alg, kid and url,
    // signed with the MAC key
    pub uninterp spec fn kid_mac(jws: Seq<char>, key: Seq<u8>, alg: JwsSignatureAlgorithm, kid: Seq<char>, payload: Seq<u8>, url: Seq<char>) -> bool;
    #[verifier::external_body]
    pub fn encode_kid_mac(key: &[u8], sign_alg: &JwsSignatureAlgorithm, key_id: &str, payload: &[u8], url: &str) -> (r: Result<String, Error>)
        ensures r matches Ok(s) ==> kid_mac(s@, key@, *sign_alg, key_id@, payload@, url@) { unimplemented!() }
    // Vec::from(&[String]) / `.into()`: a copy, string by string
    pub assume_specification<'a, T: Clone> [<Vec<T> as From<&'a [T]>>::from] (s: &[T]) -> (r: Vec<T>)
        ensures r@.len() == s@.len(), forall|i: int| 0 <= i < s@.len() ==> call_ensures(T::clone, (&#[trigger] s@[i],), r@[i]);
    pub struct Directory { pub new_nonce: String, pub new_account: String, pub new_order: String, pub new_authz: Option<String>, pub revoke_cert: String, pub key_change: String }
    pub struct Endpoint { pub name: String, pub url: String, pub dir: Directory, pub tos_agreed: bool }
    // V.iter().map(F).collect()   (rule T-ITER): element by element, in order
    #[verifier::external_body]
    pub fn map_collect<T, U, F: Fn(&T) -> U>(v: &Vec<T>, f: F) -> (r: Vec<U>)
        requires forall|i: int| 0 <= i < v@.len() ==> f.requires((&#[trigger] v@[i],))
        ensures r@.len() == v@.len(), forall|i: int| 0 <= i < v@.len() ==> f.ensures((&v@[i],), #[trigger] r@[i]) { unimplemented!() }
    }
}
pub mod account {
    use vstd::prelude::*;
    use crate::shims::*;
    verus! {
    pub struct Account { pub contacts: Vec<AccountContact>, pub current_key: AccountKey, pub external_account: Option<ExternalAccount> }
    }
}
pub mod endpoint { pub use crate::shims::Endpoint; }
pub mod jws { pub use crate::shims::encode_kid_mac; }
