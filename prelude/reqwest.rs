// Trusted model of the part of reqwest / std::fs that acmed/src/http.rs uses.
// Effects are stated over the ghost World; "X never happens unless Y" is a precondition of the effect.
pub mod rootfs {
    use vstd::prelude::*;
    use crate::acme_common::error::IoError;
    verus! {
    pub uninterp spec fn file_content(path: Seq<char>) -> Seq<u8>;
    pub struct File { pub path: Ghost<Seq<char>> }
    impl File {
        // std::fs::File::open
        #[verifier::external_body]
        pub fn open(p: &String) -> (r: Result<File, IoError>)
            ensures r matches Ok(f) ==> f.path@ == p@
        { unimplemented!() }
        // std::io::Read::read_to_end
        #[verifier::external_body]
        pub fn read_to_end(&mut self, buf: &mut Vec<u8>) -> (r: Result<usize, IoError>)
            ensures final(self).path == old(self).path,
                    r is Ok ==> final(buf)@ == old(buf)@ + file_content(old(self).path@)
        { unimplemented!() }
    }
    }
}
pub mod reqwest {
    use vstd::prelude::*;
    use crate::*;
    verus! {
    #[derive(Debug)]
    pub struct Error { pub x: u8 }
    impl vstd::std_specs::convert::FromSpecImpl<Error> for crate::acme_common::error::Error {
        open spec fn obeys_from_spec() -> bool { false }
        open spec fn from_spec(e: Error) -> Self { arbitrary() }
    }
    impl From<Error> for crate::acme_common::error::Error {
        #[verifier::external_body] fn from(e: Error) -> Self { unimplemented!() }
    }
    // a parsed certificate, identified by its DER bytes
    pub struct Certificate { pub pem: Ghost<Seq<u8>> }
    // the CERTIFICATE blocks a PEM file holds, in order (empty for a file that holds none)
    pub uninterp spec fn pem_certs(content: Seq<u8>) -> Seq<Seq<u8>>;
    impl Certificate {
        // parses one certificate: fails on a file without a (well-formed) certificate
        #[verifier::external_body]
        pub fn from_pem(pem: &Vec<u8>) -> (r: Result<Certificate, Error>)
            ensures r matches Ok(c) ==> pem_certs(pem@).len() >= 1 && c.pem@ == pem_certs(pem@)[0]
        { unimplemented!() }
        // parses every CERTIFICATE block; a file without any yields an empty list, not an error
        #[verifier::external_body]
        pub fn from_pem_bundle(pem: &Vec<u8>) -> (r: Result<Vec<Certificate>, Error>)
            ensures r matches Ok(v) ==> v@.len() == pem_certs(pem@).len()
                && forall|i: int| 0 <= i < v@.len() ==> (#[trigger] v@[i]).pem@ == pem_certs(pem@)[i]
        { unimplemented!() }
    }
    pub mod header {
        use vstd::prelude::*;
        verus! {
        pub struct HeaderName { pub x: u8 }
        // what can name a header in a lookup: a text or a HeaderName constant (none of the constants is one of the two names modelled)
        pub trait AsHeaderName { spec fn name_text(&self) -> Seq<char>; }
        impl<'a> AsHeaderName for &'a str { open spec fn name_text(&self) -> Seq<char> { self@ } }
        impl<'a> AsHeaderName for &'a String { open spec fn name_text(&self) -> Seq<char> { self@ } }
        pub uninterp spec fn std_header_text(x: u8) -> Seq<char>;
        impl AsHeaderName for HeaderName { open spec fn name_text(&self) -> Seq<char> { std_header_text(self.x) } }
        #[verifier::external_body]
        pub broadcast proof fn axiom_std_header_names(x: u8)
            ensures #[trigger] std_header_text(x) != "Replay-Nonce"@ && std_header_text(x) != "Location"@ {}
        pub const ACCEPT: HeaderName = HeaderName { x: 0 };
        pub const CONTENT_TYPE: HeaderName = HeaderName { x: 1 };
        pub const ACCEPT_LANGUAGE: HeaderName = HeaderName { x: 2 };
        pub const USER_AGENT: HeaderName = HeaderName { x: 3 };
        pub const RETRY_AFTER: HeaderName = HeaderName { x: 4 };
        pub const CONTENT_LENGTH: HeaderName = HeaderName { x: 6 };
        pub const CACHE_CONTROL: HeaderName = HeaderName { x: 7 };
        pub const LINK: HeaderName = HeaderName { x: 8 };
        pub const DATE: HeaderName = HeaderName { x: 9 };
        pub const AUTHORIZATION: HeaderName = HeaderName { x: 10 };
        pub const HOST: HeaderName = HeaderName { x: 11 };
        pub const CONNECTION: HeaderName = HeaderName { x: 12 };
        pub const ETAG: HeaderName = HeaderName { x: 13 };
        pub const EXPIRES: HeaderName = HeaderName { x: 14 };
        pub const IF_NONE_MATCH: HeaderName = HeaderName { x: 15 };
        pub const ACCEPT_ENCODING: HeaderName = HeaderName { x: 16 };
        pub const CONTENT_ENCODING: HeaderName = HeaderName { x: 17 };
        impl HeaderName {
            #[verifier::external_body] pub fn as_str(&self) -> (r: &str) ensures r@ == std_header_text(self.x) { unimplemented!() }
        }
        #[derive(Debug)]
        pub struct InvalidHeaderValue { pub x: u8 }
        #[derive(Debug)]
        pub struct ToStrError { pub x: u8 }
        // value: Some(text) iff the header value is visible ASCII (what `to_str` accepts)
        pub struct HeaderValue { pub text: Ghost<Option<Seq<char>>> }
        impl HeaderValue {
            #[verifier::external_body]
            pub fn to_str(&self) -> (r: Result<&str, ToStrError>)
                ensures (r matches Ok(s) ==> self.text@ == Some(s@)), (r is Err ==> self.text@ is None)
            { unimplemented!() }
        }
        // `"..".parse().unwrap()` in get_client: both values are assembled from build-time constants;
        // assumption A-HDR: they are valid header values (rule T-PARSE redirects str::parse to this function)
        #[verifier::external_body]
        pub fn parse_header_value(s: &str) -> (r: Result<HeaderValue, InvalidHeaderValue>)
            ensures r is Ok
        { unimplemented!() }
        pub struct HeaderMap { pub nonce: Ghost<Option<HeaderValue>>, pub location: Ghost<Option<HeaderValue>> }
        impl HeaderMap {
            #[verifier::external_body]
            pub fn new() -> HeaderMap { unimplemented!() }
            #[verifier::external_body]
            pub fn append(&mut self, k: HeaderName, v: HeaderValue) -> bool { unimplemented!() }
            // lookup by (case-insensitive) name; only the two names acmed reads are modelled
            #[verifier::external_body]
            pub fn get<K: AsHeaderName>(&self, name: K) -> (r: Option<&HeaderValue>)
                ensures name.name_text() == "Replay-Nonce"@ ==> (match r { Some(v) => self.nonce@ == Some(*v), None => self.nonce@ is None }),
                        name.name_text() == "Location"@ ==> (match r { Some(v) => self.location@ == Some(*v), None => self.location@ is None }),
            { unimplemented!() }
            #[verifier::external_body]
            pub fn contains_key<K: AsHeaderName>(&self, name: K) -> (r: bool)
                ensures name.name_text() == "Replay-Nonce"@ ==> r == (self.nonce@ is Some), name.name_text() == "Location"@ ==> r == (self.location@ is Some),
            { unimplemented!() }
        }
        impl Clone for HeaderMap {
            #[verifier::external_body]
            fn clone(&self) -> (r: Self) ensures r == *self { unimplemented!() }
        }
        }
    }
    // reqwest::Url (the `url` crate): parsing NORMALISES (default port dropped, scheme and host lower-cased, dot segments
    // removed, characters percent-encoded, an empty path made `/`): a parsed URL remembers the text it came from (`src`) and
    // serialises (`as_str`, Display) as the normal form of it (`text`), which is in general another string
    pub struct Url { pub src: Ghost<Seq<char>>, pub text: Ghost<Seq<char>> }
    pub struct UrlParseError { pub x: u8 }
    pub uninterp spec fn url_host(u: Seq<char>) -> Option<Seq<char>>;
    pub uninterp spec fn url_normal(u: Seq<char>) -> Seq<char>;
    impl Url {
        #[verifier::external_body]
        pub fn parse(s: &str) -> (r: std::result::Result<Url, UrlParseError>) ensures r matches Ok(u) ==> u.src@ == s@ && u.text@ == url_normal(s@) { unimplemented!() }
        #[verifier::external_body]
        pub fn host_str(&self) -> (r: Option<&str>) ensures match r { Some(h) => url_host(self.src@) == Some(h@), None => url_host(self.src@) is None } { unimplemented!() }
        #[verifier::external_body]
        pub fn as_str(&self) -> (r: &str) ensures r@ == self.text@ { unimplemented!() }
    }
    impl Clone for Url { #[verifier::external_body] fn clone(&self) -> (r: Self) ensures r == *self { unimplemented!() } }
    // what a request may be addressed by: a text, or a parsed URL (the request goes to the URL that text / that URL's source names)
    pub trait IntoUrl { spec fn addressed(&self) -> Seq<char>; }
    impl IntoUrl for &str { open spec fn addressed(&self) -> Seq<char> { self@ } }
    impl IntoUrl for &String { open spec fn addressed(&self) -> Seq<char> { self@ } }
    impl IntoUrl for Url { open spec fn addressed(&self) -> Seq<char> { self.src@ } }
    impl IntoUrl for &Url { open spec fn addressed(&self) -> Seq<char> { self.src@ } }
    pub struct ClientBuilder { pub roots: Ghost<Set<Seq<u8>>>, pub insecure: Ghost<bool> }
    impl ClientBuilder {
        #[verifier::external_body]
        pub fn new() -> (r: ClientBuilder) ensures r.roots@ == Set::<Seq<u8>>::empty(), !r.insecure@ { unimplemented!() }
        #[verifier::external_body]
        pub fn default_headers(self, h: header::HeaderMap) -> (r: ClientBuilder) ensures r == self { unimplemented!() }
        // tls_built_in_root_certs(false) takes the system trust store away: the property wants it extended, not replaced
        #[verifier::external_body]
        pub fn tls_built_in_root_certs(self, b: bool) -> (r: ClientBuilder)
            ensures r.roots == self.roots, r.insecure@ == (self.insecure@ || !b) { unimplemented!() }
        #[verifier::external_body]
        pub fn add_root_certificate(self, c: Certificate) -> (r: ClientBuilder)
            ensures r.roots@ == self.roots@.insert(c.pem@), r.insecure == self.insecure { unimplemented!() }
        // the two switches that disable verification: using them makes every later send unprovable
        #[verifier::external_body]
        pub fn danger_accept_invalid_certs(self, b: bool) -> (r: ClientBuilder)
            ensures r.roots == self.roots, r.insecure@ == (self.insecure@ || b) { unimplemented!() }
        #[verifier::external_body]
        pub fn danger_accept_invalid_hostnames(self, b: bool) -> (r: ClientBuilder)
            ensures r.roots == self.roots, r.insecure@ == (self.insecure@ || b) { unimplemented!() }
        #[verifier::external_body]
        pub fn build(self) -> (r: Result<Client, Error>)
            ensures r matches Ok(c) ==> c.roots == self.roots && c.insecure == self.insecure { unimplemented!() }
    }
    pub struct Client { pub roots: Ghost<Set<Seq<u8>>>, pub insecure: Ghost<bool> }
    // reqwest::Client is a handle: a clone shares the configuration (trust anchors included)
    impl Clone for Client { #[verifier::external_body] fn clone(&self) -> (r: Self) ensures r == *self { unimplemented!() } }
    pub struct RequestBuilder {
        pub roots: Ghost<Set<Seq<u8>>>, pub insecure: Ghost<bool>,
        pub is_post: Ghost<bool>, pub url: Ghost<Seq<char>>, pub body: Ghost<Seq<char>>,
    }
    impl Client {
        #[verifier::external_body]
        pub fn get<U: IntoUrl>(&self, url: U) -> (r: RequestBuilder)
            ensures r.roots == self.roots, r.insecure == self.insecure, !r.is_post@, r.url@ == url.addressed() { unimplemented!() }
        #[verifier::external_body]
        pub fn post<U: IntoUrl>(&self, url: U) -> (r: RequestBuilder)
            ensures r.roots == self.roots, r.insecure == self.insecure, r.is_post@, r.url@ == url.addressed() { unimplemented!() }
    }
    impl RequestBuilder {
        #[verifier::external_body]
        pub fn header(self, k: header::HeaderName, v: &str) -> (r: RequestBuilder) ensures r == self { unimplemented!() }
        #[verifier::external_body]
        pub fn body(self, b: String) -> (r: RequestBuilder)
            ensures r == (RequestBuilder { body: Ghost(b@), ..self }) { unimplemented!() }
        // The transmission.  Its preconditions are the call-site obligations of C09, C18 and C04.
        #[verifier::external_body]
        pub fn send(self, Tracked(w): Tracked<&mut World>) -> (r: Result<Response, Error>)
            requires
                old(w).net.permit, //@C09.send_needs_limiter_pass
                !self.insecure@ && crate::http::roots_match(self.roots@, old(w).net.trust_roots), //@C18.send_trusted_client
                self.is_post@ ==> (old(w).net.built matches Some(b) && b.1 == self.url@ && b.2 == self.body@), //@C04.body_bound_to_url
                self.is_post@ ==> (old(w).net.latest_nonce matches Some(n) ==> old(w).net.built matches Some(b) && b.0 == n), //@C04.newest_nonce,C08.retransmission_uses_newest_nonce
            ensures
                final(w).clock >= old(w).clock, final(w).admissions == old(w).admissions, final(w).fs == old(w).fs,
                final(w).net.permit == false,
                final(w).net.sends == old(w).net.sends + 1,
                final(w).net.posts == old(w).net.posts + (if self.is_post@ { 1nat } else { 0nat }),
                final(w).net.trust_roots == old(w).net.trust_roots,
                final(w).net.built == old(w).net.built, final(w).net.waited == old(w).net.waited,
                match r {
                    Ok(resp) => final(w).net.latest_nonce == (match resp.valid_nonce() { Some(n) => Some(n), None => old(w).net.latest_nonce })
                        && final(w).net.last_success == resp.success@ && final(w).net.last_body == resp.body@,
                    Err(_) => final(w).net.latest_nonce == old(w).net.latest_nonce,
                },
        { unimplemented!() }
    }
    pub uninterp spec fn is_nonce_spec(s: Seq<char>) -> bool;
    pub struct StatusCode { pub success: Ghost<bool>, pub code: Ghost<int> }
    impl StatusCode {
        // http::StatusCode: a three-digit code; the classes are its hundreds
        pub open spec fn wf(&self) -> bool { 100 <= self.code@ < 1000 && (self.success@ <==> 200 <= self.code@ < 300) }
        #[verifier::external_body]
        pub fn is_success(&self) -> (r: bool) ensures r == self.success@ { unimplemented!() }
        #[verifier::external_body]
        pub fn is_informational(&self) -> (r: bool) ensures r == (100 <= self.code@ < 200) { unimplemented!() }
        #[verifier::external_body]
        pub fn is_redirection(&self) -> (r: bool) ensures r == (300 <= self.code@ < 400) { unimplemented!() }
        #[verifier::external_body]
        pub fn is_client_error(&self) -> (r: bool) ensures r == (400 <= self.code@ < 500) { unimplemented!() }
        #[verifier::external_body]
        pub fn is_server_error(&self) -> (r: bool) ensures r == (500 <= self.code@ < 600) { unimplemented!() }
        #[verifier::external_body]
        pub fn as_u16(&self) -> (r: u16) ensures r as int == self.code@ { unimplemented!() }
        #[verifier::external_body]
        pub fn as_str(&self) -> &str { unimplemented!() }
        #[verifier::external_body]
        pub fn canonical_reason(&self) -> Option<&'static str> { unimplemented!() }
    }
    pub struct Response { pub hdrs: header::HeaderMap, pub success: Ghost<bool>, pub body: Ghost<Seq<char>> }
    impl Response {
        // the Replay-Nonce of this response if present, textual and well-formed
        pub open spec fn valid_nonce(&self) -> Option<Seq<char>> {
            match self.hdrs.nonce@ {
                Some(v) => match v.text@ { Some(s) => if is_nonce_spec(s) { Some(s) } else { None }, None => None },
                None => None,
            }
        }
        #[verifier::external_body]
        pub fn headers(&self) -> (r: &header::HeaderMap) ensures *r == self.hdrs { unimplemented!() }
        #[verifier::external_body]
        pub fn status(&self) -> (r: StatusCode) ensures r.success == self.success, r.wf() { unimplemented!() }
        #[verifier::external_body]
        pub fn text(self) -> (r: Result<String, Error>) ensures r matches Ok(s) ==> s@ == self.body@ { unimplemented!() }
    }
    }
}
pub mod serde { pub mod de { pub trait DeserializeOwned {} } }
