// Trusted specs for std functions vstd lacks.  Only documented behaviour is stated.
verus! {
pub assume_specification<T: std::clone::Clone> [<T as std::borrow::ToOwned>::to_owned] (x: &T) -> (r: T)
    ensures r == *x;
pub assume_specification [std::thread::sleep] (d: std::time::Duration);
}
pub mod stdax {
    use vstd::prelude::*;
    verus! {
    // a str is determined by its characters
    #[verifier::external_body]
    pub broadcast proof fn axiom_str_ext(a: &str, b: &str)
        ensures (#[trigger] a@ == #[trigger] b@) ==> a == b {}
    }
}
verus! {
pub assume_specification<'a> [<String as From<&'a str>>::from] (s: &str) -> (r: String)
    ensures r@ == s@;
}
verus! {
// T-FMT (opaque form): a formatted string whose content no property depends on (error/log text)
#[verifier::external_body]
pub fn opaque_string() -> String { String::new() }
}
pub mod stdax2 {
    use vstd::prelude::*;
    verus! {
    // `to_string()` of a String is that string (vstd states this for str only)
    #[verifier::external_body]
    pub broadcast proof fn axiom_to_string_string(s: &String, r: String)
        ensures #[trigger] vstd::string::to_string_from_display_ensures::<String>(s, r) ==> r@ == s@ {}
    }
}
verus! {
pub assume_specification<'a> [<String as PartialEq<&'a str>>::eq] (a: &String, b: &&str) -> (r: bool)
    ensures r == (a@ == b@);
}
verus! {
pub assume_specification<'a> [<&'a str as PartialEq<String>>::eq] (a: &&'a str, b: &String) -> (r: bool)
    ensures r == (a@ == b@);
}
verus! {
pub assume_specification<T: std::clone::Clone> [<[T]>::to_vec] (s: &[T]) -> (r: std::vec::Vec<T>)
    ensures r@.len() == s@.len(),
        forall|i: int| 0 <= i < s@.len() ==> call_ensures(T::clone, (&#[trigger] s@[i],), r@[i]);
}
verus! {
pub uninterp spec fn utf8_bytes(s: Seq<char>) -> Seq<u8>;
pub assume_specification [std::string::String::as_bytes] (s: &String) -> (r: &[u8])
    ensures r@ == utf8_bytes(s@);
}
verus! {
pub assume_specification<T: std::default::Default + std::marker::Destruct, E: std::marker::Destruct> [std::result::Result::<T, E>::unwrap_or_default] (r: std::result::Result<T, E>) -> (v: T)
    ensures r matches Ok(x) ==> v == x;
}
verus! {
// lossy UTF-8 view of bytes: never fails (text unspecified)
pub assume_specification<'a> [String::from_utf8_lossy] (v: &'a [u8]) -> std::borrow::Cow<'a, str>;
}
pub mod vsync {
    use vstd::prelude::*;
    verus! {
    // A function-local `static` (rule T-STATIC) holds whatever earlier calls have left in it: its content at entry is unknown.
    #[verifier::external_body]
    pub fn unknown<T>() -> T { unimplemented!() }
    // std::sync::OnceLock<T>: empty, or holding the value of the first initialisation
    pub struct OnceLock<T> { pub v: Option<T> }
    impl<T> OnceLock<T> {
        #[verifier::external_body]
        pub fn get(&self) -> (r: Option<&T>)
            ensures match r { Some(x) => self.v == Some(*x), None => self.v is None } { unimplemented!() }
        #[verifier::external_body]
        pub fn get_or_init<F: FnOnce() -> T>(&self, f: F) -> (r: &T)
            requires f.requires(())
            ensures self.v matches Some(x) ==> *r == x, self.v is None ==> f.ensures((), *r) { unimplemented!() }
    }
    }
}
verus! {
// Option / Result combinators vstd lacks
pub assume_specification<T, F: FnOnce() -> std::option::Option<T>> [std::option::Option::<T>::or_else] (o: std::option::Option<T>, f: F) -> (r: std::option::Option<T>)
    requires o is None ==> f.requires(()),
    ensures o is Some ==> r == o, o is None ==> f.ensures((), r);
pub assume_specification<T> [std::option::Option::<T>::or] (a: std::option::Option<T>, b: std::option::Option<T>) -> (r: std::option::Option<T>)
    ensures r == (if a is Some { a } else { b });
pub assume_specification<T, E, F: FnOnce(E) -> T> [std::result::Result::<T, E>::unwrap_or_else] (o: std::result::Result<T, E>, f: F) -> (r: T)
    requires o matches Err(e) ==> f.requires((e,)),
    ensures o matches Ok(x) ==> r == x, o matches Err(e) ==> f.ensures((e,), r);
}
