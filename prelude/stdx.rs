// Trusted specs for std functions vstd lacks.  Only documented behaviour is stated.
verus! {
pub assume_specification<T: std::clone::Clone> [<T as std::borrow::ToOwned>::to_owned] (x: &T) -> (r: T)
    ensures r == *x;
pub assume_specification [std::thread::sleep] (d: std::time::Duration);
}
pub mod stdax {
    use vstd::prelude::*;
    verus! {
    // a str is determined by its characters
    #[verifier::external_body]
    pub broadcast proof fn axiom_str_ext(a: &str, b: &str)
        ensures (#[trigger] a@ == #[trigger] b@) ==> a == b {}
    }
}
verus! {
pub assume_specification<'a> [<String as From<&'a str>>::from] (s: &str) -> (r: String)
    ensures r@ == s@;
}
verus! {
// T-FMT (opaque form): a formatted string whose content no property depends on (error/log text)
#[verifier::external_body]
pub fn opaque_string() -> String { String::new() }
}
