// Trusted specs for std functions vstd lacks.  Only documented behaviour is stated.
verus! {
pub assume_specification<T: std::clone::Clone> [<T as std::borrow::ToOwned>::to_owned] (x: &T) -> (r: T)
    ensures r == *x;
pub assume_specification [std::thread::sleep] (d: std::time::Duration);
// VecDeque::retain (vstd knows new / push_back / pop_front / len ...): what is kept was there before
pub assume_specification<T, A: core::alloc::Allocator, F: FnMut(&T) -> bool>[ std::collections::VecDeque::<T, A>::retain ](v: &mut std::collections::VecDeque<T, A>, f: F)
    requires forall|x: &T| f.requires((x,)),
    ensures final(v)@.len() <= old(v)@.len(), forall|i: int| 0 <= i < final(v)@.len() ==> old(v)@.contains(#[trigger] final(v)@[i]);
}
pub mod stdax {
    use vstd::prelude::*;
    verus! {
    // a str is determined by its characters
    #[verifier::external_body]
    pub broadcast proof fn axiom_str_ext(a: &str, b: &str)
        ensures (#[trigger] a@ == #[trigger] b@) ==> a == b {}
    }
}
verus! {
pub assume_specification<'a> [<String as From<&'a str>>::from] (s: &str) -> (r: String)
    ensures r@ == s@;
}
verus! {
// String::len: the length of the UTF-8 form - one to four bytes for each character (no more is stated)
pub assume_specification [String::len] (s: &String) -> (r: usize)
    ensures s@.len() <= r <= 4 * s@.len();
}
verus! {
// T-FMT (opaque form): a formatted string whose content no property depends on (error/log text)
#[verifier::external_body]
pub fn opaque_string() -> String { String::new() }
}
pub mod stdax2 {
    use vstd::prelude::*;
    verus! {
    // `to_string()` of a String is that string (vstd states this for str only)
    #[verifier::external_body]
    pub broadcast proof fn axiom_to_string_string(s: &String, r: String)
        ensures #[trigger] vstd::string::to_string_from_display_ensures::<String>(s, r) ==> r@ == s@ {}
    }
}
verus! {
pub assume_specification<'a> [<String as PartialEq<&'a str>>::eq] (a: &String, b: &&str) -> (r: bool)
    ensures r == (a@ == b@);
}
verus! {
pub assume_specification<'a> [<&'a str as PartialEq<String>>::eq] (a: &&'a str, b: &String) -> (r: bool)
    ensures r == (a@ == b@);
}
verus! {
pub assume_specification<T: std::clone::Clone> [<[T]>::to_vec] (s: &[T]) -> (r: std::vec::Vec<T>)
    ensures r@.len() == s@.len(),
        forall|i: int| 0 <= i < s@.len() ==> call_ensures(T::clone, (&#[trigger] s@[i],), r@[i]);
}
verus! {
pub uninterp spec fn utf8_bytes(s: Seq<char>) -> Seq<u8>;
pub assume_specification [std::string::String::as_bytes] (s: &String) -> (r: &[u8])
    ensures r@ == utf8_bytes(s@);
}
verus! {
pub assume_specification<T: std::default::Default + std::marker::Destruct, E: std::marker::Destruct> [std::result::Result::<T, E>::unwrap_or_default] (r: std::result::Result<T, E>) -> (v: T)
    ensures r matches Ok(x) ==> v == x;
}
verus! {
// lossy UTF-8 view of bytes: never fails (text unspecified)
pub assume_specification<'a> [String::from_utf8_lossy] (v: &'a [u8]) -> std::borrow::Cow<'a, str>;
}
pub mod vsync {
    use vstd::prelude::*;
    verus! {
    // A function-local `static` (rule T-STATIC) holds whatever earlier calls have left in it: its content at entry is unknown.
    #[verifier::external_body]
    pub fn unknown<T>() -> T { unimplemented!() }
    // std::sync::OnceLock<T>: empty, or holding the value of the first initialisation
    pub struct OnceLock<T> { pub v: Option<T> }
    impl<T> OnceLock<T> {
        #[verifier::external_body]
        pub fn get(&self) -> (r: Option<&T>)
            ensures match r { Some(x) => self.v == Some(*x), None => self.v is None } { unimplemented!() }
        #[verifier::external_body]
        pub fn get_or_init<F: FnOnce() -> T>(&self, f: F) -> (r: &T)
            requires f.requires(())
            ensures self.v matches Some(x) ==> *r == x, self.v is None ==> f.ensures((), *r) { unimplemented!() }
    }
    }
}
verus! {
// str -> value: `s.parse::<F>()` is a function of the text (whatever F's grammar is); `s.trim()` is a function of the text
#[verifier::external_type_specification]
#[verifier::external_body]
pub struct ExParseIntError(core::num::ParseIntError);
#[verifier::external_trait_specification]
pub trait ExFromStr: Sized {
    type ExternalTraitSpecificationFor: core::str::FromStr;
    type Err;
    fn from_str(s: &str) -> std::result::Result<Self, Self::Err>;
}
pub uninterp spec fn parse_spec<F>(s: Seq<char>) -> std::option::Option<F>;
pub assume_specification<F: core::str::FromStr>[ str::parse::<F> ](s: &str) -> (r: std::result::Result<F, F::Err>)
    ensures match r { Ok(v) => parse_spec::<F>(s@) == std::option::Option::Some(v), Err(_) => parse_spec::<F>(s@) is None };
pub uninterp spec fn eq_ignore_ascii_case_spec(a: Seq<char>, b: Seq<char>) -> bool;
pub assume_specification[ str::eq_ignore_ascii_case ](a: &str, b: &str) -> (r: bool) ensures r == eq_ignore_ascii_case_spec(a@, b@);
pub uninterp spec fn str_lower_spec(s: Seq<char>) -> Seq<char>;
pub uninterp spec fn str_upper_spec(s: Seq<char>) -> Seq<char>;
pub assume_specification[ str::to_lowercase ](s: &str) -> (r: String) ensures r@ == str_lower_spec(s@);
pub assume_specification[ str::to_uppercase ](s: &str) -> (r: String) ensures r@ == str_upper_spec(s@);
pub uninterp spec fn trim_spec(s: Seq<char>) -> Seq<char>;
pub assume_specification[ str::trim ](s: &str) -> (r: &str) ensures r@ == trim_spec(s@);
}
pub mod vatomic {
    use vstd::prelude::*;
    verus! {
    // std::sync::atomic integers shared between threads (a top-level `static`, rule T-STATIC): what one thread reads may have been
    // written by any other thread at any time, so a load or a read-modify-write returns ANY value; arithmetic wraps (no panic).
    pub struct AtomicUsize { pub x: u8 }
    impl AtomicUsize {
        #[verifier::external_body] pub fn fetch_add(&self, v: usize, o: std::sync::atomic::Ordering) -> usize { unimplemented!() }
        #[verifier::external_body] pub fn fetch_sub(&self, v: usize, o: std::sync::atomic::Ordering) -> usize { unimplemented!() }
        #[verifier::external_body] pub fn load(&self, o: std::sync::atomic::Ordering) -> usize { unimplemented!() }
        #[verifier::external_body] pub fn store(&self, v: usize, o: std::sync::atomic::Ordering) { unimplemented!() }
        #[verifier::external_body] pub fn swap(&self, v: usize, o: std::sync::atomic::Ordering) -> usize { unimplemented!() }
    }
    pub struct AtomicU64 { pub x: u8 }
    impl AtomicU64 {
        #[verifier::external_body] pub fn fetch_add(&self, v: u64, o: std::sync::atomic::Ordering) -> u64 { unimplemented!() }
        #[verifier::external_body] pub fn fetch_sub(&self, v: u64, o: std::sync::atomic::Ordering) -> u64 { unimplemented!() }
        #[verifier::external_body] pub fn load(&self, o: std::sync::atomic::Ordering) -> u64 { unimplemented!() }
        #[verifier::external_body] pub fn store(&self, v: u64, o: std::sync::atomic::Ordering) { unimplemented!() }
        #[verifier::external_body] pub fn swap(&self, v: u64, o: std::sync::atomic::Ordering) -> u64 { unimplemented!() }
    }
    pub struct AtomicBool { pub x: u8 }
    impl AtomicBool {
        #[verifier::external_body] pub fn load(&self, o: std::sync::atomic::Ordering) -> bool { unimplemented!() }
        #[verifier::external_body] pub fn store(&self, v: bool, o: std::sync::atomic::Ordering) { unimplemented!() }
        #[verifier::external_body] pub fn swap(&self, v: bool, o: std::sync::atomic::Ordering) -> bool { unimplemented!() }
    }
    }
}
pub mod stdcap {
    use vstd::prelude::*;
    verus! {
    // Vec::with_capacity(n) (rule T-ALLOC, for sizes that are neither a literal, a constant nor a length): `capacity overflow` is
    // excluded when n elements of up to 64 bytes fit in isize::MAX bytes
    #[verifier::external_body]
    pub fn vec_with_capacity<T>(n: usize) -> (r: Vec<T>)
        requires n <= 0x01ff_ffff_ffff_ffff, //@C19.no_allocation_sized_by_an_unbounded_number
        ensures r@.len() == 0 { Vec::with_capacity(n) }
    }
}
pub mod comb {
    use vstd::prelude::*;
    verus! {
    // Option / Result seen as "a value or not": what `.map(F)`, `.and_then(F)`, `.map_or(D, F)` .. do with their receiver
    pub enum V<T, N> { Yes(T), No(N) }
    pub struct OptW;
    pub struct ResW<E> { pub e: core::marker::PhantomData<E> }
    pub trait View: Sized { type T; type N; type W; fn view__(self) -> (V<Self::T, Self::N>, Self::W); }
    impl<T> View for Option<T> {
        type T = T; type N = (); type W = OptW;
        fn view__(self) -> (r: (V<T, ()>, OptW))
            ensures r.0 == (match self { Some(x) => V::<T, ()>::Yes(x), None => V::<T, ()>::No(()) })
        { match self { Some(x) => (V::Yes(x), OptW), None => (V::No(()), OptW) } }
    }
    impl<T, E> View for Result<T, E> {
        type T = T; type N = E; type W = ResW<E>;
        fn view__(self) -> (r: (V<T, E>, ResW<E>))
            ensures r.0 == (match self { Ok(x) => V::<T, E>::Yes(x), Err(e) => V::<T, E>::No(e) })
        { match self { Ok(x) => (V::Yes(x), ResW { e: core::marker::PhantomData }), Err(e) => (V::No(e), ResW { e: core::marker::PhantomData }) } }
    }
    pub trait Wit<U>: Sized { type N; type Out; fn yes__(self, u: U) -> Self::Out; fn no__(self, n: Self::N) -> Self::Out; }
    impl<U> Wit<U> for OptW {
        type N = (); type Out = Option<U>;
        fn yes__(self, u: U) -> (r: Option<U>) ensures r == Some(u) { Some(u) }
        fn no__(self, n: ()) -> (r: Option<U>) ensures r == None::<U> { None }
    }
    impl<U, E> Wit<U> for ResW<E> {
        type N = E; type Out = Result<U, E>;
        fn yes__(self, u: U) -> (r: Result<U, E>) ensures r == Ok::<U, E>(u) { Ok(u) }
        fn no__(self, n: E) -> (r: Result<U, E>) ensures r == Err::<U, E>(n) { Err(n) }
    }
    pub trait FromNo<N>: Sized { fn from_no__(n: N) -> Self; }
    impl<U> FromNo<()> for Option<U> { fn from_no__(n: ()) -> (r: Option<U>) ensures r == None::<U> { None } }
    impl<U, E> FromNo<E> for Result<U, E> { fn from_no__(n: E) -> (r: Result<U, E>) ensures r == Err::<U, E>(n) { Err(n) } }
    }
}
pub mod vecext {
    use vstd::prelude::*;
    verus! {
    // Vec::extend(X) for the argument types whose meaning is "append these elements in order" (rule T-STR renames the call)
    pub trait VecExtendX<A> { fn extend_x(&mut self, a: A); }
    impl<T> VecExtendX<Vec<T>> for Vec<T> {
        #[verifier::external_body] fn extend_x(&mut self, a: Vec<T>) ensures final(self)@ == old(self)@ + a@ { self.extend(a) } }
    impl<'a, T: Copy> VecExtendX<&'a Vec<T>> for Vec<T> {
        #[verifier::external_body] fn extend_x(&mut self, a: &'a Vec<T>) ensures final(self)@ == old(self)@ + a@ { self.extend(a) } }
    impl<'a, T: Copy> VecExtendX<&'a [T]> for Vec<T> {
        #[verifier::external_body] fn extend_x(&mut self, a: &'a [T]) ensures final(self)@ == old(self)@ + a@ { self.extend(a) } }
    }
}
pub mod strext {
    use vstd::prelude::*;
    verus! {
    // str methods that take "any pattern", for a character or a string literal (rule T-STR renames the call): exact meaning
    pub open spec fn trim_start_char(s: Seq<char>, c: char) -> Seq<char> decreases s.len() {
        if s.len() > 0 && s[0] == c { trim_start_char(s.skip(1), c) } else { s } }
    pub open spec fn trim_end_char(s: Seq<char>, c: char) -> Seq<char> decreases s.len() {
        if s.len() > 0 && s.last() == c { trim_end_char(s.drop_last(), c) } else { s } }
    pub open spec fn has_prefix(s: Seq<char>, p: Seq<char>) -> bool { s.len() >= p.len() && s.take(p.len() as int) == p }
    pub open spec fn has_suffix(s: Seq<char>, p: Seq<char>) -> bool { s.len() >= p.len() && s.skip(s.len() - p.len()) == p }
    pub open spec fn trim_start_str(s: Seq<char>, p: Seq<char>) -> Seq<char> decreases s.len() {
        if p.len() > 0 && has_prefix(s, p) { trim_start_str(s.skip(p.len() as int), p) } else { s } }
    pub open spec fn trim_end_str(s: Seq<char>, p: Seq<char>) -> Seq<char> decreases s.len() {
        if p.len() > 0 && has_suffix(s, p) { trim_end_str(s.take(s.len() - p.len()), p) } else { s } }
    // replace: every character of the set / every (leftmost, non-overlapping) occurrence of the pattern gives way to `rep`
    pub open spec fn replace_chars_spec(s: Seq<char>, set: Seq<char>, rep: Seq<char>) -> Seq<char> decreases s.len() {
        if s.len() == 0 { s } else { (if set.contains(s[0]) { rep } else { seq![s[0]] }) + replace_chars_spec(s.skip(1), set, rep) } }
    pub open spec fn replace_str_spec(s: Seq<char>, p: Seq<char>, rep: Seq<char>) -> Seq<char> decreases s.len() {
        if s.len() == 0 || p.len() == 0 { s } else if has_prefix(s, p) { rep + replace_str_spec(s.skip(p.len() as int), p, rep) }
        else { seq![s[0]] + replace_str_spec(s.skip(1), p, rep) } }
    pub open spec fn has_infix(s: Seq<char>, p: Seq<char>) -> bool { exists|i: int| 0 <= i <= s.len() - p.len() && #[trigger] s.subrange(i, i + p.len()) == p }
    pub trait StrExt {
        fn starts_with_str(&self, p: &str) -> bool;
        fn starts_with_char(&self, c: char) -> bool;
        fn ends_with_str(&self, p: &str) -> bool;
        fn ends_with_char(&self, c: char) -> bool;
        fn contains_str(&self, p: &str) -> bool;
        fn contains_char(&self, c: char) -> bool;
        fn replace_chars(&self, set: &[char], rep: &str) -> String;
        fn replace_char(&self, c: char, rep: &str) -> String;
        fn replace_str(&self, p: &str, rep: &str) -> String;
        fn trim_start_matches_char(&self, c: char) -> &str;
        fn trim_end_matches_char(&self, c: char) -> &str;
        fn trim_start_matches_str(&self, p: &str) -> &str;
        fn trim_end_matches_str(&self, p: &str) -> &str;
        fn strip_prefix_str(&self, p: &str) -> Option<&str>;
        fn strip_suffix_str(&self, p: &str) -> Option<&str>;
        fn strip_prefix_char(&self, c: char) -> Option<&str>;
        fn strip_suffix_char(&self, c: char) -> Option<&str>;
    }
    impl StrExt for str {
        #[verifier::external_body] fn starts_with_str(&self, p: &str) -> (r: bool) ensures r == has_prefix(self@, p@) { self.starts_with(p) }
        #[verifier::external_body] fn starts_with_char(&self, c: char) -> (r: bool) ensures r == (self@.len() > 0 && self@[0] == c) { self.starts_with(c) }
        #[verifier::external_body] fn ends_with_str(&self, p: &str) -> (r: bool) ensures r == has_suffix(self@, p@) { self.ends_with(p) }
        #[verifier::external_body] fn ends_with_char(&self, c: char) -> (r: bool) ensures r == (self@.len() > 0 && self@.last() == c) { self.ends_with(c) }
        #[verifier::external_body] fn contains_str(&self, p: &str) -> (r: bool) ensures r == has_infix(self@, p@) { self.contains(p) }
        #[verifier::external_body] fn contains_char(&self, c: char) -> (r: bool) ensures r == self@.contains(c) { self.contains(c) }
        #[verifier::external_body] fn replace_chars(&self, set: &[char], rep: &str) -> (r: String) ensures r@ == replace_chars_spec(self@, set@, rep@) { self.replace(set, rep) }
        #[verifier::external_body] fn replace_char(&self, c: char, rep: &str) -> (r: String) ensures r@ == replace_chars_spec(self@, seq![c], rep@) { self.replace(c, rep) }
        #[verifier::external_body] fn replace_str(&self, p: &str, rep: &str) -> (r: String) ensures p@.len() > 0 ==> r@ == replace_str_spec(self@, p@, rep@) { self.replace(p, rep) }
        #[verifier::external_body] fn trim_start_matches_char(&self, c: char) -> (r: &str) ensures r@ == trim_start_char(self@, c) { self.trim_start_matches(c) }
        #[verifier::external_body] fn trim_end_matches_char(&self, c: char) -> (r: &str) ensures r@ == trim_end_char(self@, c) { self.trim_end_matches(c) }
        #[verifier::external_body] fn trim_start_matches_str(&self, p: &str) -> (r: &str) ensures r@ == trim_start_str(self@, p@) { self.trim_start_matches(p) }
        #[verifier::external_body] fn trim_end_matches_str(&self, p: &str) -> (r: &str) ensures r@ == trim_end_str(self@, p@) { self.trim_end_matches(p) }
        #[verifier::external_body] fn strip_prefix_str(&self, p: &str) -> (r: Option<&str>)
            ensures match r { Some(t) => has_prefix(self@, p@) && t@ == self@.skip(p@.len() as int), None => !has_prefix(self@, p@) } { self.strip_prefix(p) }
        #[verifier::external_body] fn strip_suffix_str(&self, p: &str) -> (r: Option<&str>)
            ensures match r { Some(t) => has_suffix(self@, p@) && t@ == self@.take(self@.len() - p@.len()), None => !has_suffix(self@, p@) } { self.strip_suffix(p) }
        #[verifier::external_body] fn strip_prefix_char(&self, c: char) -> (r: Option<&str>)
            ensures match r { Some(t) => self@.len() > 0 && self@[0] == c && t@ == self@.skip(1), None => !(self@.len() > 0 && self@[0] == c) } { self.strip_prefix(c) }
        #[verifier::external_body] fn strip_suffix_char(&self, c: char) -> (r: Option<&str>)
            ensures match r { Some(t) => self@.len() > 0 && self@.last() == c && t@ == self@.drop_last(), None => !(self@.len() > 0 && self@.last() == c) } { self.strip_suffix(c) }
    }
    }
}
pub use crate::strext::StrExt;
pub use crate::vecext::VecExtendX;
verus! {
// Result::or(res): the argument has been evaluated already (it is a value, not a closure)
pub assume_specification<T, E, F> [std::result::Result::<T, E>::or::<F>] (a: std::result::Result<T, E>, b: std::result::Result<T, F>) -> (r: std::result::Result<T, F>)
    ensures r == (match a { Ok(v) => Ok::<T, F>(v), Err(_) => b });
}
pub mod optext {
    use vstd::prelude::*;
    verus! {
    // Option<String>::as_deref()  (rule T-STR renames the call): the same text, borrowed
    pub trait OptStrExt { fn as_deref_str(&self) -> Option<&str>; }
    impl OptStrExt for Option<String> {
        #[verifier::external_body]
        fn as_deref_str(&self) -> (r: Option<&str>) ensures match r { Some(s) => *self matches Some(t) && s@ == t@, None => *self is None } { self.as_deref() }
    }
    }
}
pub use crate::optext::OptStrExt;
verus! {
// std::net::IpAddr as an opaque value with its classification predicates
#[verifier::external_type_specification]
#[verifier::external_body]
pub struct ExIpAddr(std::net::IpAddr);
#[verifier::external_type_specification]
#[verifier::external_body]
pub struct ExAddrParseError(std::net::AddrParseError);
// an address from its octets (4 or 16), and its canonical text (Display)
pub uninterp spec fn ip_from_octets(o: Seq<u8>) -> std::net::IpAddr;
pub uninterp spec fn ip_text(a: std::net::IpAddr) -> Seq<char>;
pub assume_specification[ <std::net::IpAddr as From<[u8; 4]>>::from ](o: [u8; 4]) -> (r: std::net::IpAddr)
    ensures r == ip_from_octets(o@),
        forall|s: Seq<u8>| s.len() == 4 && (forall|k: int| 0 <= k < 4 ==> s[k] == o@[k]) ==> r == #[trigger] ip_from_octets(s);
pub assume_specification[ <std::net::IpAddr as From<[u8; 16]>>::from ](o: [u8; 16]) -> (r: std::net::IpAddr)
    ensures r == ip_from_octets(o@),
        forall|s: Seq<u8>| s.len() == 16 && (forall|k: int| 0 <= k < 16 ==> s[k] == o@[k]) ==> r == #[trigger] ip_from_octets(s);
#[verifier::external_body]
pub broadcast proof fn axiom_ip_to_string(a: &std::net::IpAddr, r: String)
    ensures #[trigger] vstd::string::to_string_from_display_ensures::<std::net::IpAddr>(a, r) ==> r@ == ip_text(*a) {}
pub uninterp spec fn ip_is_loopback(a: std::net::IpAddr) -> bool;
pub uninterp spec fn ip_is_unspecified(a: std::net::IpAddr) -> bool;
pub uninterp spec fn ip_is_multicast(a: std::net::IpAddr) -> bool;
pub assume_specification[ std::net::IpAddr::is_loopback ](a: &std::net::IpAddr) -> (r: bool) ensures r == ip_is_loopback(*a);
pub assume_specification[ std::net::IpAddr::is_unspecified ](a: &std::net::IpAddr) -> (r: bool) ensures r == ip_is_unspecified(*a);
pub assume_specification[ std::net::IpAddr::is_multicast ](a: &std::net::IpAddr) -> (r: bool) ensures r == ip_is_multicast(*a);
}
verus! {
// Option / Result combinators vstd lacks
pub assume_specification<T, F: FnOnce() -> std::option::Option<T>> [std::option::Option::<T>::or_else] (o: std::option::Option<T>, f: F) -> (r: std::option::Option<T>)
    requires o is None ==> f.requires(()),
    ensures o is Some ==> r == o, o is None ==> f.ensures((), r);
pub assume_specification<T> [std::option::Option::<T>::or] (a: std::option::Option<T>, b: std::option::Option<T>) -> (r: std::option::Option<T>)
    ensures r == (if a is Some { a } else { b });
pub assume_specification<T, E, F: FnOnce(E) -> T> [std::result::Result::<T, E>::unwrap_or_else] (o: std::result::Result<T, E>, f: F) -> (r: T)
    requires o matches Err(e) ==> f.requires((e,)),
    ensures o matches Ok(x) ==> r == x, o matches Err(e) ==> f.ensures((e,), r);
pub assume_specification<T, E> [std::result::Result::<T, E>::unwrap_or] (o: std::result::Result<T, E>, d: T) -> (r: T)
    ensures r == (match o { Ok(x) => x, Err(_) => d });
pub assume_specification<T, E, U, F: FnOnce(T) -> std::result::Result<U, E>> [std::result::Result::<T, E>::and_then] (o: std::result::Result<T, E>, f: F) -> (r: std::result::Result<U, E>)
    requires o matches Ok(x) ==> f.requires((x,)),
    ensures o matches Ok(x) ==> f.ensures((x,), r), o matches Err(e) ==> r == std::result::Result::<U, E>::Err(e);
pub assume_specification<T, E, G, F: FnOnce(E) -> std::result::Result<T, G>> [std::result::Result::<T, E>::or_else] (o: std::result::Result<T, E>, f: F) -> (r: std::result::Result<T, G>)
    requires o matches Err(e) ==> f.requires((e,)),
    ensures o matches Err(e) ==> f.ensures((e,), r), o matches Ok(x) ==> r == std::result::Result::<T, G>::Ok(x);
pub assume_specification<T, E, U, F: FnOnce(T) -> U> [std::result::Result::<T, E>::map_or] (o: std::result::Result<T, E>, d: U, f: F) -> (r: U)
    requires o matches Ok(x) ==> f.requires((x,)),
    ensures o matches Ok(x) ==> f.ensures((x,), r), o is Err ==> r == d;
pub assume_specification<T, E, F: FnOnce(T) -> bool> [std::result::Result::<T, E>::is_ok_and] (o: std::result::Result<T, E>, f: F) -> (r: bool)
    requires o matches Ok(x) ==> f.requires((x,)),
    ensures o matches Ok(x) ==> f.ensures((x,), r), o is Err ==> !r;
pub assume_specification<T, U, F: FnOnce(T) -> U> [std::option::Option::<T>::map_or] (o: std::option::Option<T>, d: U, f: F) -> (r: U)
    requires o matches Some(x) ==> f.requires((x,)),
    ensures o matches Some(x) ==> f.ensures((x,), r), o is None ==> r == d;
pub assume_specification<T, F: FnOnce(T) -> bool> [std::option::Option::<T>::is_some_and] (o: std::option::Option<T>, f: F) -> (r: bool)
    requires o matches Some(x) ==> f.requires((x,)),
    ensures o matches Some(x) ==> f.ensures((x,), r), o is None ==> !r;
pub assume_specification<T, F: FnOnce(T) -> bool> [std::option::Option::<T>::is_none_or] (o: std::option::Option<T>, f: F) -> (r: bool)
    requires o matches Some(x) ==> f.requires((x,)),
    ensures o matches Some(x) ==> f.ensures((x,), r), o is None ==> r;
pub assume_specification<T, F: FnOnce(&T) -> bool> [std::option::Option::<T>::filter] (o: std::option::Option<T>, f: F) -> (r: std::option::Option<T>)
    requires o matches Some(x) ==> f.requires((&x,)),
    ensures o matches Some(x) ==> (f.ensures((&x,), true) ==> r == o) && (f.ensures((&x,), false) ==> r is None), o is None ==> r is None, r is Some ==> r == o;
pub assume_specification<T, U> [std::option::Option::<T>::and] (a: std::option::Option<T>, b: std::option::Option<U>) -> (r: std::option::Option<U>)
    ensures r == (if a is Some { b } else { std::option::Option::<U>::None });
// Option::get_or_insert_with: the content (put there by F when absent) is handed out; what is written through the reference is what the option holds afterwards
pub assume_specification<T, F: FnOnce() -> T> [std::option::Option::<T>::get_or_insert_with] (o: &mut std::option::Option<T>, f: F) -> (r: &mut T)
    requires *old(o) is None ==> f.requires(()),
    ensures *old(o) matches Some(v) ==> *r == v, *old(o) is None ==> f.ensures((), *r),
        *final(o) == std::option::Option::<T>::Some(*final(r));
pub assume_specification<T, E> [std::option::Option::<std::result::Result<T, E>>::transpose] (a: std::option::Option<std::result::Result<T, E>>) -> (r: std::result::Result<std::option::Option<T>, E>)
    ensures r == (match a { None => Ok::<std::option::Option<T>, E>(None), Some(Ok(x)) => Ok(Some(x)), Some(Err(e)) => Err(e) });
pub assume_specification<T> [std::option::Option::<std::option::Option<T>>::flatten] (a: std::option::Option<std::option::Option<T>>) -> (r: std::option::Option<T>)
    ensures r == (match a { Some(x) => x, None => None });
pub assume_specification<T> [std::option::Option::<T>::xor] (a: std::option::Option<T>, b: std::option::Option<T>) -> (r: std::option::Option<T>)
    ensures r == (match (a, b) { (Some(x), None) => Some(x), (None, Some(y)) => Some(y), _ => None });
pub assume_specification<'a, T: Copy> [std::option::Option::<&'a T>::copied] (a: std::option::Option<&'a T>) -> (r: std::option::Option<T>)
    ensures r == (match a { Some(x) => Some(*x), None => None });
pub assume_specification<T, E, U> [std::result::Result::<T, E>::and] (a: std::result::Result<T, E>, b: std::result::Result<U, E>) -> (r: std::result::Result<U, E>)
    ensures r == (match a { Ok(_) => b, Err(e) => Err(e) });
pub assume_specification<T, U, D: FnOnce() -> U, F: FnOnce(T) -> U> [std::option::Option::<T>::map_or_else] (a: std::option::Option<T>, d: D, f: F) -> (r: U)
    requires a is Some ==> f.requires((a.unwrap(),)), a is None ==> d.requires(()),
    ensures a is None ==> d.ensures((), r), a is Some ==> f.ensures((a.unwrap(),), r);
pub assume_specification<T> [bool::then_some] (b: bool, t: T) -> (r: std::option::Option<T>)
    ensures r == (if b { Some(t) } else { None });
pub assume_specification<T, U> [std::option::Option::<T>::zip] (a: std::option::Option<T>, b: std::option::Option<U>) -> (r: std::option::Option<(T, U)>)
    ensures r == (match (a, b) { (Some(x), Some(y)) => Some((x, y)), _ => std::option::Option::<(T, U)>::None });
}
