// Trusted model of serde_json::to_string, base64url (acme_common::b64_encode) and string formatting pieces.
pub mod serde_json {
    use vstd::prelude::*;
    verus! {
    #[derive(Debug)]
    pub struct Error { pub x: u8 }
    impl vstd::std_specs::convert::FromSpecImpl<Error> for crate::acme_common::error::Error {
        open spec fn obeys_from_spec() -> bool { false }
        open spec fn from_spec(e: Error) -> Self { arbitrary() }
    }
    impl From<Error> for crate::acme_common::error::Error { #[verifier::external_body] fn from(e: Error) -> Self { unimplemented!() } }
    pub mod value { use vstd::prelude::*; verus! { pub struct Value { pub id: Ghost<int> } } }
    // the JSON text serde produces for a value of type T (its derive(Serialize) and serde attributes are serde's business)
    pub uninterp spec fn ser_spec<T>(t: T) -> Seq<char>;
    #[verifier::external_body]
    pub fn to_string<T>(t: &T) -> (r: Result<String, Error>)
        ensures r matches Ok(s) ==> s@ == ser_spec(*t)
    { unimplemented!() }
    }
}
pub mod vb64 {
    use vstd::prelude::*;
    verus! {
    pub uninterp spec fn utf8(s: Seq<char>) -> Seq<u8>;
    pub uninterp spec fn b64url(b: Seq<u8>) -> Seq<char>;   // base64url without padding (RFC 4648 section 5)
    // acme_common::b64_encode<T: AsRef<[u8]>>: one function per argument type acmed uses (rule T-B64 picks by the argument's type)
    #[verifier::external_body]
    pub fn b64_encode_str(input: &str) -> (r: String) ensures r@ == b64url(utf8(input@)) { unimplemented!() }
    #[verifier::external_body]
    pub fn b64_encode_bytes(input: &[u8]) -> (r: String) ensures r@ == b64url(input@) { unimplemented!() }
    // str::as_bytes / String::as_bytes
    #[verifier::external_body]
    pub fn str_as_bytes(s: &str) -> (r: &[u8]) ensures r@ == utf8(s@) { unimplemented!() }
    // format!("{a}.{b}") and friends for string arguments (rule T-FMT): concatenation
    #[verifier::external_body]
    pub fn cat2(a: &str, b: &str) -> (r: String) ensures r@ == a@ + b@ { unimplemented!() }
    #[verifier::external_body]
    pub fn cat3(a: &str, b: &str, c: &str) -> (r: String) ensures r@ == a@ + b@ + c@ { unimplemented!() }
    }
}
