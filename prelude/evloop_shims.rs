// Trusted model for main_event_loop.rs::MainEventLoop::new: the configuration side as contracts (the getters are verified in unit
// config; here each is the uninterpreted function its contract there defines), string-keyed hash maps as maps of texts.
pub mod shims {
    use vstd::prelude::*;
    use crate::acme_common::error::Error;
    use std::time::Duration;
    verus! {
    // ---- HashMap<String, V> (rule T-MAP: the type name resolves here)
    pub struct HashMap<K, V> { pub m: Ghost<Map<Seq<char>, V>>, pub k: core::marker::PhantomData<K> }
    impl<K, V> HashMap<K, V> {
        pub open spec fn view(&self) -> Map<Seq<char>, V> { self.m@ }
        #[verifier::external_body]
        pub fn new() -> (r: Self) ensures r@ == Map::<Seq<char>, V>::empty() { unimplemented!() }
    }
    impl<V> HashMap<String, V> {
        #[verifier::external_body]
        pub fn get(&self, k: &String) -> (r: Option<&V>)
            ensures match r { Some(v) => self@.dom().contains(k@) && *v == self@[k@], None => !self@.dom().contains(k@) } { unimplemented!() }
        // M.iter_mut() / M.iter() / M.values() in a `for` loop (rule T-ITER): the values, each once
        #[verifier::external_body]
        pub fn values_vec(&self) -> (r: Vec<&V>)
            ensures forall|i: int| 0 <= i < r@.len() ==> exists|k: Seq<char>| self@.dom().contains(k) && *#[trigger] r@[i] == self@[k] { unimplemented!() }
        #[verifier::external_body]
        pub fn insert(&mut self, k: String, v: V) -> (r: Option<V>) ensures final(self)@ == old(self)@.insert(k@, v) { unimplemented!() }
        #[verifier::external_body]
        pub fn contains_key(&self, k: &String) -> (r: bool) ensures r == self@.dom().contains(k@) { unimplemented!() }
        #[verifier::external_body]
        pub fn get_mut(&mut self, k: &String) -> (r: Option<&mut V>)
            ensures match r {
                Some(v) => old(self)@.dom().contains(k@) && *v == old(self)@[k@] && final(self)@ == old(self)@.insert(k@, *final(v)),
                None => !old(self)@.dom().contains(k@) && final(self)@ == old(self)@ } { unimplemented!() }
    }
    impl Clone for HashMap<String, String> { #[verifier::external_body] fn clone(&self) -> (r: Self) ensures r == *self { unimplemented!() } }
    // ---- simple carriers
    #[derive(Clone, Copy)]
    pub struct KeyType { pub id: u8 }
    #[derive(Clone, Copy)]
    pub struct HashFunction { pub id: u8 }
    pub struct SubjectAttribute { pub id: u8 }
    pub struct Identifier { pub x: Ghost<int> }
    pub struct CfgSubjectAttributes { pub x: u8 }
    // config::SubjectAttributes::to_generic (verified in unit cfgwire): the map of the attributes that are set
    pub uninterp spec fn subject_generic(s: CfgSubjectAttributes) -> HashMap<SubjectAttribute, String>;
    impl CfgSubjectAttributes { #[verifier::external_body] pub fn to_generic(&self) -> (r: HashMap<SubjectAttribute, String>) ensures r == subject_generic(*self) { unimplemented!() } }
    impl KeyType { #[verifier::external_body] pub fn to_string(&self) -> (r: String) ensures r@ == key_type_text(*self) { unimplemented!() } }
    pub uninterp spec fn key_type_text(k: KeyType) -> Seq<char>;
    pub struct Hook { pub hook_type: std::collections::HashSet<crate::config::HookType>, pub id: Ghost<int> }
    impl Clone for Hook { #[verifier::external_body] fn clone(&self) -> (r: Self) ensures r == *self { unimplemented!() } }
    pub uninterp spec fn types_of(h: Hook) -> Set<crate::config::HookType>;
    // vec![..].into_iter().collect() into a HashSet<HookType>   (rule T-ITER)
    pub uninterp spec fn hset(s: std::collections::HashSet<crate::config::HookType>) -> Set<crate::config::HookType>;
    #[verifier::external_body]
    pub fn hookset(v: Vec<crate::config::HookType>) -> (r: std::collections::HashSet<crate::config::HookType>)
        ensures hset(r) == v@.to_set() { unimplemented!() }
    // HOOKS.iter().filter(|h| !h.hook_type.is_disjoint(&SET)).map(|e| e.to_owned()).collect()   (rule T-ITER)
    pub open spec fn touches(h: Hook, s: Set<crate::config::HookType>) -> bool { exists|t: crate::config::HookType| hset(h.hook_type).contains(t) && s.contains(t) }
    #[verifier::external_body]
    pub fn hooks_touching(v: &Vec<Hook>, s: &std::collections::HashSet<crate::config::HookType>) -> (r: Vec<Hook>)
        ensures r@ == v@.filter(|h: Hook| touches(h, hset(*s))) { unimplemented!() }
    // the same without the negation: the hooks that have no type in SET
    #[verifier::external_body]
    pub fn hooks_not_touching(v: &Vec<Hook>, s: &std::collections::HashSet<crate::config::HookType>) -> (r: Vec<Hook>)
        ensures r@ == v@.filter(|h: Hook| !touches(h, hset(*s))) { unimplemented!() }
    // the same with is_subset: the hooks ALL of whose types are in SET (a hook with a type outside SET is left out), and its negation
    pub open spec fn within(h: Hook, s: Set<crate::config::HookType>) -> bool { forall|t: crate::config::HookType| hset(h.hook_type).contains(t) ==> s.contains(t) }
    #[verifier::external_body]
    pub fn hooks_within(v: &Vec<Hook>, s: &std::collections::HashSet<crate::config::HookType>) -> (r: Vec<Hook>)
        ensures r@ == v@.filter(|h: Hook| within(h, hset(*s))) { unimplemented!() }
    #[verifier::external_body]
    pub fn hooks_not_within(v: &Vec<Hook>, s: &std::collections::HashSet<crate::config::HookType>) -> (r: Vec<Hook>)
        ensures r@ == v@.filter(|h: Hook| !within(h, hset(*s))) { unimplemented!() }
    pub struct Account { pub x: Ghost<int>, pub endpoints: Ghost<Set<Seq<char>>> }
    impl Account {
        #[verifier::external_body]
        pub fn add_endpoint_name(&mut self, n: &str) ensures final(self).endpoints@ == old(self).endpoints@.insert(n@), final(self).x == old(self).x { unimplemented!() }
    }
    pub struct Endpoint { pub name: String, pub cmdline_roots: Ghost<Seq<&'static str>>, pub x: Ghost<int> }
    // Arc<RwLock<T>>: a handle on a shared object.  `cell` says which object: a clone of a handle points to the same one, a
    // handle made by Arc::new points to an object of its own (nothing is known about its cell)
    pub struct Arc<T> { pub v: T, pub cell: Ghost<int> }
    pub struct RwLock<T> { pub v: T }
    impl<T> Arc<T> {
        #[verifier::external_body]
        pub fn new(v: T) -> (r: Arc<T>) ensures r.v == v { unimplemented!() }
    }
    impl<T> Clone for Arc<T> { #[verifier::external_body] fn clone(&self) -> (r: Self) ensures r == *self { unimplemented!() } }
    impl<T> RwLock<T> {
        #[verifier::external_body]
        pub fn new(v: T) -> (r: RwLock<T>) ensures r.v == v { unimplemented!() }
    }
    impl<T> Arc<RwLock<T>> {
        // handle.read().await / handle.write().await (T-ASYNC): access to the shared object
        #[verifier::external_body]
        pub fn read(&self) -> (r: &T) ensures *r == self.v.v { unimplemented!() }
    }
    impl Clone for Endpoint { #[verifier::external_body] fn clone(&self) -> (r: Self) ensures r == *self { unimplemented!() } }
    impl Clone for Account { #[verifier::external_body] fn clone(&self) -> (r: Self) ensures r == *self { unimplemented!() } }
    // futures::stream::FuturesUnordered, with the tasks run to completion by T-ASYNC: a bag of finished task results
    pub struct FuturesUnordered<F> { pub v: Ghost<Seq<F>> }
    impl<F> FuturesUnordered<F> {
        #[verifier::external_body]
        pub fn new() -> (r: Self) ensures r.v@.len() == 0 { unimplemented!() }
        #[verifier::external_body]
        pub fn push(&mut self, f: F) ensures final(self).v@ == old(self).v@.push(f) { unimplemented!() }
        #[verifier::external_body]
        pub fn is_empty(&self) -> (r: bool) ensures r == (self.v@.len() == 0) { unimplemented!() }
        // the next task to finish: one of those in the bag, which leaves it
        #[verifier::external_body]
        pub fn next(&mut self) -> (r: Option<F>)
            // polling an empty bag answers `None` at once: a loop around it would spin without ever waiting (the event loop ends when there is nothing to renew)
            requires old(self).v@.len() > 0, //@C19.the_event_loop_never_polls_an_empty_set_of_tasks,C07.the_event_loop_never_polls_an_empty_set_of_tasks
            ensures match r {
                Some(t) => exists|i: int| 0 <= i < old(self).v@.len() && old(self).v@[i] == t && final(self).v@ == old(self).v@.remove(i),
                None => old(self).v@.len() == 0 && final(self).v@ == old(self).v@ } { unimplemented!() }
    }
    pub type AccountSync = Arc<RwLock<Account>>;
    pub type EndpointSync = Arc<RwLock<Endpoint>>;
    // M.iter().map(|(k, v)| (k.to_owned(), Arc::new(RwLock::new(v.to_owned())))).collect()   (rule T-ITER): same keys, each value wrapped
    #[verifier::external_body]
    pub fn to_sync_map<V>(m: &HashMap<String, V>) -> (r: HashMap<String, Arc<RwLock<V>>>)
        ensures r@.dom() == m@.dom(), forall|k: Seq<char>| m@.dom().contains(k) ==> (#[trigger] r@[k]).v.v == m@[k] { unimplemented!() }
    }
}
pub mod cfgshim {
    use vstd::prelude::*;
    use crate::shims::*;
    use crate::acme_common::error::Error;
    use crate::storage::FileManager;
    use std::time::Duration;
    verus! {
    pub struct Account { pub name: String, pub env: HashMap<String, String>, pub x: Ghost<int> }
    pub struct Certificate { pub account: String, pub env: HashMap<String, String>, pub subject_attributes: CfgSubjectAttributes, pub x: Ghost<int> }
    pub struct Config { pub account: Vec<Account>, pub certificate: Vec<Certificate>, pub x: Ghost<int> }
    // every getter below is verified in unit config against the most-specific-wins / default rules; here it is the function it computes
    pub uninterp spec fn account_dir(c: Config) -> Seq<char>;
    pub uninterp spec fn cert_file_mode(c: Config) -> u32;
    pub uninterp spec fn pk_file_mode(c: Config) -> u32;
    pub uninterp spec fn cert_file_user(c: Config) -> Option<String>;
    pub uninterp spec fn cert_file_group(c: Config) -> Option<String>;
    pub uninterp spec fn cert_file_ext(c: Config) -> Option<String>;
    pub uninterp spec fn pk_file_user(c: Config) -> Option<String>;
    pub uninterp spec fn pk_file_group(c: Config) -> Option<String>;
    pub uninterp spec fn pk_file_ext(c: Config) -> Option<String>;
    pub uninterp spec fn acc_hooks(a: Account, c: Config) -> Option<Seq<Hook>>;
    pub uninterp spec fn crt_hooks(a: Certificate, c: Config) -> Option<Seq<Hook>>;
    pub uninterp spec fn crt_name(a: Certificate) -> Option<Seq<char>>;
    pub uninterp spec fn crt_key_type(a: Certificate) -> Option<KeyType>;
    pub uninterp spec fn crt_name_format(a: Certificate, c: Config) -> Option<Seq<char>>;
    pub uninterp spec fn crt_dir(a: Certificate, c: Config) -> Seq<char>;
    pub uninterp spec fn crt_identifiers(a: Certificate) -> Option<Seq<Identifier>>;
    pub uninterp spec fn crt_csr_digest(a: Certificate) -> Option<HashFunction>;
    pub uninterp spec fn crt_kp_reuse(a: Certificate) -> bool;
    pub uninterp spec fn crt_renew_delay(a: Certificate, c: Config) -> Option<Duration>;
    pub uninterp spec fn crt_random_early_renew(a: Certificate, c: Config) -> Option<Duration>;
    // the texts of a list of root certificate file names
    pub open spec fn roots_text(r: Seq<&str>) -> Seq<Seq<char>> { r.map_values(|s: &str| s@) }
    pub uninterp spec fn crt_endpoint_name(a: Certificate, c: Config, roots: Seq<&str>) -> Option<Seq<char>>;
    pub uninterp spec fn config_of(file_name: Seq<char>) -> Config;
    #[verifier::external_body]
    pub fn from_file(file_name: &str) -> (r: Result<Config, Error>) ensures r matches Ok(c) ==> c == config_of(file_name@) { unimplemented!() }
    impl Config {
        #[verifier::external_body] pub fn get_account_dir(&self) -> (r: String) ensures r@ == account_dir(*self) { unimplemented!() }
        #[verifier::external_body] pub fn get_cert_file_mode(&self) -> (r: u32) ensures r == cert_file_mode(*self) { unimplemented!() }
        #[verifier::external_body] pub fn get_pk_file_mode(&self) -> (r: u32) ensures r == pk_file_mode(*self) { unimplemented!() }
        #[verifier::external_body] pub fn get_cert_file_user(&self) -> (r: Option<String>) ensures r == cert_file_user(*self) { unimplemented!() }
        #[verifier::external_body] pub fn get_cert_file_group(&self) -> (r: Option<String>) ensures r == cert_file_group(*self) { unimplemented!() }
        #[verifier::external_body] pub fn get_cert_file_ext(&self) -> (r: Option<String>) ensures r == cert_file_ext(*self) { unimplemented!() }
        #[verifier::external_body] pub fn get_pk_file_user(&self) -> (r: Option<String>) ensures r == pk_file_user(*self) { unimplemented!() }
        #[verifier::external_body] pub fn get_pk_file_group(&self) -> (r: Option<String>) ensures r == pk_file_group(*self) { unimplemented!() }
        #[verifier::external_body] pub fn get_pk_file_ext(&self) -> (r: Option<String>) ensures r == pk_file_ext(*self) { unimplemented!() }
    }
    impl Account {
        #[verifier::external_body]
        pub fn get_hooks(&self, cnf: &Config) -> (r: Result<Vec<Hook>, Error>)
            ensures match r { Ok(v) => acc_hooks(*self, *cnf) == Some(v@), Err(_) => acc_hooks(*self, *cnf) is None } { unimplemented!() }
        #[verifier::external_body]
        pub fn to_generic(&self, fm: &FileManager) -> (r: Result<crate::shims::Account, Error>)
            ensures r matches Ok(a) ==> a.endpoints@ == Set::<Seq<char>>::empty() { unimplemented!() }
    }
    impl Certificate {
        #[verifier::external_body]
        pub fn get_endpoint(&self, cnf: &Config, root_certs: &[&str]) -> (r: Result<Endpoint, Error>)
            ensures match r { Ok(e) => crt_endpoint_name(*self, *cnf, root_certs@) == Some(e.name@) && roots_text(e.cmdline_roots@) == roots_text(root_certs@), Err(_) => crt_endpoint_name(*self, *cnf, root_certs@) is None } { unimplemented!() }
        #[verifier::external_body]
        pub fn get_crt_name(&self) -> (r: Result<String, Error>) ensures match r { Ok(s) => crt_name(*self) == Some(s@), Err(_) => crt_name(*self) is None } { unimplemented!() }
        #[verifier::external_body]
        pub fn get_key_type(&self) -> (r: Result<KeyType, Error>) ensures match r { Ok(s) => crt_key_type(*self) == Some(s), Err(_) => crt_key_type(*self) is None } { unimplemented!() }
        #[verifier::external_body]
        pub fn get_hooks(&self, cnf: &Config) -> (r: Result<Vec<Hook>, Error>)
            ensures match r { Ok(v) => crt_hooks(*self, *cnf) == Some(v@), Err(_) => crt_hooks(*self, *cnf) is None } { unimplemented!() }
        #[verifier::external_body]
        pub fn get_crt_name_format(&self, cnf: &Config) -> (r: Result<String, Error>)
            ensures match r { Ok(s) => crt_name_format(*self, *cnf) == Some(s@), Err(_) => crt_name_format(*self, *cnf) is None } { unimplemented!() }
        #[verifier::external_body]
        pub fn get_crt_dir(&self, cnf: &Config) -> (r: String) ensures r@ == crt_dir(*self, *cnf) { unimplemented!() }
        // (verified in unit cfgwire: every configured identifier in order, the configured digest / key re-use flag or the default)
        #[verifier::external_body]
        pub fn get_identifiers(&self) -> (r: Result<Vec<Identifier>, Error>)
            ensures match r { Ok(v) => crt_identifiers(*self) == Some(v@), Err(_) => crt_identifiers(*self) is None } { unimplemented!() }
        #[verifier::external_body]
        pub fn get_csr_digest(&self) -> (r: Result<HashFunction, Error>)
            ensures match r { Ok(d) => crt_csr_digest(*self) == Some(d), Err(_) => crt_csr_digest(*self) is None } { unimplemented!() }
        #[verifier::external_body]
        pub fn get_kp_reuse(&self) -> (r: bool) ensures r == crt_kp_reuse(*self) { unimplemented!() }
        #[verifier::external_body]
        pub fn get_random_early_renew(&self, cnf: &Config) -> (r: Result<Duration, Error>)
            ensures match r { Ok(s) => crt_random_early_renew(*self, *cnf) == Some(s), Err(_) => crt_random_early_renew(*self, *cnf) is None } { unimplemented!() }
        #[verifier::external_body]
        pub fn get_renew_delay(&self, cnf: &Config) -> (r: Result<Duration, Error>)
            ensures match r { Ok(s) => crt_renew_delay(*self, *cnf) == Some(s), Err(_) => crt_renew_delay(*self, *cnf) is None } { unimplemented!() }
    }
    }
}
