// Trusted shim of acme_common::error::Error as seen from the acmed crate.
// The message content is opaque except through `msg_spec`.
pub mod acme_common { pub mod error {
    use vstd::prelude::*;
    verus! {
    #[derive(Debug)]
    pub struct Error { pub message: String }
    impl Clone for Error {
        #[verifier::external_body]
        fn clone(&self) -> (r: Self) ensures r == *self { Error { message: self.message.clone() } }
    }
    pub uninterp spec fn error_prefix_spec(msg: Seq<char>, prefix: Seq<char>) -> Seq<char>;
    impl Error {
        #[verifier::external_body]
        pub fn prefix(&self, prefix: &str) -> (r: Self) ensures r.message@ == error_prefix_spec(self.message@, prefix@) { unimplemented!() }
    }
    impl vstd::std_specs::convert::FromSpecImpl<String> for Error {
        open spec fn obeys_from_spec() -> bool { false }
        open spec fn from_spec(e: String) -> Self { arbitrary() }
    }
    impl From<String> for Error { #[verifier::external_body] fn from(e: String) -> Self { Error { message: e } } }
    impl<'a> vstd::std_specs::convert::FromSpecImpl<&'a str> for Error {
        open spec fn obeys_from_spec() -> bool { false }
        open spec fn from_spec(e: &'a str) -> Self { arbitrary() }
    }
    impl From<&str> for Error { #[verifier::external_body] fn from(e: &str) -> Self { Error { message: e.to_string() } } }
    impl<'a> vstd::std_specs::convert::FromSpecImpl<&'a String> for Error {
        open spec fn obeys_from_spec() -> bool { false }
        open spec fn from_spec(e: &'a String) -> Self { arbitrary() }
    }
    impl From<&String> for Error { #[verifier::external_body] fn from(e: &String) -> Self { Error { message: e.to_string() } } }
    #[derive(Debug)]
    pub struct IoError { pub x: u8 }
    impl vstd::std_specs::convert::FromSpecImpl<IoError> for Error {
        open spec fn obeys_from_spec() -> bool { false }
        open spec fn from_spec(e: IoError) -> Self { arbitrary() }
    }
    impl From<IoError> for Error { #[verifier::external_body] fn from(e: IoError) -> Self { unimplemented!() } }
    }
}
// Trusted view of acme_common::crypto as seen from the acmed crate (the functions themselves are
// verified in the acme_common units where Verus can reach them).
pub mod crypto {
    use vstd::prelude::*;
    use super::error::Error;
    verus! {
    pub struct KeyPair { pub key_type: KeyType, pub id: Ghost<int> }
    pub uninterp spec fn key_pem(k: KeyPair) -> Seq<u8>;          // PKCS#8 PEM of the private key
    pub uninterp spec fn pem_key(pem: Seq<u8>) -> Option<KeyPair>; // its inverse where defined
    pub struct X509Certificate { pub id: Ghost<int> }
    pub uninterp spec fn pem_cert(pem: Seq<u8>) -> Option<X509Certificate>;
    pub uninterp spec fn cert_expires_ns(c: X509Certificate) -> nat;      // max(0, notAfter - now) in nanoseconds (proved in unit x509time)
    pub uninterp spec fn cert_san(c: X509Certificate) -> Set<Seq<char>>; // dNSName / iPAddress subjectAltName entries as text
    // text of a set of strings (HashSet<String> seen through its elements' characters)
    pub uninterp spec fn strset(h: std::collections::HashSet<String>) -> Set<Seq<char>>;
    #[derive(Clone, Copy, PartialEq, Eq)]
    pub struct KeyType { pub id: u8 }
    impl vstd::std_specs::cmp::PartialEqSpecImpl for KeyType {
        open spec fn obeys_eq_spec() -> bool { true }
        open spec fn eq_spec(&self, other: &KeyType) -> bool { *self == *other }
    }
    #[derive(Clone, Copy)]
    pub struct HashFunction { pub id: u8 }
    #[derive(Clone, Copy, PartialEq, Eq, Hash)]
    pub struct SubjectAttribute { pub id: u8 }
    #[verifier::external]
    impl std::fmt::Display for KeyType { fn fmt(&self, f: &mut std::fmt::Formatter) -> std::fmt::Result { Ok(()) } }
    impl KeyPair {
        #[verifier::external_body]
        pub fn private_key_to_pem(&self) -> (r: Result<Vec<u8>, Error>)
            ensures r matches Ok(v) ==> v@ == key_pem(*self) { unimplemented!() }
        #[verifier::external_body]
        pub fn from_pem(pem: &Vec<u8>) -> (r: Result<KeyPair, Error>)
            ensures r matches Ok(k) ==> pem_key(pem@) == Some(k), (r is Ok) == (pem_key(pem@) is Some) { unimplemented!() }
    }
    // acme_common gen_keypair (unit keys): a fresh key of the requested type
    #[verifier::external_body]
    pub fn gen_keypair(key_type: KeyType) -> (r: Result<KeyPair, Error>) ensures r matches Ok(k) ==> k.key_type == key_type { unimplemented!() }
    impl X509Certificate {
        #[verifier::external_body]
        pub fn from_pem(pem: &Vec<u8>) -> (r: Result<X509Certificate, Error>)
            ensures r matches Ok(c) ==> pem_cert(pem@) == Some(c) { unimplemented!() }
        #[verifier::external_body]
        pub fn expires_in(&self) -> (r: Result<std::time::Duration, Error>)
            ensures r matches Ok(d) ==> crate::dur(d) == cert_expires_ns(*self) { unimplemented!() }
        #[verifier::external_body]
        pub fn subject_alt_names(&self) -> (r: std::collections::HashSet<String>)
            ensures strset(r) == cert_san(*self) { unimplemented!() }
    }
    }
}
}
