// Trusted shim of acme_common::error::Error as seen from the acmed crate.
// The message content is opaque except through `msg_spec`.
pub mod acme_common { pub mod error {
    use vstd::prelude::*;
    verus! {
    #[derive(Debug)]
    pub struct Error { pub message: String }
    impl Clone for Error {
        #[verifier::external_body]
        fn clone(&self) -> (r: Self) ensures r == *self { Error { message: self.message.clone() } }
    }
    impl Error {
        #[verifier::external_body]
        pub fn prefix(&self, prefix: &str) -> Self { unimplemented!() }
    }
    impl vstd::std_specs::convert::FromSpecImpl<String> for Error {
        open spec fn obeys_from_spec() -> bool { false }
        open spec fn from_spec(e: String) -> Self { arbitrary() }
    }
    impl From<String> for Error { #[verifier::external_body] fn from(e: String) -> Self { Error { message: e } } }
    impl<'a> vstd::std_specs::convert::FromSpecImpl<&'a str> for Error {
        open spec fn obeys_from_spec() -> bool { false }
        open spec fn from_spec(e: &'a str) -> Self { arbitrary() }
    }
    impl From<&str> for Error { #[verifier::external_body] fn from(e: &str) -> Self { Error { message: e.to_string() } } }
    impl<'a> vstd::std_specs::convert::FromSpecImpl<&'a String> for Error {
        open spec fn obeys_from_spec() -> bool { false }
        open spec fn from_spec(e: &'a String) -> Self { arbitrary() }
    }
    impl From<&String> for Error { #[verifier::external_body] fn from(e: &String) -> Self { Error { message: e.to_string() } } }
    pub struct IoError { pub x: u8 }
    impl vstd::std_specs::convert::FromSpecImpl<IoError> for Error {
        open spec fn obeys_from_spec() -> bool { false }
        open spec fn from_spec(e: IoError) -> Self { arbitrary() }
    }
    impl From<IoError> for Error { #[verifier::external_body] fn from(e: IoError) -> Self { unimplemented!() } }
    }
}}
