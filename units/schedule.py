"""U4 - when to renew (acmed/src/certificate.rs).  Serves C06; hook-data builders serve C05/C10/C07."""
from unit import Unit, FnSpec
import storage

CRT = "acmed/src/certificate.rs"
ST = "acmed/src/storage.py"

ZERO = ("T-CONST-STD", r"Duration::ZERO", "crate::rand::duration_zero()", None)


def contracts():
    c = {}
    c["renew_in"] = FnSpec(ret="r", sig="""
    ensures
        // wait until notAfter - renew_delay (X), minus a random amount in [0, random_early_renew): never longer than X,
        // never negative, exactly X without jitter, and earlier than X by less than random_early_renew
        r matches Ok(d) ==> ({
            let x = sat_sub(crate::acme_common::crypto::cert_expires_ns(*cert), dur(self.renew_delay));
            &&& dur(d) <= x
            &&& (dur(self.random_early_renew) == 0 ==> dur(d) == x)
            &&& (dur(self.random_early_renew) > 0 ==> dur(d) + dur(self.random_early_renew) > x)
        }), //@C06.wait_is_expiry_minus_delay_minus_jitter
""", rewrites=[ZERO])
    c["has_missing_identifiers"] = FnSpec(ret="r", sig="""
    ensures r == !id_values(self.identifiers@).subset_of(crate::acme_common::crypto::cert_san(*cert)), //@C06.missing_identifier_detected
""", rewrites=[("T-ITER", r"self\s*\.identifiers\s*\.iter\(\)\s*\.map\(\|v\| v\.value\.to_owned\(\)\)\s*\.collect::<HashSet<String>>\(\)",
                "crate::titer3::collect_strings(&self.identifiers, |v: &Identifier| -> (s: String) ensures s@ == v.value@ { v.value.to_owned() })"),
               ("T-ITER", r"(?P<a>\w+)\.difference\(&(?P<b>\w+)\)\.count\(\)", r"crate::titer3::difference_count(&\g<a>, &\g<b>)"),
               ("T-FMT", r"let domains = req_names.*?\.join\(\", \"\);", "let domains = crate::opaque_string();")],
        at=[("before_stmt", "if has_miss", 1, """
        proof {
            assert(strset(req_names) == self.identifiers@.map_values(val_fn()).to_set());
            let a = strset(req_names); let b = strset(cert_names);
            let dset = a.difference(b);
            if a.subset_of(b) {
                assert(dset =~= Set::<Seq<char>>::empty());
            } else if dset.len() == 0 {
                dset.lemma_len0_is_empty();
                assert forall|x: Seq<char>| a.contains(x) implies b.contains(x) by {
                    if !b.contains(x) { assert(dset.contains(x)); }
                }
            }
        }""")])
    c["schedule_renewal"] = FnSpec(ret="r", ghost=True, sig="""
    ensures *final(w) == *old(w),
        // a missing key or certificate file means: request now
        !(old(w).fs.files.contains_key(file_path_spec(self.file_manager, FileType::PrivateKey))
          && old(w).fs.files.contains_key(file_path_spec(self.file_manager, FileType::Certificate)))
            ==> (r matches Ok(d) && dur(d) == 0), //@C06.missing_file_means_now
        // a certificate that lacks a configured identifier means: request now
        (r is Ok && (crate::acme_common::crypto::pem_cert(old(w).fs.files[file_path_spec(self.file_manager, FileType::Certificate)]) matches Some(c)
          && !id_values(self.identifiers@).subset_of(crate::acme_common::crypto::cert_san(c))))
            ==> (r matches Ok(d) && dur(d) == 0), //@C06.missing_identifier_means_now
        // otherwise never later than notAfter - renew_delay, and earlier by less than random_early_renew
        r matches Ok(d) ==> (dur(d) > 0 ==> (crate::acme_common::crypto::pem_cert(old(w).fs.files[file_path_spec(self.file_manager, FileType::Certificate)]) matches Some(c)
            && dur(d) <= sat_sub(crate::acme_common::crypto::cert_expires_ns(c), dur(self.renew_delay))
            && (dur(self.random_early_renew) == 0 ==> dur(d) == sat_sub(crate::acme_common::crypto::cert_expires_ns(c), dur(self.renew_delay)))
            && dur(d) + dur(self.random_early_renew) >= sat_sub(crate::acme_common::crypto::cert_expires_ns(c), dur(self.renew_delay)))), //@C06.never_late_never_negative
""", rewrites=[ZERO])
    return c


def build():
    u = Unit("schedule", "acmed")
    u.prelude("err", "log", "stdx", "time", "world", "fs", "rand", "titer3")
    u.ghost_call("certificate_files_exists", quals=("",))
    u.ghost_call("get_certificate", quals=("",))
    u.drop_derives = {"Debug", "Eq", "Hash", "PartialEq", "Clone", "Copy"}
    u.module("config", "")
    u.take("acmed/src/config.rs", "HookType", "config", keep_derives=("Eq", "Hash", "PartialEq", "Clone"))
    u.module("logs", "")
    u.take("acmed/src/logs.rs", "HasLogger", "logs")
    u.module("hooks", "use crate::*;\npub use crate::config::HookType;\nuse std::collections::{HashMap, HashSet};")
    u.take("acmed/src/hooks.rs", "HookStdin", "hooks")
    u.take("acmed/src/hooks.rs", "Hook", "hooks")
    u.module("acme_proto", "")
    u.take("acmed/src/acme_proto.rs", "Challenge", "acme_proto")
    u.module("identifier", "use crate::*;\nuse crate::acme_proto::Challenge;\nuse std::collections::HashMap;")
    u.take("acmed/src/identifier.rs", "IdentifierType", "identifier")
    u.take("acmed/src/identifier.rs", "Identifier", "identifier")
    u.module("storage", "use crate::*;\nuse crate::hooks::{self, Hook, HookType};\nuse crate::logs::HasLogger;\n"
             "use crate::acme_common::crypto::{KeyPair, X509Certificate};\nuse crate::acme_common::error::Error;\n"
             "use std::collections::HashMap;\nuse crate::vpath::{Path, PathBuf};")
    u.take("acmed/src/storage.rs", "FileManager", "storage")
    u.take("acmed/src/storage.rs", "FileType", "storage")
    u.raw("storage", STORAGE_SPEC)
    sc = storage.contracts()
    u.stub("acmed/src/storage.rs", "certificate_files_exists", "storage", fns={"certificate_files_exists": sc["certificate_files_exists"]})
    u.stub("acmed/src/storage.rs", "get_certificate", "storage", fns={"get_certificate": sc["get_certificate"]})
    u.module("certificate", "use crate::*;\nuse crate::acme_proto::Challenge;\nuse crate::hooks::{self, Hook, HookType};\n"
             "use crate::identifier::{Identifier, IdentifierType};\nuse crate::logs::HasLogger;\n"
             "use crate::storage::{certificate_files_exists, get_certificate, FileManager, FileType, file_path_spec};\n"
             "use crate::acme_common::crypto::{HashFunction, KeyType, SubjectAttribute, X509Certificate, strset};\n"
             "use crate::acme_common::error::Error;\nuse crate::rand::{thread_rng};\n"
             "use std::collections::{HashMap, HashSet};\nuse std::time::Duration;")
    u.take(CRT, "Certificate", "certificate")
    u.verify(CRT, "impl HasLogger for Certificate", "certificate", props=["C06"])
    u.raw("certificate", SPEC)
    c = contracts()
    for name in ["renew_in", "has_missing_identifiers", "schedule_renewal"]:
        u.verify(CRT, f"Certificate::{name}", "certificate", props=["C06"], fns={name: c[name]})
    return u


STORAGE_SPEC = """
pub uninterp spec fn file_path_spec(fm: FileManager, t: FileType) -> Seq<char>;
"""

SPEC = """
pub open spec fn sat_sub(a: nat, b: nat) -> nat { if a >= b { (a - b) as nat } else { 0 } }
// the configured identifier values, as a set of texts
pub open spec fn val_fn() -> spec_fn(Identifier) -> Seq<char> { |d: Identifier| d.value@ }
pub open spec fn id_values(ids: Seq<Identifier>) -> Set<Seq<char>> { ids.map_values(val_fn()).to_set() }
"""
