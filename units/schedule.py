"""U4 - when to renew (acmed/src/certificate.rs).  Serves C06; hook-data builders serve C05/C10/C07."""
from unit import Unit, FnSpec, soft_rules, fmt_to_cat
import storage

CRT = "acmed/src/certificate.rs"
ST = "acmed/src/storage.py"

ZERO = ("T-CONST-STD", r"Duration::ZERO", "crate::rand::duration_zero()", None)


def contracts():
    c = {}
    c["renew_in"] = FnSpec(ret="r", sig="""
    ensures
        // wait until notAfter - renew_delay (X), minus a random amount in [0, random_early_renew): never longer than X,
        // never negative, exactly X without jitter, and earlier than X by less than random_early_renew
        r matches Ok(d) ==> ({
            let x = sat_sub(crate::acme_common::crypto::cert_expires_ns(*cert), dur(self.renew_delay));
            &&& dur(d) <= x
            &&& (dur(self.random_early_renew) == 0 ==> dur(d) == x)
            &&& (dur(self.random_early_renew) > 0 ==> dur(d) + dur(self.random_early_renew) > x)
        }), //@C06.wait_is_expiry_minus_delay_minus_jitter
""", rewrites=[ZERO])
    c["has_missing_identifiers"] = FnSpec(ret="r", sig="""
    ensures r == !id_values(self.identifiers@).subset_of(crate::acme_common::crypto::cert_san(*cert)), //@C06.missing_identifier_detected
""", rewrites=[("T-ITER", r"self\s*\.identifiers\s*\.iter\(\)\s*\.map\(\s*\|(?P<p>\w+)\|\s*(?P<body>.*?)\s*\)\s*\.collect::<HashSet<String>>\(\)",
                # the closure keeps its real body; what the comparison relies on (each configured identifier is compared as it is) is its ensures clause
                lambda m: f"crate::titer3::collect_strings(&self.identifiers, |{m.group('p')}: &Identifier| -> (s: String) ensures s@ == {m.group('p')}.value@ //@C06.missing_identifier_detected\n {{ {soft_rules(m.group('body'))} }})"),
               ("T-ITER", r"(?P<a>\w+)\.difference\(&(?P<b>\w+)\)\.count\(\)", r"crate::titer3::difference_count(&\g<a>, &\g<b>)"),
               ("T-FMT", r"let domains = \w+\s*\.difference\(.*?\.join\(\", \"\);", "let domains = crate::opaque_string();", None)],
        at=[("before_stmt", "if has_miss", 1, """
        proof {
            assert(strset(req_names) == self.identifiers@.map_values(val_fn()).to_set());
            let a = strset(req_names); let b = strset(cert_names);
            let dset = a.difference(b);
            if a.subset_of(b) {
                assert(dset =~= Set::<Seq<char>>::empty());
            } else if dset.len() == 0 {
                dset.lemma_len0_is_empty();
                assert forall|x: Seq<char>| a.contains(x) implies b.contains(x) by {
                    if !b.contains(x) { assert(dset.contains(x)); }
                }
            }
        }""")])
    c["schedule_renewal"] = FnSpec(ret="r", ghost=True, sig="""
    ensures *final(w) == *old(w),
        // a missing key or certificate file means: request now
        !(old(w).fs.files.contains_key(file_path_spec(self.file_manager, FileType::PrivateKey))
          && old(w).fs.files.contains_key(file_path_spec(self.file_manager, FileType::Certificate)))
            ==> (r matches Ok(d) && dur(d) == 0), //@C06.missing_file_means_now
        // a certificate that lacks a configured identifier means: request now
        (r is Ok && (crate::acme_common::crypto::pem_cert(old(w).fs.files[file_path_spec(self.file_manager, FileType::Certificate)]) matches Some(c)
          && !id_values(self.identifiers@).subset_of(crate::acme_common::crypto::cert_san(c))))
            ==> (r matches Ok(d) && dur(d) == 0), //@C06.missing_identifier_means_now
        // otherwise never later than notAfter - renew_delay, and earlier by less than random_early_renew
        r matches Ok(d) ==> (dur(d) > 0 ==> (crate::acme_common::crypto::pem_cert(old(w).fs.files[file_path_spec(self.file_manager, FileType::Certificate)]) matches Some(c)
            && dur(d) <= sat_sub(crate::acme_common::crypto::cert_expires_ns(c), dur(self.renew_delay))
            && (dur(self.random_early_renew) == 0 ==> dur(d) == sat_sub(crate::acme_common::crypto::cert_expires_ns(c), dur(self.renew_delay)))
            && dur(d) + dur(self.random_early_renew) >= sat_sub(crate::acme_common::crypto::cert_expires_ns(c), dur(self.renew_delay)))), //@C06.never_late_never_negative
        // a certificate that is there with its key and covers every configured identifier is not requested again before
        // notAfter - renew_delay - random_early_renew: in particular a freshly issued one is not renewed at once
        (path_ok(self.file_manager, FileType::PrivateKey) && old(w).fs.files.contains_key(file_path_spec(self.file_manager, FileType::PrivateKey))
            && path_ok(self.file_manager, FileType::Certificate) && old(w).fs.files.contains_key(file_path_spec(self.file_manager, FileType::Certificate)))
            ==> (r matches Ok(d) ==> (crate::acme_common::crypto::pem_cert(old(w).fs.files[file_path_spec(self.file_manager, FileType::Certificate)]) matches Some(c)
                && (id_values(self.identifiers@).subset_of(crate::acme_common::crypto::cert_san(c))
                    ==> dur(d) + dur(self.random_early_renew) >= sat_sub(crate::acme_common::crypto::cert_expires_ns(c), dur(self.renew_delay))))), //@C06.a_covering_certificate_is_not_renewed_before_it_is_due
""", rewrites=[ZERO])
    # ---- C05 / C10 / C07: which configured entry solves an authorization, and the data handed to the hooks
    c["get_identifier_from_str"] = FnSpec(ret="r", sig="""
    ensures
        // the wildcard authorization for a name is solved with the entry configured for "*.<name>", any other one with the
        // entry configured for the name itself; only when no such entry exists, the prefix-insensitive lookup applies
        match r { Ok(d) => chosen(self.identifiers@, identifier@, wildcard) == Some(d),
                  Err(_) => chosen(self.identifiers@, identifier@, wildcard) is None }, //@C05.wildcard_authorization_uses_the_wildcard_entry
""", loops={1: "    invariant exact_name@ == crate::certificate::exact_name(identifier_0@, wildcard), identifier@ == identifier_0@, forall|j: int| 0 <= j < it1.index@ ==> self.identifiers@[j].value@ != exact_name@,",
            2: "    invariant identifier@ == identifier_0@, forall|j: int| 0 <= j < self.identifiers@.len() ==> self.identifiers@[j].value@ != crate::certificate::exact_name(identifier_0@, wildcard),"
               "\n        forall|j: int| 0 <= j < it2.index@ ==> !legacy_match(self.identifiers@[j], identifier_0@),"},
        body_start="let ghost identifier_0 = identifier;", attrs="#[verifier::loop_isolation(false)]",
        at=[("loop_iter", None, 1, "it1:"), ("loop_iter", None, 2, "it2:"),
            ("before_stmt", "return Ok(d.clone())", 1, """proof {
                let e = crate::certificate::exact_name(identifier_0@, wildcard);
                assert(first_exact(self.identifiers@, e, it1.index@));
                lemma_first_exact_unique(self.identifiers@, e);
                let ch = choose|i: int| first_exact(self.identifiers@, e, i);
                assert(ch == it1.index@);
                assert(*d == self.identifiers@[it1.index@ as int]);
                assert(chosen(self.identifiers@, identifier_0@, wildcard) == Some(self.identifiers@[it1.index@ as int]));
            }"""),
            ("before_stmt", "return Ok(d.clone())", 2, """proof {
                let e = crate::certificate::exact_name(identifier_0@, wildcard);
                assert(first_legacy(self.identifiers@, identifier_0@, it2.index@));
                lemma_first_legacy_unique(self.identifiers@, identifier_0@);
                assert(!(exists|i: int| first_exact(self.identifiers@, e, i)));
                let ch = choose|i: int| first_legacy(self.identifiers@, identifier_0@, i);
                assert(ch == it2.index@);
                assert(*d == self.identifiers@[it2.index@ as int]);
            }"""),
            ("before_stmt", "for d in self.identifiers.iter()", 2, "proof { reveal_strlit(\"*.\"); }"),
            ("before_stmt", "Err(", 1, "proof { lemma_first_legacy_unique(self.identifiers@, identifier_0@); lemma_first_exact_unique(self.identifiers@, crate::certificate::exact_name(identifier_0@, wildcard)); }")],
        rewrites=[("T-FMT", r"format!\((?P<f>\"\*\.\{identifier\}\")\)", lambda m: fmt_to_cat(m.group("f"), "crate::venv::cat2")),
                  ("T-STR", r"d\.value\.trim_start_matches\(\"\*\.\"\)\.(?:to_string|to_owned)\(\)", 'crate::venv::trim_start_matches_str(&d.value, "*.")')])
    c["call_challenge_hooks"] = FnSpec(ret="r", ghost=True, body_start="broadcast use crate::certificate::axiom_hooks_of_certificate;", sig="""
    ensures final(w).clock == old(w).clock, final(w).admissions == old(w).admissions, final(w).net == old(w).net,
        final(w).fs.files == old(w).fs.files, final(w).fs.modes == old(w).fs.modes,
        r matches Ok(t) ==> chosen(self.identifiers@, identifier@, wildcard) matches Some(id) && ({
            // the documented template variables
            &&& t.0.identifier@ == id.value@ && t.0.challenge@ == challenge_name(id.challenge)
            &&& t.0.file_name@ == file_name@ && t.0.proof@ == proof@
            &&& t.0.raw_proof@ == (match raw_proof { Some(s) => s@, None => Seq::<char>::empty() }) && !t.0.is_clean_hook
            // environment: identifier over certificate (which already holds the global one) over the daemon's own
            &&& envmap(t.0.env) == proc_env().union_prefer_right(envmap(self.env)).union_prefer_right(envmap(id.env))
            // the hooks of the configured challenge type are run, and the matching clean type is handed back
            &&& t.1 == clean_type(id.challenge)
            &&& final(w).fs.events == old(w).fs.events.push(FsEvent::Hook { ty: crate::hooks::hook_type_id(start_type(id.challenge)), data: crate::hooks::hook_data_id(t.0), ok: true })
        }), //@C05.challenge_hooks_of_the_configured_type_get_the_proof,C10.env_identifier_over_certificate_over_daemon
        r is Err ==> final(w).fs.events == old(w).fs.events || exists|e: FsEvent| final(w).fs.events == old(w).fs.events.push(e),
""", rewrites=[("T-MAP", r"env: HashMap::new\(\)", "env: crate::venv::new_map()")] + ENV_IDIOMS,
        at=[("before_tail", None, 1, """
        proof {
            let p = proc_env(); let c = envmap(self.env); let i = envmap(identifier.env);
            assert(p.union_prefer_right(p.union_prefer_right(Map::<Seq<char>, Seq<char>>::empty()).union_prefer_right(c)).union_prefer_right(i)
                   =~= p.union_prefer_right(c).union_prefer_right(i));
        }""")])
    c["call_challenge_hooks_clean"] = FnSpec(ret="r", ghost=True, body_start="broadcast use crate::certificate::axiom_hooks_of_certificate;", sig="""
    ensures final(w).clock == old(w).clock, final(w).admissions == old(w).admissions, final(w).net == old(w).net,
        final(w).fs.files == old(w).fs.files, final(w).fs.modes == old(w).fs.modes,
        final(w).fs.events == old(w).fs.events.push(FsEvent::Hook { ty: crate::hooks::hook_type_id(hook_type), data: crate::hooks::hook_data_id(*data), ok: r is Ok }), //@C10.clean_hooks_get_the_recorded_data
""")
    c["call_post_operation_hooks"] = FnSpec(ret="r", ghost=True, body_start="broadcast use crate::certificate::axiom_hooks_of_certificate;", sig="""
    ensures final(w).clock == old(w).clock, final(w).admissions == old(w).admissions, final(w).net == old(w).net,
        final(w).fs.files == old(w).fs.files, final(w).fs.modes == old(w).fs.modes,
        r is Ok ==> exists|d: PostOperationHookData| d.status@ == status@ && d.is_success == is_success
            && d.identifiers@.len() == self.identifiers@.len()
            && (forall|i: int| 0 <= i < d.identifiers@.len() ==> (#[trigger] d.identifiers@[i])@ == self.identifiers@[i].value@)
            && envmap(d.env) == proc_env().union_prefer_right(envmap(self.env))
            // (the two paths handed to the hooks are the paths of the certificate's files, as the storage layer computes them)
            && d.certificate_path@ == file_path_spec(self.file_manager, FileType::Certificate)
            && d.private_key_path@ == file_path_spec(self.file_manager, FileType::PrivateKey)
            && final(w).fs.events == old(w).fs.events.push(FsEvent::Hook { ty: crate::hooks::hook_type_id(HookType::PostOperation), data: crate::hooks::hook_data_id(d), ok: true }), //@C07.post_operation_data_reports_status,C10.post_operation_hook_data
""", rewrites=[("T-MAP", r"env: HashMap::new\(\)", "env: crate::venv::new_map()"),
               ("T-ITER", r"self\s*\.identifiers\s*\.iter\(\)\s*\.map\(\|d\| d\.value\.to_owned\(\)\)\s*\.collect::<Vec<String>>\(\)", "crate::certificate::collect_values(&self.identifiers)")],
        at=[("before_tail", None, 1, """
        proof {
            let p = proc_env(); let c = envmap(self.env);
            assert(p.union_prefer_right(Map::<Seq<char>, Seq<char>>::empty()).union_prefer_right(c) =~= p.union_prefer_right(c));
        }""")])
    return c


def build():
    u = Unit("schedule", "acmed")
    u.prelude("err", "log", "stdx", "time", "world", "fs", "rand", "titer3", "env_shims")
    u.ghost_call("certificate_files_exists", quals=("",))
    u.ghost_call("get_certificate", quals=("",))
    u.ghost_call("call", quals=("hooks",))
    u.drop_derives = {"Debug", "Eq", "Hash", "PartialEq", "Clone", "Copy"}
    u.module("config", "")
    u.take("acmed/src/config.rs", "HookType", "config", keep_derives=("Eq", "Hash", "PartialEq", "Clone"))
    u.module("logs", "")
    u.take("acmed/src/logs.rs", "HasLogger", "logs")
    u.module("hooks", "use crate::*;\npub use crate::config::HookType;\nuse crate::logs::HasLogger;\nuse crate::acme_common::error::Error;\n"
             "use crate::vpath::PathBuf;\nuse crate::venv::*;\nuse std::collections::{HashMap, HashSet};")
    u.take("acmed/src/hooks.rs", "HookStdin", "hooks")
    u.take("acmed/src/hooks.rs", "Hook", "hooks")
    u.take("acmed/src/hooks.rs", "ChallengeHookData", "hooks")
    u.take("acmed/src/hooks.rs", "PostOperationHookData", "hooks")
    u.raw("hooks", HOOKS_STUB, trusted=True)
    u.module("acme_proto", "")
    u.take("acmed/src/acme_proto.rs", "Challenge", "acme_proto")
    u.raw("acme_proto", """
pub open spec fn challenge_name(c: Challenge) -> Seq<char> {
    match c { Challenge::Http01 => "http-01"@, Challenge::Dns01 => "dns-01"@, Challenge::TlsAlpn01 => "tls-alpn-01"@ }
}
impl std::fmt::Display for Challenge { #[verifier::external_body] fn fmt(&self, f: &mut std::fmt::Formatter) -> std::fmt::Result { unimplemented!() } }
// the Display table of Challenge (acme_proto.rs) - assumed here
#[verifier::external_body]
pub broadcast proof fn axiom_challenge_to_string(c: &Challenge, r: String)
    ensures #[trigger] vstd::string::to_string_from_display_ensures::<Challenge>(c, r) ==> r@ == challenge_name(*c) {}
""", trusted=True)
    u.module("identifier", "use crate::*;\nuse crate::acme_proto::Challenge;\nuse std::collections::HashMap;")
    u.take("acmed/src/identifier.rs", "IdentifierType", "identifier")
    u.take("acmed/src/identifier.rs", "Identifier", "identifier")
    u.module("storage", "use crate::*;\nuse crate::hooks::{self, Hook, HookType};\nuse crate::logs::HasLogger;\n"
             "use crate::acme_common::crypto::{KeyPair, X509Certificate};\nuse crate::acme_common::error::Error;\n"
             "use std::collections::HashMap;\nuse crate::vpath::{Path, PathBuf};")
    u.take("acmed/src/storage.rs", "FileManager", "storage")
    u.take("acmed/src/storage.rs", "FileType", "storage")
    u.raw("storage", STORAGE_SPEC)
    sc = storage.contracts()
    u.stub("acmed/src/storage.rs", "certificate_files_exists", "storage", fns={"certificate_files_exists": sc["certificate_files_exists"]})
    u.stub("acmed/src/storage.rs", "get_certificate", "storage", fns={"get_certificate": sc["get_certificate"]})
    u.module("certificate", "use crate::*;\nuse crate::acme_proto::Challenge;\nuse crate::hooks::{self, Hook, HookType};\n"
             "use crate::identifier::{Identifier, IdentifierType};\nuse crate::logs::HasLogger;\n"
             "use crate::storage::{certificate_files_exists, get_certificate, FileManager, FileType, file_path_spec, path_ok};\n"
             "use crate::acme_common::crypto::{HashFunction, KeyType, SubjectAttribute, X509Certificate, strset};\n"
             "use crate::acme_common::error::Error;\nuse crate::rand::{thread_rng};\nuse crate::hooks::{ChallengeHookData, PostOperationHookData, HookEnvData};\nuse crate::venv::*;\n"
             "use std::collections::{HashMap, HashSet};\nuse std::time::Duration;")
    u.take(CRT, "Certificate", "certificate")
    u.verify(CRT, "impl HasLogger for Certificate", "certificate", props=["C06"])
    u.raw("certificate", SPEC)
    c = contracts()
    for name in ["renew_in", "has_missing_identifiers", "schedule_renewal"]:
        u.verify(CRT, f"Certificate::{name}", "certificate", props=["C06"], fns={name: c[name]})
    sc2 = storage.contracts()
    u.stub("acmed/src/storage.rs", "get_certificate_path", "storage", fns={"get_certificate_path": sc2["get_certificate_path"]})
    u.stub("acmed/src/storage.rs", "get_keypair_path", "storage", fns={"get_keypair_path": sc2["get_keypair_path"]})
    u.verify(CRT, "Certificate::get_identifier_from_str", "certificate", props=["C05"], fns={"get_identifier_from_str": c["get_identifier_from_str"]})
    u.verify(CRT, "Certificate::call_challenge_hooks", "certificate", props=["C05", "C10"], fns={"call_challenge_hooks": c["call_challenge_hooks"]})
    u.verify(CRT, "Certificate::call_challenge_hooks_clean", "certificate", props=["C05", "C10"], fns={"call_challenge_hooks_clean": c["call_challenge_hooks_clean"]})
    u.verify(CRT, "Certificate::call_post_operation_hooks", "certificate", props=["C07", "C10"], fns={"call_post_operation_hooks": c["call_post_operation_hooks"]})
    return u


# T-MAP idioms on environment maps (optional: applied wherever they occur)
ENV_IDIOMS = [
    ("T-MAP", r"(?P<a>\w+(?:\s*\.\s*\w+)*?)\s*\.extend\(\s*(?P<b>[\w\.]+?)\s*\.iter\(\)\s*\.map\(\|\(k, v\)\| \((?:k\.to_owned\(\), v\.to_owned\(\)|k\.clone\(\), v\.clone\(\)|k\.to_string\(\), v\.to_string\(\))\)\)\s*\)",
     lambda m: f"crate::venv::extend_from(&mut {''.join(m.group('a').split())}, &{m.group('b')})", None),
    ("T-MAP", r"(?P<a>\w+)\.extend\((?P<b>[\w\.]+?)\.clone\(\)\)", lambda m: f"crate::venv::extend_from(&mut {m.group('a')}, &{m.group('b')})", None),
    ("T-MAP", r"(?P<b>(?:self|identifier|fm)\.env)\.clone\(\)", lambda m: f"crate::venv::clone_map(&{m.group('b')})", None),
]

HOOKS_STUB = """
// hooks.rs is under contract in unit `hooks`; here what certificate.rs needs of it
pub trait HookEnvData { fn set_env(&mut self, env: &HashMap<String, String>); }
pub open spec fn hook_type_id(t: HookType) -> int {
    match t {
        HookType::FilePreCreate => 0, HookType::FilePostCreate => 1, HookType::FilePreEdit => 2, HookType::FilePostEdit => 3,
        HookType::ChallengeHttp01 => 4, HookType::ChallengeHttp01Clean => 5, HookType::ChallengeDns01 => 6,
        HookType::ChallengeDns01Clean => 7, HookType::ChallengeTlsAlpn01 => 8, HookType::ChallengeTlsAlpn01Clean => 9,
        HookType::PostOperation => 10,
    }
}
pub uninterp spec fn hook_data_id<T>(d: T) -> int;
// set_env (macro imple_hook_data_env!): only the environment changes, with the documented precedence (assumed here)
impl HookEnvData for ChallengeHookData {
    #[verifier::external_body]
    fn set_env(&mut self, env: &HashMap<String, String>)
        ensures envmap(final(self).env) == set_env_spec(envmap(old(self).env), envmap(*env)),
            final(self).identifier == old(self).identifier, final(self).identifier_tls_alpn == old(self).identifier_tls_alpn,
            final(self).challenge == old(self).challenge, final(self).file_name == old(self).file_name, final(self).proof == old(self).proof,
            final(self).raw_proof == old(self).raw_proof, final(self).is_clean_hook == old(self).is_clean_hook,
    { unimplemented!() }
}
impl HookEnvData for PostOperationHookData {
    #[verifier::external_body]
    fn set_env(&mut self, env: &HashMap<String, String>)
        ensures envmap(final(self).env) == set_env_spec(envmap(old(self).env), envmap(*env)),
            final(self).identifiers == old(self).identifiers, final(self).key_type == old(self).key_type, final(self).status == old(self).status,
            final(self).is_success == old(self).is_success, final(self).certificate_path == old(self).certificate_path,
            final(self).private_key_path == old(self).private_key_path,
    { unimplemented!() }
}
// the hooks of whoever runs them (a certificate runs its own list - never, say, the file hooks of its file manager)
pub uninterp spec fn hooks_of<L>(l: &L) -> Seq<Hook>;
#[verifier::external_body]
pub fn call<L: HasLogger, T: HookEnvData>(logger: &L, hooks: &[Hook], data: &T, hook_type: HookType, Tracked(w): Tracked<&mut World>) -> (r: Result<(), Error>)
    requires hooks@ == hooks_of(logger), //@C05.a_certificate_runs_its_own_hooks,C10.a_certificate_runs_its_own_hooks,C07.a_certificate_runs_its_own_hooks
    ensures final(w).clock == old(w).clock, final(w).admissions == old(w).admissions, final(w).net == old(w).net,
        final(w).fs.files == old(w).fs.files, final(w).fs.modes == old(w).fs.modes,
        final(w).fs.events == old(w).fs.events.push(FsEvent::Hook { ty: hook_type_id(hook_type), data: hook_data_id(*data), ok: r is Ok }),
{ unimplemented!() }
"""

STORAGE_SPEC = """
pub uninterp spec fn file_path_spec(fm: FileManager, t: FileType) -> Seq<char>;
// whether the file has a path at all (its name template renders): defined in unit storage
pub uninterp spec fn path_ok(fm: FileManager, t: FileType) -> bool;
"""

SPEC = """
broadcast use {vstd::string::to_string_from_display_ensures_for_str, crate::stdax2::axiom_to_string_string, crate::acme_proto::axiom_challenge_to_string};
use crate::acme_proto::challenge_name;
// a certificate's own hooks are the list it was configured with
#[verifier::external_body]
pub broadcast proof fn axiom_hooks_of_certificate(c: &Certificate)
    ensures #[trigger] crate::hooks::hooks_of(c) == c.hooks@ {}
// ---- which configured entry an authorization belongs to
pub open spec fn exact_name(identifier: Seq<char>, wildcard: bool) -> Seq<char> { if wildcard { "*."@ + identifier } else { identifier } }
pub open spec fn first_exact(ids: Seq<Identifier>, name: Seq<char>, i: int) -> bool {
    0 <= i < ids.len() && ids[i].value@ == name && forall|j: int| 0 <= j < i ==> ids[j].value@ != name
}
pub proof fn lemma_first_exact_unique(ids: Seq<Identifier>, name: Seq<char>)
    ensures forall|i: int, j: int| first_exact(ids, name, i) && first_exact(ids, name, j) ==> i == j
{
    assert forall|i: int, j: int| first_exact(ids, name, i) && first_exact(ids, name, j) implies i == j by {
        if i < j { assert(ids[i].value@ != name); } else if j < i { assert(ids[j].value@ != name); }
    }
}
pub open spec fn legacy_match(d: Identifier, identifier: Seq<char>) -> bool {
    (d.id_type is Dns && crate::venv::trim_start(d.value@, "*."@) == identifier) || (d.id_type is Ip && d.value@ == identifier)
}
pub open spec fn first_legacy(ids: Seq<Identifier>, identifier: Seq<char>, i: int) -> bool {
    0 <= i < ids.len() && legacy_match(ids[i], identifier) && forall|j: int| 0 <= j < i ==> !legacy_match(ids[j], identifier)
}
pub proof fn lemma_first_legacy_unique(ids: Seq<Identifier>, identifier: Seq<char>)
    ensures forall|i: int, j: int| first_legacy(ids, identifier, i) && first_legacy(ids, identifier, j) ==> i == j
{
    assert forall|i: int, j: int| first_legacy(ids, identifier, i) && first_legacy(ids, identifier, j) implies i == j by {
        if i < j { assert(!legacy_match(ids[i], identifier)); } else if j < i { assert(!legacy_match(ids[j], identifier)); }
    }
}
// the configured entry an authorization is solved with
pub open spec fn chosen(ids: Seq<Identifier>, identifier: Seq<char>, wildcard: bool) -> Option<Identifier> {
    if exists|i: int| first_exact(ids, exact_name(identifier, wildcard), i) {
        Some(ids[choose|i: int| first_exact(ids, exact_name(identifier, wildcard), i)])
    } else if exists|i: int| first_legacy(ids, identifier, i) {
        Some(ids[choose|i: int| first_legacy(ids, identifier, i)])
    } else { None }
}
// RFC 8555 section 8 / RFC 8737 names, and the hook types that go with each challenge type
pub open spec fn start_type(c: Challenge) -> HookType {
    match c { Challenge::Http01 => HookType::ChallengeHttp01, Challenge::Dns01 => HookType::ChallengeDns01, Challenge::TlsAlpn01 => HookType::ChallengeTlsAlpn01 }
}
pub open spec fn clean_type(c: Challenge) -> HookType {
    match c { Challenge::Http01 => HookType::ChallengeHttp01Clean, Challenge::Dns01 => HookType::ChallengeDns01Clean, Challenge::TlsAlpn01 => HookType::ChallengeTlsAlpn01Clean }
}
// V.iter().map(|d| d.value.to_owned()).collect::<Vec<String>>()  (rule T-ITER): verified, a plain loop
pub fn collect_values(ids: &Vec<Identifier>) -> (r: Vec<String>)
    ensures r@.len() == ids@.len(), forall|i: int| 0 <= i < ids@.len() ==> (#[trigger] r@[i])@ == ids@[i].value@,
{
    let mut out: Vec<String> = Vec::new();
    let mut i = 0;
    while i < ids.len()
        invariant i <= ids@.len(), out@.len() == i, forall|j: int| 0 <= j < i ==> (#[trigger] out@[j])@ == ids@[j].value@,
        decreases ids@.len() - i,
    {
        out.push(ids[i].value.to_owned());
        i += 1;
    }
    out
}
// #[derive(Clone)] of Identifier / Challenge (dropped by T-ATTR), restated: a clone equals its source (trusted for the struct)
impl Clone for Identifier { #[verifier::external_body] fn clone(&self) -> (r: Self) ensures r == *self { unimplemented!() } }
impl Identifier {
    // identifier.rs::get_tls_alpn_name: reverse-DNS form for IP identifiers (iterator chain through format!; X: not under contract)
    #[verifier::external_body]
    pub fn get_tls_alpn_name(&self) -> Result<String, Error> { unimplemented!() }
}
pub open spec fn sat_sub(a: nat, b: nat) -> nat { if a >= b { (a - b) as nat } else { 0 } }
// the configured identifier values, as a set of texts
pub open spec fn val_fn() -> spec_fn(Identifier) -> Seq<char> { |d: Identifier| d.value@ }
pub open spec fn id_values(ids: Seq<Identifier>) -> Set<Seq<char>> { ids.map_values(val_fn()).to_set() }
"""
