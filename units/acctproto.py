"""acme_proto/account.rs: the three account requests (newAccount, contact update, key roll-over), proved against the
contracts that unit `account` uses for them.  Serves C11 (and the account half of C04: which key signs which request)."""
import re
from unit import Unit, FnSpec
import account as acc

PA = "acmed/src/acme_proto/account.rs"
AP = "acmed/src/acme_proto.rs"
A = "acmed/src/account.rs"


def build():
    au = acc.build()
    method_specs = {}
    for p in au.pieces:
        if p.relpath == A and p.spec.startswith("Account::") and p.mode == "verify":
            method_specs.update(p.fnspecs)
    sigs = acc.proto_sigs()
    u = Unit("acctproto", "acmed")
    u.prelude("err", "log", "stdx", "time")
    u.raw("", acc.WORLD, trusted=True)
    u.ghost_call("new_account", quals=("http",))
    u.ghost_call("post_jose_no_response", quals=("http",))
    u.ghost_call("register_account", quals=("",))
    u.ghost_call("save", method=True)
    u.drop_derives = {"Debug", "Clone", "Hash", "PartialEq"}
    u.macro(AP, "set_data_builder_sync")
    u.macro(PA, "create_account_if_does_not_exist")
    u.module("logs", "")
    u.take("acmed/src/logs.rs", "HasLogger", "logs")
    u.module("account", "use crate::*;\nuse crate::shims::*;\nuse crate::logs::HasLogger;\nuse crate::acme_common::error::Error;\n"
             "use std::collections::HashMap;\nuse std::time::SystemTime;")
    u.raw("account", "pub mod contact { use vstd::prelude::*; verus! { pub struct AccountContact { pub opaque: u8 } impl Clone for AccountContact { fn clone(&self) -> (r: Self) ensures r == *self { AccountContact { opaque: self.opaque } } } #[verifier::external] impl std::fmt::Display for AccountContact { fn fmt(&self, f: &mut std::fmt::Formatter) -> std::fmt::Result { Ok(()) } } } }\n", trusted=True)
    for t in ["ExternalAccount", "AccountKey", "AccountEndpoint", "Account"]:
        u.take(A, t, "account")
    u.stub(A, "impl HasLogger for Account", "account")
    u.raw("account", acc.SPEC)
    u.raw("account", acc.STUBS, trusted=True)
    u.raw("account", "impl Clone for Account { #[verifier::external_body] fn clone(&self) -> (r: Self) ensures r == *self { unimplemented!() } }\n", trusted=True)
    # the methods of Account used here: contracts only, the same text that unit `account` verifies
    for name in ["get_endpoint", "get_past_key", "set_account_url", "set_orders_url", "update_key_hash", "update_contacts_hash", "update_external_account_hash"]:
        u.stub(A, f"Account::{name}", "account", fns={name: method_specs[name]})
    u.module("acme_proto", "")
    u.module("acme_proto::structs_error", "")
    u.take("acmed/src/acme_proto/structs/error.rs", "AcmeError", "acme_proto::structs_error")
    u.raw("", open(__import__("os").path.join(__import__("os").path.dirname(__file__), "..", "prelude", "acct_shims.rs")).read(), trusted=True)
    u.module("acme_proto", "")
    u.module("acme_proto::account", "use crate::*;\nuse crate::account::*;\nuse crate::account::Account as BaseAccount;\nuse crate::pshims::*;\nuse crate::pshims::http;\n"
             "use crate::pshims::serde_json;\nuse crate::pshims::structs::{Account, AccountKeyRollover, AccountUpdate, AcmeError};\nuse crate::shims::*;\n"
             "use crate::pshims::jws::{encode_jwk, encode_kid};\nuse crate::logs::HasLogger;\nuse crate::acme_common::error::Error;")
    u.raw("acme_proto::account", "broadcast use crate::pshims::group_jws;")
    fix = lambda s: s.replace("Account", "BaseAccount") if False else s
    u.verify(PA, "register_account", "acme_proto::account", props=["C11", "C04"], fns={"register_account": FnSpec(ret="r", ghost=True, sig=sigs["register_account"] + """
        // (the request is signed by the account's current key and carries the account's contacts: see the builder below)
""", rewrites=[("T-CLOSURE", r"\|n: &str, url: &str\| \{\s*encode_jwk\(", "|n: &str, url: &str| -> (jws__: Result<String, Error>)\n"
                "    ensures jws__ matches Ok(s__) ==> jwk_request(s__@, *kp_ref, crate::utf8_bytes(acc_ref@), url@, Some(n@)) && signed_with(s__@, alg0__) //@C04.new_account_is_signed_by_the_account_key_over_the_account_object,C11.new_account_is_signed_by_the_account_key_over_the_account_object\n{\n\t\tencode_jwk(")],
        at=[("before_stmt", "let data_builder", 1, "let ghost alg0__ = account.current_key.signature_algorithm;")])})
    u.verify(PA, "update_account_contacts", "acme_proto::account", props=["C11", "C04"], fns={"update_account_contacts": FnSpec(ret="r", ghost=True, sig=sigs["update_account_contacts"],
        rewrites=[("T-ITER", r"account\.contacts\.iter\(\)\.map\(\|c\| c\.to_string\(\)\)\.collect\(\)", "crate::pshims::contacts_to_strings(&account.contacts)"),
                  ("T-CLOSURE", r"move \|n: &str, url: &str\| \{\s*encode_kid\(", "move |n: &str, url: &str| -> (jws__: Result<String, Error>)\n"
                   "    ensures jws__ matches Ok(s__) ==> kid_builder_ok(s__@, &account_owned, endpoint_name@, crate::utf8_bytes(acc_up_struct@), url@, n@) //@C04.contact_update_is_signed_by_the_current_key_with_the_account_url,C11.contact_update_is_signed_by_the_current_key_with_the_account_url\n{\n\t\t\tencode_kid(")],
        at=[("before_stmt", "let data_builder", 1, "let ghost ao__ = account_owned;"),
            ("opt:before_stmt_re", r"account\.update_contacts_hash\(", 1, """
    proof {
        // the stored fingerprint of the contacts the CA holds is refreshed only once the CA has taken the update
        assert(w.ca_contacts == crate::account::contacts_fp(account.contacts@)); //@C11.stored_contacts_fingerprint_never_runs_ahead_of_the_ca
    }""")])})
    u.verify(PA, "update_account_key", "acme_proto::account", props=["C11", "C04"], fns={"update_account_key": FnSpec(ret="r", ghost=True, sig=sigs["update_account_key"],
        rewrites=[("T-CLOSURE", r"\|n: &str, url: &str\| \{\s*encode_kid\(", "|n: &str, url: &str| -> (jws__: Result<String, Error>)\n"
                   "    ensures jws__ matches Ok(s__) ==> kid_request(s__@, *old_key, account_url@, crate::utf8_bytes(rollover_payload@), url@, n@) && signed_with(s__@, old_alg0__) //@C04.key_change_outer_jws_is_signed_by_the_old_key,C11.key_change_outer_jws_is_signed_by_the_old_key\n{\n\t\tencode_kid(")],
        at=[("before_stmt", "let data_builder", 1, "let ghost old_alg0__ = old_account_key.signature_algorithm;"),
            ("opt:before_stmt_re", r"account\.update_key_hash\(", 1, """
    proof {
        // the stored fingerprint of the key the CA holds is refreshed only once the CA has taken the new key: it never runs ahead of a
        // roll-over the CA has not accepted (the next requests would be signed by a key the CA does not know)
        assert(w.ca_key == crate::account::key_fp(account.current_key)); //@C11.stored_key_fingerprint_never_runs_ahead_of_the_ca,C04.stored_key_fingerprint_never_runs_ahead_of_the_ca
    }""")])})
    return u
