"""U4b - time to expiry (acme_common/src/crypto/openssl_certificate.rs::expires_in).  Serves C06."""
from unit import Unit, FnSpec

X = "acme_common/src/crypto/openssl_certificate.rs"


def build():
    u = Unit("x509time", "acme_common")
    u.prelude("stdx", "time", "ac_shims")
    u.module("crypto", "use crate::*;\nuse crate::error::Error;\nuse crate::openssl::asn1::Asn1Time;\nuse crate::openssl::x509::X509;\nuse std::time::Duration;")
    u.take(X, "X509Certificate", "crypto")
    u.verify(X, "X509Certificate::expires_in", "crypto", props=["C06"], fns={"expires_in": FnSpec(ret="r", sig="""
    ensures
        // seconds from now to notAfter, never negative, for every (days, secs) OpenSSL can return - no overflow
        r matches Ok(d) ==> dur(d) == (if self.inner_cert.not_after.t@ > crate::openssl::asn1::wall_now() {
                (self.inner_cert.not_after.t@ - crate::openssl::asn1::wall_now()) as nat } else { 0nat }) * 1_000_000_000, //@C06.expires_in_exact_and_non_negative
""")})
    u.verify(X, "X509Certificate::from_pem", "crypto", props=["C06", "C03"], fns={"from_pem": FnSpec(ret="r", sig="""
    ensures
        // the certificate that is examined (names, expiry) is the leaf: the first certificate of the file
        r matches Ok(c) ==> crate::openssl::x509::certs_of_pem(pem_data@).len() > 0 && crate::openssl::x509::certs_of_pem(pem_data@)[0] == c.inner_cert, //@C06.the_certificate_examined_is_the_first_of_the_file,C03.the_certificate_examined_is_the_first_of_the_file
""")})
    u.raw("crypto", SAN_SPEC)
    u.raw("crypto", SAN_TRUSTED, trusted=True)

    def chain(m):
        # both closures keep their real bodies; what the set that comes out relies on is stated as their ensures clauses
        f = f"|{m.group('fp')}: &&GeneralName| -> (b__: bool)\n    ensures b__ == (({m.group('fp')}).dns@ is Some || ({m.group('fp')}).ip@ is Some) //@C06.san_names_are_every_dns_and_ip_entry_as_text\n {{ {m.group('fb')} }}"
        g = f"|{m.group('gp')}: &GeneralName| -> (s__: String)\n    ensures s__@ == san_text(*{m.group('gp')}) //@C06.san_names_are_every_dns_and_ip_entry_as_text\n {{ {m.group('gb')} }}"
        return f"crate::crypto::filter_map_to_set(&{m.group('s')}.v, {f}, {g})"
    u.verify(X, "X509Certificate::subject_alt_names", "crypto", props=["C06"], fns={"subject_alt_names": FnSpec(ret="r",
        body_start="broadcast use {crate::axiom_ip_to_string, vstd::string::to_string_from_display_ensures_for_str};", sig="""
    ensures
        // every dNSName and every iPAddress entry of the subjectAltName extension, as text (an address in its canonical form) - and nothing else
        forall|x: Seq<char>| strset(r).contains(x) <==> (self.inner_cert.san@ matches Some(s)
            && exists|i: int| 0 <= i < s.len() && ((#[trigger] s[i]).dns@ is Some || s[i].ip@ is Some) && san_text(s[i]) == x), //@C06.san_names_are_every_dns_and_ip_entry_as_text
""", rewrites=[
        ("T-ITER", r"(?s)\b(?P<s>\w+)\s*\.iter\(\)\s*\.filter\(\|(?P<fp>\w+)\|\s*(?P<fb>[^{}]*?)\)\s*\.map\(\|(?P<gp>\w+)\|\s*(?P<gb>match .*\})\s*\)\s*\.collect\(\)", chain, 1),
        ("T-ITER", r"HashSet::new\(\)", "crate::crypto::empty_string_set()", None),
    ])})
    return u


SAN_SPEC = """
use crate::openssl::x509::GeneralName;
use std::collections::HashSet;
use std::net::IpAddr;
pub open spec fn san_text(g: GeneralName) -> Seq<char> {
    match g.dns@ {
        Some(d) => d,
        None => match g.ip@ {
            Some(i) => if i.len() == 4 || i.len() == 16 { crate::ip_text(crate::ip_from_octets(i)) } else { Seq::<char>::empty() },
            None => Seq::<char>::empty(),
        },
    }
}
"""

SAN_TRUSTED = """
// the set of texts a HashSet<String> holds
pub uninterp spec fn strset(h: HashSet<String>) -> Set<Seq<char>>;
#[verifier::external_body]
pub fn empty_string_set() -> (r: HashSet<String>) ensures strset(r) == Set::<Seq<char>>::empty() { unimplemented!() }
// V.iter().filter(F).map(G).collect() into a HashSet<String>   (rule T-ITER): F is asked about every element (fm_kept .. [i] is
// its answer), G is applied to the kept ones (fm_imgs .. [i] is what it gave), the set holds the texts of those
pub uninterp spec fn fm_kept<T>(v: Seq<T>, r: HashSet<String>) -> Seq<bool>;
pub uninterp spec fn fm_imgs<T>(v: Seq<T>, r: HashSet<String>) -> Seq<String>;
#[verifier::external_body]
pub fn filter_map_to_set<T, F: Fn(&&T) -> bool, G: Fn(&T) -> String>(v: &Vec<T>, f: F, g: G) -> (r: HashSet<String>)
    requires forall|i: int| 0 <= i < v@.len() ==> f.requires((&&#[trigger] v@[i],)) && g.requires((&v@[i],)),
    ensures
        fm_kept(v@, r).len() == v@.len() && fm_imgs(v@, r).len() == v@.len(),
        forall|i: int| #![trigger v@[i]] #![trigger fm_kept(v@, r)[i]] 0 <= i < v@.len() ==> f.ensures((&&v@[i],), fm_kept(v@, r)[i]),
        forall|i: int| #![trigger v@[i]] #![trigger fm_imgs(v@, r)[i]] 0 <= i < v@.len() && fm_kept(v@, r)[i] ==> g.ensures((&v@[i],), fm_imgs(v@, r)[i]),
        forall|x: Seq<char>| #[trigger] strset(r).contains(x) <==> (exists|i: int| 0 <= i < v@.len() && #[trigger] fm_kept(v@, r)[i] && fm_imgs(v@, r)[i]@ == x),
{ unimplemented!() }
"""
