"""U4b - time to expiry (acme_common/src/crypto/openssl_certificate.rs::expires_in).  Serves C06."""
from unit import Unit, FnSpec

X = "acme_common/src/crypto/openssl_certificate.rs"


def build():
    u = Unit("x509time", "acme_common")
    u.prelude("stdx", "time", "ac_shims")
    u.module("crypto", "use crate::*;\nuse crate::error::Error;\nuse crate::openssl::asn1::Asn1Time;\nuse crate::openssl::x509::X509;\nuse std::time::Duration;")
    u.take(X, "X509Certificate", "crypto")
    u.verify(X, "X509Certificate::expires_in", "crypto", props=["C06"], fns={"expires_in": FnSpec(ret="r", sig="""
    ensures
        // seconds from now to notAfter, never negative, for every (days, secs) OpenSSL can return - no overflow
        r matches Ok(d) ==> dur(d) == (if self.inner_cert.not_after.t@ > crate::openssl::asn1::wall_now() {
                (self.inner_cert.not_after.t@ - crate::openssl::asn1::wall_now()) as nat } else { 0nat }) * 1_000_000_000, //@C06.expires_in_exact_and_non_negative
""")})
    return u
