"""U13 - identifiers and the newOrder payload (acmed/src/identifier.rs, acme_proto/structs/order.rs, acme_proto.rs).  Serves C01 and C05."""
from unit import Unit, FnSpec

I = "acmed/src/identifier.rs"
O = "acmed/src/acme_proto/structs/order.rs"
AP = "acmed/src/acme_proto.rs"


def build():
    u = Unit("ident", "acmed")
    u.prelude("err", "stdx", "time", "ident_shims")
    u.drop_derives = {"Debug", "Clone", "Copy", "Eq"}
    u.module("acme_proto", "use crate::*;\nuse crate::acme_common::error::Error;")
    u.take(AP, "Challenge", "acme_proto", keep_derives=("PartialEq",))
    u.raw("acme_proto", AP_SPEC)
    u.verify(AP, "Challenge::from_str", "acme_proto", props=["C05"], fns={"from_str": FnSpec(ret="r", sig="""
    ensures match r {
        Ok(c) => challenge_of(crate::vident::lower(s@)) == Some(c),
        Err(_) => challenge_of(crate::vident::lower(s@)) is None,
    }, //@C05.challenge_names
""", rewrites=[("T-STR", r"s\.to_lowercase\(\)", "crate::vident::str_to_lowercase(s)")])})
    u.module("identifier", "use crate::*;\nuse crate::acme_proto::Challenge;\nuse crate::acme_common::error::Error;\n"
             "use crate::vident::{to_idna, IpAddr};\nuse crate::acme_proto::challenge_of;\nuse std::collections::HashMap;")
    u.take(I, "IdentifierType", "identifier", keep_derives=("PartialEq",))
    u.take(I, "Identifier", "identifier")
    u.raw("identifier", ID_SPEC)
    u.verify(I, "IdentifierType::supported_challenges", "identifier", props=["C05"], fns={"supported_challenges": FnSpec(ret="r", sig="""
    ensures r@ == supported(*self), //@C05.challenge_types_per_identifier_type
""")})
    u.verify(I, "Identifier::new", "identifier", props=["C01", "C05"], fns={"new": FnSpec(ret="r", sig="""
    ensures
        // DNS names are stored as lowercase A-labels (to_idna), IP addresses in canonical text form;
        // the challenge must be one the identifier type supports
        r matches Ok(id) ==> id.id_type == id_type
            && (id_type is Dns ==> crate::vident::idna_spec(value@) == Some(id.value@))
            && (id_type is Ip ==> crate::vident::ip_canon(value@) == Some(id.value@)), //@C01.identifier_value_is_normalised,C06.identifier_value_is_normalised
        r matches Ok(id) ==> challenge_of(crate::vident::lower(challenge@)) == Some(id.challenge)
            && supported(id_type).contains(id.challenge), //@C05.configured_challenge_is_supported
""", rewrites=[("T-ITER", r"(?P<v>id_type\.supported_challenges\(\)|\w+)\.contains\(&challenge\)", lambda m: f"crate::identifier::vec_contains(&{m.group('v')}, &challenge)"),
               ("T-FMT", r"format!\(\"challenge \{challenge\} cannot be used with identifier of type \{id_type\}\"\)", "crate::opaque_string()")])})
    u.module("acme_proto::structs", "use crate::*;\nuse crate::identifier::{self, IdentifierType};\nuse crate::acme_common::error::Error;")
    u.take(O, "NewOrder", "acme_proto::structs")
    u.take(O, "Identifier", "acme_proto::structs")
    u.raw("acme_proto::structs", ORDER_SPEC)
    u.verify(O, "Identifier::from_generic", "acme_proto::structs", props=["C01"], fns={"from_generic": FnSpec(ret="r", sig="""
    ensures r.id_type == id.id_type && r.value@ == id.value@, //@C01.order_identifier_is_the_configured_one
""")})
    u.verify(O, "NewOrder::new", "acme_proto::structs", props=["C01"], fns={"new": FnSpec(ret="r", sig="""
    ensures
        // the newOrder payload lists exactly the configured identifiers, in order, and asks for no validity period
        r.identifiers@.len() == identifiers@.len(),
        forall|i: int| 0 <= i < identifiers@.len() ==> (#[trigger] r.identifiers@[i]).id_type == identifiers@[i].id_type
            && r.identifiers@[i].value@ == identifiers@[i].value@, //@C01.new_order_lists_exactly_the_configured_identifiers
        r.not_before is None && r.not_after is None, //@C01.new_order_has_no_validity_request
""", rewrites=[("T-ITER", r"identifiers\.iter\(\)\.map\(Identifier::from_generic\)\.collect\(\)", "crate::acme_proto::structs::map_from_generic(identifiers)")])})
    return u


AP_SPEC = """
broadcast use crate::stdax::axiom_str_ext;
// RFC 8555 section 8 / RFC 8737: the three challenge type names
pub open spec fn challenge_of(s: Seq<char>) -> Option<Challenge> {
    if s == "http-01"@ { Some(Challenge::Http01) } else if s == "dns-01"@ { Some(Challenge::Dns01) }
    else if s == "tls-alpn-01"@ { Some(Challenge::TlsAlpn01) } else { None }
}
impl vstd::std_specs::cmp::PartialEqSpecImpl for Challenge {
    open spec fn obeys_eq_spec() -> bool { true }
    open spec fn eq_spec(&self, other: &Challenge) -> bool { *self == *other }
}
impl Clone for Challenge { fn clone(&self) -> (r: Self) ensures r == *self { match self { Challenge::Http01 => Challenge::Http01, Challenge::Dns01 => Challenge::Dns01, Challenge::TlsAlpn01 => Challenge::TlsAlpn01 } } }
impl Copy for Challenge {}
impl std::fmt::Display for Challenge { #[verifier::external_body] fn fmt(&self, f: &mut std::fmt::Formatter) -> std::fmt::Result { unimplemented!() } }
"""

ID_SPEC = """
// RFC 8555 / RFC 8738: dns-01 cannot validate an IP address
pub open spec fn supported(t: IdentifierType) -> Seq<Challenge> {
    match t {
        IdentifierType::Dns => seq![Challenge::Http01, Challenge::Dns01, Challenge::TlsAlpn01],
        IdentifierType::Ip => seq![Challenge::Http01, Challenge::TlsAlpn01],
    }
}
impl Clone for IdentifierType { fn clone(&self) -> (r: Self) ensures r == *self { match self { IdentifierType::Dns => IdentifierType::Dns, IdentifierType::Ip => IdentifierType::Ip } } }
impl std::fmt::Display for IdentifierType { #[verifier::external_body] fn fmt(&self, f: &mut std::fmt::Formatter) -> std::fmt::Result { unimplemented!() } }
// Vec<Challenge>::contains  (rule T-ITER): verified, a plain loop over the derived equality
pub fn vec_contains(v: &Vec<Challenge>, c: &Challenge) -> (r: bool)
    ensures r == v@.contains(*c)
{
    let mut i = 0;
    while i < v.len()
        invariant i <= v@.len(), forall|j: int| 0 <= j < i ==> v@[j] != *c,
        decreases v@.len() - i,
    {
        if v[i] == *c { return true; }
        i += 1;
    }
    false
}
"""

ORDER_SPEC = """
// V.iter().map(Identifier::from_generic).collect()  (rule T-ITER): verified, element by element through from_generic
pub fn map_from_generic(ids: &[identifier::Identifier]) -> (r: Vec<Identifier>)
    ensures r@.len() == ids@.len(),
        forall|i: int| 0 <= i < ids@.len() ==> (#[trigger] r@[i]).id_type == ids@[i].id_type && r@[i].value@ == ids@[i].value@,
{
    let mut out: Vec<Identifier> = Vec::new();
    let mut i = 0;
    while i < ids.len()
        invariant i <= ids@.len(), out@.len() == i,
            forall|j: int| 0 <= j < i ==> (#[trigger] out@[j]).id_type == ids@[j].id_type && out@[j].value@ == ids@[j].value@,
        decreases ids@.len() - i,
    {
        out.push(Identifier::from_generic(&ids[i]));
        i += 1;
    }
    out
}
"""
