"""acmed/src/config.rs - from the configuration structures to the run-time objects: what a certificate's key type, digest,
identifiers, key re-use flag, name and subject become, and what an account is loaded with.
Serves C01 (identifiers, digest, subject of the CSR are the configured ones), C05 (each identifier carries its configured challenge),
C02 (key type / re-use), C11 (the account is loaded with the configured contacts, key type, algorithm and binding), C14 (the documented
certificate name), C19 (no configuration content makes these panic)."""
import re
from unit import Unit, FnSpec

C = "acmed/src/config.rs"
MAIN = "acmed/src/main.rs"

PARSE = ("T-PARSE", r"\b(?P<v>\w+)\s*\.parse\(\)", r"crate::shims::parse_named(\g<v>)", None)
SUBJECT_FIELDS = [("country_name", "CountryName"), ("generation_qualifier", "GenerationQualifier"), ("given_name", "GivenName"),
                  ("initials", "Initials"), ("locality_name", "LocalityName"), ("name", "Name"), ("organization_name", "OrganizationName"),
                  ("organizational_unit_name", "OrganizationalUnitName"), ("pkcs9_email_address", "Pkcs9EmailAddress"),
                  ("postal_address", "PostalAddress"), ("postal_code", "PostalCode"), ("state_or_province_name", "StateOrProvinceName"),
                  ("street", "Street"), ("surname", "Surname"), ("title", "Title")]


def build():
    u = Unit("cfgwire", "acmed")
    u.prelude("err", "log", "stdx", "time", "cfgwire_shims")
    u.drop_derives = {"Debug", "Eq", "Hash", "PartialEq", "Clone", "Default"}
    u.module("", "use crate::shims::{KeyType, HashFunction, JwsSignatureAlgorithm};")
    for cst in ["DEFAULT_CERT_KEY_TYPE", "DEFAULT_CSR_DIGEST", "DEFAULT_KP_REUSE", "DEFAULT_EXTERNAL_ACCOUNT_JWA"]:
        u.take(MAIN, cst, "")
    u.module("config", "use crate::*;\nuse crate::shims::*;\nuse crate::acme_common::error::Error;")
    for t in ["ExternalAccount", "Account", "AccountContact", "Certificate", "Identifier", "SubjectAttributes"]:
        u.take(C, t, "config")
    u.raw("config", SPEC)
    u.raw("config", """
// the built-in defaults are the documented ones (acmed.toml(5))
pub proof fn documented_defaults()
    ensures
        crate::DEFAULT_KP_REUSE == false, //@C02.by_default_a_new_key_is_generated_for_every_certificate,C03.by_default_a_new_key_is_generated_for_every_certificate
        crate::DEFAULT_CSR_DIGEST == HashFunction::Sha256, //@C01.default_csr_digest_is_sha256
        crate::DEFAULT_CERT_KEY_TYPE == KeyType::Rsa2048, //@C02.default_certificate_key_type_is_rsa2048,C14.default_certificate_key_type_is_rsa2048
        crate::DEFAULT_EXTERNAL_ACCOUNT_JWA == JwsSignatureAlgorithm::Hs256, //@C04.default_external_binding_algorithm_is_hs256,C11.default_external_binding_algorithm_is_hs256
{}
""")
    u.raw("config", TRUSTED, trusted=True)
    u.macro(C, "push_subject_attr")
    V = lambda spec, fn, props, fs: u.verify(C, spec, "config", props=props, fns={fn: fs})
    V("Certificate::get_key_type", "get_key_type", ["C02", "C14"], FnSpec(ret="r", rewrites=[PARSE], sig="""
    ensures match r { Ok(k) => key_type_of(*self) == Some(k), Err(_) => key_type_of(*self) is None }, //@C02.key_type_is_the_configured_one_or_the_default,C14.key_type_is_the_configured_one_or_the_default
"""))
    V("Certificate::get_csr_digest", "get_csr_digest", ["C01"], FnSpec(ret="r", rewrites=[PARSE], sig="""
    ensures match r { Ok(k) => csr_digest_of(*self) == Some(k), Err(_) => csr_digest_of(*self) is None }, //@C01.csr_digest_is_the_configured_one_or_the_default
"""))
    V("Certificate::get_kp_reuse", "get_kp_reuse", ["C02"], FnSpec(ret="r", sig="""
    ensures r == (match self.kp_reuse { Some(b) => b, None => crate::DEFAULT_KP_REUSE }), //@C02.key_reuse_is_the_configured_one_or_the_default
"""))
    V("Identifier::to_generic", "to_generic", ["C01", "C05"], FnSpec(ret="r", sig="""
    ensures match r { Ok(i) => ident_of(*self) == Some(i), Err(_) => ident_of(*self) is None }, //@C01.identifier_is_built_from_the_configured_name_and_type,C05.identifier_carries_its_configured_challenge
"""))
    # the check serde runs on every [[certificate.identifiers]] entry (the derived reader of the fields is serde's: Identifier::deserialize of
    # `#[serde(remote = "Self")]`, a stub here): an entry is taken only with exactly one of `dns` and `ip`
    V("impl <'de> Deserialize<'de> for Identifier", "deserialize", ["C01", "C19"], FnSpec(ret="r", rewrites=[
        ("T-ITER", r"\[(?P<a>[^\[\],]+),\s*(?P<b>[^\[\],]+)\]\s*\.iter\(\)\s*\.copied\(\)\s*\.map\(u8::from\)\s*\.sum\(\)", r"crate::shims::count_true2(\g<a>, \g<b>)", None)], sig="""
    ensures r matches Ok(i) ==> (i.dns is Some) != (i.ip is Some), //@C01.an_identifier_entry_names_exactly_one_of_dns_and_ip,C19.an_identifier_entry_names_exactly_one_of_dns_and_ip
"""))
    V("Certificate::get_identifiers", "get_identifiers", ["C01", "C05"], FnSpec(ret="r", sig="""
    ensures
        r matches Ok(v) ==> v@.len() == self.identifiers@.len()
            && forall|i: int| 0 <= i < v@.len() ==> ident_of(self.identifiers@[i]) == Some(#[trigger] v@[i]), //@C01.every_configured_identifier_in_order,C05.every_configured_identifier_in_order
        r is Err ==> exists|i: int| 0 <= i < self.identifiers@.len() && ident_of(#[trigger] self.identifiers@[i]) is None,
""", loops={1: """
    invariant ret@.len() == it1.index@,
        forall|i: int| 0 <= i < ret@.len() ==> ident_of(self.identifiers@[i]) == Some(#[trigger] ret@[i]),
"""}, rewrites=[("T-ITER", r"for id in self\.identifiers\.iter\(\)", "for id in it1: self.identifiers.iter()", 1)]))
    V("Certificate::get_crt_name", "get_crt_name", ["C14", "C19"], FnSpec(ret="r", body_start="broadcast use crate::config::axiom_ident_to_string;", rewrites=[
        ("T-CLOSURE", r"\.ok_or_else\(\|\| Error::from\((?P<m>\"[^\"]*\")\)\)", r".ok_or(Error::from(\g<m>))", None),
    ], sig="""
    ensures
        // acmed.toml(5): the configured name, by default the first identifier; `*`, `:` and `/` are replaced by an underscore
        match r { Ok(s) => base_name(*self) matches Some(b) && s@ == crate::strext::replace_chars_spec(b, seq!['*', ':', '/'], "_"@),
                  Err(_) => base_name(*self) is None }, //@C14.certificate_name_is_the_configured_one_or_the_first_identifier
"""))
    V("AccountContact::get_type", "get_type", ["C11"], FnSpec(ret="r", sig="    ensures r@ == \"mailto\"@,\n"))
    V("AccountContact::get_value", "get_value", ["C11"], FnSpec(ret="r", sig="    ensures r@ == self.mailto@,\n"))
    V("ExternalAccount::to_generic", "to_generic", ["C11", "C04"], FnSpec(ret="r", rewrites=[
        PARSE], sig="""
    ensures
        r matches Ok(e) ==> e.identifier@ == self.identifier@ && b64_dec(self.key@) == Some(e.key@)
            && eab_alg_of(*self) == Some(e.signature_algorithm)
            && (e.signature_algorithm is Hs256 || e.signature_algorithm is Hs384 || e.signature_algorithm is Hs512), //@C11.external_binding_is_the_configured_one,C04.external_binding_is_the_configured_one
"""))
    V("Account::to_generic", "to_generic", ["C11"], FnSpec(ret="r", rewrites=[
        ("T-ITER", r"self\s*\.contacts\s*\.iter\(\)\s*\.map\(\|e\| \(e\.get_type\(\), e\.get_value\(\)\)\)\s*\.collect\(\)",
         "crate::shims::map_collect(&self.contacts, |e: &AccountContact| -> (p: (String, String)) ensures p.0@ == \"mailto\"@ && p.1@ == e.mailto@ { (e.get_type(), e.get_value()) })", 1)],
        sig="""
    ensures
        // the account is loaded (and from then on kept in step) with exactly what the configuration says
        r matches Ok(a) ==> a.loaded@.fm == *file_manager && a.loaded@.name == self.name@
            && a.loaded@.contacts == self.contacts@.map_values(|c: AccountContact| ("mailto"@, c.mailto@))
            && a.loaded@.key_type == crate::account::opt_text(self.key_type) && a.loaded@.signature_algorithm == crate::account::opt_text(self.signature_algorithm)
            && (match self.external_account { Some(x) => a.loaded@.external_account matches Some(e) && e.identifier@ == x.identifier@ && b64_dec(x.key@) == Some(e.key@) && eab_alg_of(x) == Some(e.signature_algorithm),
                                              None => a.loaded@.external_account is None }), //@C11.the_account_is_loaded_with_what_the_configuration_says
""", at=[("before_stmt", "crate::account::Account::load(", 1, """
        proof {
            assert(crate::account::pairs_text(contacts@) =~= self.contacts@.map_values(|c: AccountContact| ("mailto"@, c.mailto@)));
        }""")]))
    V("SubjectAttributes::to_generic", "to_generic", ["C01"], FnSpec(ret="r", sig="""
    ensures r@ == subject_map(*self), //@C01.subject_attributes_are_the_configured_ones
"""))
    return u


SPEC = """
broadcast use {crate::stdax2::axiom_to_string_string, vstd::string::to_string_from_display_ensures_for_str};
pub open spec fn key_type_of(c: Certificate) -> Option<KeyType> {
    match c.key_type { Some(a) => key_type_named(a@), None => Some(crate::DEFAULT_CERT_KEY_TYPE) }
}
pub open spec fn csr_digest_of(c: Certificate) -> Option<HashFunction> {
    match c.csr_digest { Some(a) => hash_named(a@), None => Some(crate::DEFAULT_CSR_DIGEST) }
}
pub open spec fn eab_alg_of(x: ExternalAccount) -> Option<JwsSignatureAlgorithm> {
    match x.signature_algorithm { Some(a) => jwa_named(a@), None => Some(crate::DEFAULT_EXTERNAL_ACCOUNT_JWA) }
}
// the run-time identifier of a configured one: a DNS name if `dns` is given, else the IP address, with its challenge and environment
pub open spec fn ident_of(i: Identifier) -> Option<crate::identifier::Identifier> {
    match i.dns {
        Some(d) => crate::identifier::ident_new(IdentifierType::Dns, d@, i.challenge@, i.env),
        None => match i.ip { Some(a) => crate::identifier::ident_new(IdentifierType::Ip, a@, i.challenge@, i.env), None => None },
    }
}
pub open spec fn ident_text(i: Identifier) -> Seq<char> {
    match i.dns { Some(d) => d@, None => match i.ip { Some(a) => a@, None => Seq::<char>::empty() } }
}
pub open spec fn base_name(c: Certificate) -> Option<Seq<char>> {
    match c.name { Some(n) => Some(n@), None => if c.identifiers@.len() > 0 { Some(ident_text(c.identifiers@[0])) } else { None } }
}
pub open spec fn opt_ins(m: Map<SubjectAttribute, String>, o: Option<String>, a: SubjectAttribute) -> Map<SubjectAttribute, String> {
    match o { Some(v) => m.insert(a, v), None => m }
}
pub open spec fn subject_map(s: SubjectAttributes) -> Map<SubjectAttribute, String> {
    let m = Map::<SubjectAttribute, String>::empty();
""" + "".join(f"    let m = opt_ins(m, s.{f}, SubjectAttribute::{a});\n" for f, a in SUBJECT_FIELDS) + """    m
}
"""

TRUSTED = """
// serde: the derived field reader of `#[serde(remote = "Self")]` (an inherent function), and a custom error
impl Identifier {
    #[verifier::external_body]
    pub fn deserialize<'de, D: Deserializer<'de>>(deserializer: D) -> (r: Result<Identifier, D::Error>) { unimplemented!() }
}

// impl fmt::Display for Identifier (config.rs): the dns name, else the ip address, else nothing
#[verifier::external]
impl std::fmt::Display for Identifier { fn fmt(&self, f: &mut std::fmt::Formatter) -> std::fmt::Result { Ok(()) } }
#[verifier::external_body]
pub broadcast proof fn axiom_ident_to_string(i: &Identifier, r: String)
    ensures #[trigger] vstd::string::to_string_from_display_ensures::<Identifier>(i, r) ==> r@ == ident_text(*i) {}
"""
