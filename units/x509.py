"""U12 - CSR and the tls-alpn-01 certificate (acme_common/src/crypto/openssl_certificate.rs).  Serves C01 and C16."""
from unit import Unit, FnSpec

X = "acme_common/src/crypto/openssl_certificate.rs"
CR = "acme_common/src/crypto.rs"


# the three loops of Csr::new, named by what they iterate over (a contract keyed this way follows its loop when blocks are moved)
L1, L2, L3 = r"in subject_attributes\b", r"in domains\b", r"in ips\b"


def build():
    u = Unit("x509", "acme_common")
    u.prelude("stdx", "time", "ac_shims", "vmap")
    u.drop_derives = {"Debug", "Clone", "Copy"}
    u.module("crypto", "use crate::*;\nuse crate::error::Error;\nuse crate::openssl::pkey::{PKey, Private};\nuse crate::openssl::nid::Nid;")
    for cst in ["APP_ORG", "APP_NAME", "X509_VERSION", "CRT_SERIAL_NB_BITS", "INVALID_EXT_MSG", "CRT_NB_DAYS_VALIDITY"]:
        u.take(CR, cst, "crypto")
    u.take(CR, "BaseSubjectAttribute", "crypto", keep_derives=("Eq", "Hash", "PartialEq", "Clone", "Copy"))
    u.take(CR, "BaseHashFunction", "crypto", keep_derives=("PartialEq", "Clone", "Copy"))
    u.take("acme_common/src/crypto/key_type.rs", "KeyType", "crypto", keep_derives=("PartialEq", "Clone", "Copy"))
    u.take("acme_common/src/crypto/openssl_keys.rs", "KeyPair", "crypto")
    u.raw("crypto", CRYPTO_TRUSTED, trusted=True)
    u.verify("acme_common/src/crypto/openssl_subject_attribute.rs", "SubjectAttribute::get_nid", "crypto", props=["C01"], fns={"get_nid": FnSpec(ret="r", sig="""
    ensures r == nid_of(*self), //@C01.each_subject_attribute_is_written_under_its_own_attribute_type
""")})
    u.module("crypto::openssl_certificate", "use crate::*;\nuse super::*;\nuse super::{gen_keypair, KeyPair, KeyType, SubjectAttribute};\n"
             "use crate::crypto::HashFunction;\nuse crate::error::Error;\nuse crate::openssl::asn1::Asn1Time;\n"
             "use crate::openssl::bn::{BigNum, MsbOption};\nuse crate::openssl::hash::MessageDigest;\nuse crate::openssl::stack::Stack;\n"
             "use crate::openssl::x509::extension::{BasicConstraints, SubjectAlternativeName};\n"
             "use crate::openssl::x509::{X509Builder, X509Extension, X509NameBuilder, X509Req, X509ReqBuilder, X509, ExtView, NameView, CertView};\n"
             "use std::collections::{HashMap, HashSet};")
    u.raw("crypto::openssl_certificate", SPEC)
    u.verify(X, "get_digest", "crypto::openssl_certificate", props=["C01", "C16"], fns={"get_digest": FnSpec(ret="r", sig="""
    ensures r.id == digest_id(digest, key_pair.key_type), //@C01.eddsa_keys_sign_without_a_digest
""")})
    u.take(X, "Csr", "crypto::openssl_certificate")
    u.take(X, "X509Certificate", "crypto::openssl_certificate")
    u.verify(X, "Csr::new", "crypto::openssl_certificate", props=["C01"], fns={"new": FnSpec(ret="r", sig="""
    ensures
        // the request carries exactly: the public half of key_pair, the configured subject attributes, one
        // subjectAltName extension with the given dNSName and iPAddress entries in order, and a self-signature
        // by the same key with the configured digest (none for EdDSA keys) made over all of that
        r matches Ok(csr) ==> csr.inner_csr.view@.pubkey == Some(key_pair.inner_key.ident@), //@C01.csr_public_key_is_the_key_pair
        r matches Ok(csr) ==> csr.inner_csr.view@.exts == seq![ExtView::San { dns: strs(domains@), ip: strs(ips@) }], //@C01.csr_san_is_exactly_the_identifiers
        r matches Ok(csr) ==> csr.inner_csr.view@.signed == Some((key_pair.inner_key.ident@, digest_id(digest, key_pair.key_type))), //@C01.csr_self_signed_with_configured_digest
        r matches Ok(csr) ==> (crate::vmap::pairs_of(*subject_attributes).len() == 0 ==> csr.inner_csr.view@.subject is None), //@C01.csr_subject_is_the_configured_attributes
        r matches Ok(csr) ==> (crate::vmap::pairs_of(*subject_attributes).len() > 0 ==> (csr.inner_csr.view@.subject matches Some(n) && n.by_text.len() == 0
                && n.by_nid == subject_entries(crate::vmap::pairs_of(*subject_attributes)))), //@C01.csr_subject_is_the_configured_attributes
""", loops={L1: """
    invariant snb.view@ == (NameView { by_nid: subject_entries(crate::vmap::pairs_of(*subject_attributes).take(it1.index@)), by_text: Seq::empty() }),
        pairs__@ == crate::vmap::pairs_of(*subject_attributes),
""", L2: "    invariant san.dns@ == strs(domains@.take(it2.index@)), san.ip@ == Seq::<Seq<char>>::empty(),",
            L3: "    invariant san.dns@ == strs(domains@), san.ip@ == strs(ips@.take(it3.index@)),"},
        rewrites=[("T-MAP", r"subject_attributes\.is_empty\(\)", "crate::vmap::is_empty(subject_attributes)"),
                  ("T-MAP", r"for \(sattr, val\) in subject_attributes\.iter\(\)", "for (sattr, val) in it1: pairs__.iter()")],
        at=[("before_stmt", "for (sattr, val) in", 1, "let pairs__ = crate::vmap::pairs(subject_attributes);", "T-MAP"),
            ("before_stmt", "for (sattr, val) in", 1, "proof { assert(pairs__@.take(0) =~= Seq::empty()); assert(subject_entries(pairs__@.take(0)) =~= Seq::empty()); }"),
            ("loop_end", None, L1, """
                proof {
                    let k = it1.index@;
                    assert(pairs__@.take(k + 1) =~= pairs__@.take(k).push(pairs__@[k]));
                    assert(subject_entries(pairs__@.take(k + 1)) =~= subject_entries(pairs__@.take(k)).push((nid_of(pairs__@[k].0), pairs__@[k].1@)));
                }"""),
            ("loop_after", None, L1, "proof { assert(pairs__@.take(pairs__@.len() as int) =~= pairs__@); }"),
            ("loop_iter", None, L2, "it2:"), ("loop_iter", None, L3, "it3:"),
            ("before_stmt", "for dns in", 1, "proof { assert(strs(domains@.take(0)) =~= Seq::<Seq<char>>::empty()); }"),
            ("loop_end", None, L2, "proof { let k = it2.index@; assert(domains@.take(k + 1) =~= domains@.take(k).push(domains@[k])); assert(strs(domains@.take(k + 1)) =~= strs(domains@.take(k)).push(domains@[k]@)); }"),
            ("before_stmt", "for ip in", 1, "proof { assert(domains@.take(domains@.len() as int) =~= domains@); assert(strs(ips@.take(0)) =~= Seq::<Seq<char>>::empty()); }"),
            ("loop_end", None, L3, "proof { let k = it3.index@; assert(ips@.take(k + 1) =~= ips@.take(k).push(ips@[k])); assert(strs(ips@.take(k + 1)) =~= strs(ips@.take(k)).push(ips@[k]@)); }"),
            ("before_stmt", "let san = san.build", 1, "proof { assert(ips@.take(ips@.len() as int) =~= ips@); }"),
            ("before_tail", None, 1, "proof { assert(builder.view@.exts =~= seq![ExtView::San { dns: strs(domains@), ip: strs(ips@) }]); }"),
            ])})
    u.verify(X, "gen_certificate", "crypto::openssl_certificate", props=["C16"], fns={"gen_certificate": FnSpec(ret="r", sig="""
    requires acme_ext@.len() > 0,
    ensures
        // RFC 8737 section 3: a self-signed certificate (subject = issuer, signed by its own key), valid from now for 7 days,
        // whose only subjectAltName is the dNSName of the domain, carrying the acmeIdentifier extension given as name=value
        r matches Ok(c) ==> c.view@.version == Some(2i32), //@C16.x509_v3
        r matches Ok(c) ==> c.view@.subject is Some && c.view@.subject == c.view@.issuer, //@C16.self_issued
        r matches Ok(c) ==> c.view@.pubkey == Some(key_pair.inner_key.ident@) && c.view@.signed == Some((key_pair.inner_key.ident@, digest.id)), //@C16.self_signed
        r matches Ok(c) ==> c.view@.not_before == Some(crate::openssl::asn1::wall_now())
            && c.view@.not_after == Some(crate::openssl::asn1::wall_now() + 7 * 86400), //@C16.currently_valid_for_7_days
        r matches Ok(c) ==> exists|name: Seq<char>, value: Seq<char>| acme_ext@ == name + seq!['='] + value && !name.contains('=') && !value.contains('=')
                && c.view@.exts == seq![ExtView::BasicConstraints, ExtView::San { dns: seq![domain@], ip: Seq::empty() }, ExtView::Custom { name: name, value: value }], //@C16.only_san_is_the_domain_and_acme_extension_is_name_value
""", rewrites=[("T-STR", r"acme_ext\.is_empty\(\)", "crate::vmap::str_is_empty(acme_ext)"),
               ("T-ITER", r"acme_ext\.split\('='\)\.collect\(\)", "crate::vmap::split_char(acme_ext, '=')"),
               ("T-FMT", r"format!\(\"\{\}(?P<t>[^\"]*)\", super::APP_NAME\)", lambda m: f'crate::vstr::cat2(super::APP_NAME, "{m.group("t")}")')],
        at=[("before_stmt_re", r"x509_name\.append_entry_by_text\(\"O\"", 1, """
    proof { reveal_strlit("ACMEd"); }"""),
            ("after_stmt", "let ca_name = ", 1, """
    proof { reveal_strlit("ACMEd"); reveal_strlit(" TLS-ALPN-01 Authority"); }"""),
            ("before_stmt", "X509Extension::new(", 1, """
        proof {
            // exactly two parts: name and value
            if v@.len() == 0 {
                assert(parts0@.len() == 2);
                crate::vmap::lemma_join2(parts0@[0]@, parts0@[1]@);
                assert(crate::vmap::views(parts0@) =~= seq![parts0@[0]@, parts0@[1]@]);
                assert(acme_ext@ == gname + seq!['='] + gvalue);
            }
        }"""),
            ("after_stmt", "let mut v: Vec<&str>", 1, "let ghost parts0 = v; proof { if parts0@.len() == 2 { gname = parts0@[0]@; gvalue = parts0@[1]@; } }"),
            ("before_stmt", "if !acme_ext", 1, "let ghost mut gname: Seq<char> = Seq::empty(); let ghost mut gvalue: Seq<char> = Seq::empty();"),
            ("before_tail", None, 1, """
        proof {
            assert(builder.view@.exts =~= seq![ExtView::BasicConstraints, ExtView::San { dns: seq![domain@], ip: Seq::empty() },
                ExtView::Custom { name: gname, value: gvalue }]);
            assert(acme_ext@ == gname + seq!['='] + gvalue && !gname.contains('=') && !gvalue.contains('='));
        }"""),
            ])})
    u.verify(X, "X509Certificate::from_acme_ext", "crypto::openssl_certificate", props=["C16"], fns={"from_acme_ext": FnSpec(ret="r", sig="""
    requires acme_ext@.len() > 0,
    ensures r matches Ok(t) ==> t.0.key_type == key_type && t.1.inner_cert.view@.pubkey == Some(t.0.inner_key.ident@)
        && t.1.inner_cert.view@.signed == Some((t.0.inner_key.ident@, digest_id(digest, key_type)))
        && t.1.inner_cert.view@.exts.len() == 3 && t.1.inner_cert.view@.exts[1] == (ExtView::San { dns: seq![domain@], ip: Seq::empty() }), //@C16.responder_certificate_for_the_domain
""")})
    return u


CRYPTO_TRUSTED = """
pub type SubjectAttribute = BaseSubjectAttribute;
pub type HashFunction = BaseHashFunction;
// the X.520 / PKCS#9 attribute type each configurable subject attribute stands for (acmed.toml(5), subject_attributes), as OpenSSL names it
pub open spec fn nid_of(a: SubjectAttribute) -> crate::openssl::nid::Nid {
    match a {
        BaseSubjectAttribute::CountryName => Nid::COUNTRYNAME, BaseSubjectAttribute::GenerationQualifier => Nid::GENERATIONQUALIFIER,
        BaseSubjectAttribute::GivenName => Nid::GIVENNAME, BaseSubjectAttribute::Initials => Nid::INITIALS,
        BaseSubjectAttribute::LocalityName => Nid::LOCALITYNAME, BaseSubjectAttribute::Name => Nid::NAME,
        BaseSubjectAttribute::OrganizationName => Nid::ORGANIZATIONNAME, BaseSubjectAttribute::OrganizationalUnitName => Nid::ORGANIZATIONALUNITNAME,
        BaseSubjectAttribute::Pkcs9EmailAddress => Nid::PKCS9_EMAILADDRESS, BaseSubjectAttribute::PostalAddress => Nid::POSTALADDRESS,
        BaseSubjectAttribute::PostalCode => Nid::POSTALCODE, BaseSubjectAttribute::StateOrProvinceName => Nid::STATEORPROVINCENAME,
        BaseSubjectAttribute::Street => Nid::STREETADDRESS, BaseSubjectAttribute::Surname => Nid::SURNAME, BaseSubjectAttribute::Title => Nid::TITLE,
    }
}
impl BaseHashFunction {
    #[verifier::external_body]
    pub fn native_digest(&self) -> (r: crate::openssl::hash::MessageDigest)
        ensures r.id == (match self { BaseHashFunction::Sha256 => 1u8, BaseHashFunction::Sha384 => 2u8, BaseHashFunction::Sha512 => 3u8 }) { unimplemented!() }
}
// verified in unit `keys`
#[verifier::external_body]
pub fn gen_keypair(key_type: KeyType) -> (r: Result<KeyPair, Error>)
    ensures r matches Ok(k) ==> k.key_type == key_type { unimplemented!() }
"""

SPEC = """
pub open spec fn strs(v: Seq<String>) -> Seq<Seq<char>> { v.map_values(|s: String| s@) }
// the digest a key signs with: none (0) for EdDSA keys, the configured one otherwise
pub open spec fn digest_id(d: HashFunction, k: KeyType) -> u8 {
    if k is Ed25519 || k is Ed448 { 0u8 } else { match d { BaseHashFunction::Sha256 => 1u8, BaseHashFunction::Sha384 => 2u8, BaseHashFunction::Sha512 => 3u8 } }
}
pub open spec fn subject_entries(p: Seq<(SubjectAttribute, String)>) -> Seq<(crate::openssl::nid::Nid, Seq<char>)> {
    p.map_values(|e: (SubjectAttribute, String)| (nid_of(e.0), e.1@))
}
"""
