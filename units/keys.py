"""U14 - keys, JWK and signature encodings (acme_common/src/crypto/openssl_keys.rs, key_type.rs).  Serves C15 and C04."""
import re
from unit import Unit, FnSpec

K = "acme_common/src/crypto/openssl_keys.rs"
KT = "acme_common/src/crypto/key_type.rs"


def tjson(m):
    """T-JSON: json!({ "k": e, ... }) with string members -> crate::vjson::object(vec![("k", sv(e)), ...])"""
    body = m.group("b")
    pairs = re.findall(r"\"(\w+)\"\s*:\s*(\"[^\"]*\"|&?\w+)\s*,?", body)
    rest = re.sub(r"\"(\w+)\"\s*:\s*(\"[^\"]*\"|&?\w+)\s*,?", "", body).strip()
    if rest:
        raise Exception("T-JSON: object outside the supported shape")
    items = []
    for k, v in pairs:
        arg = v if v.startswith('"') or v.startswith("&") else "&" + v
        items.append(f'("{k}", crate::vjson::sv({arg}))')
    return "crate::vjson::object(vec![" + ", ".join(items) + "])"


JSON = ("T-JSON", r"json!\(\{(?P<b>[^{}]*)\}\)", tjson, None)
B64 = ("T-B64", r"b64_encode\(&(?P<e>[^;]*?)\);", r"crate::vb64::b64_encode_bytes(&\g<e>);", None)


def build():
    u = Unit("keys", "acme_common")
    u.prelude("stdx", "time", "ac_shims", "vjson")
    u.drop_derives = {"Debug", "Clone", "Copy"}
    u.module("crypto", "use crate::*;\nuse crate::error::Error;\nuse crate::vjson::Value;\nuse crate::openssl::bn::{BigNum, BigNumContext};\n"
             "use crate::openssl::ec::{EcGroup, EcKey};\nuse crate::openssl::ecdsa::EcdsaSig;\nuse crate::openssl::hash::MessageDigest;\n"
             "use crate::openssl::nid::Nid;\nuse crate::openssl::pkey::{Id, PKey, Private};")
    u.take("acme_common/src/crypto/jws_signature_algorithm.rs", "JwsSignatureAlgorithm", "crypto", keep_derives=("PartialEq", "Clone", "Copy"))
    u.take(KT, "KeyType", "crypto", keep_derives=("PartialEq", "Clone", "Copy"))
    u.take("acme_common/src/crypto.rs", "BaseHashFunction", "crypto", keep_derives=("PartialEq", "Clone", "Copy"))
    u.take(K, "KeyPair", "crypto")
    u.raw("crypto", SPEC)
    u.raw("crypto", TRUSTED, trusted=True)
    u.verify(KT, "KeyType::get_default_signature_alg", "crypto", props=["C15"], fns={"get_default_signature_alg": FnSpec(ret="r", sig="""
    ensures r == default_alg(*self), //@C15.default_algorithm_table,C04.default_algorithm_table
""")})
    u.verify(KT, "KeyType::check_alg_compatibility", "crypto", props=["C15", "C04"], fns={"check_alg_compatibility": FnSpec(ret="r", sig="""
    ensures r is Ok <==> *alg == default_alg(*self), //@C15.algorithm_key_compatibility_table,C04.alg_matches_key
""", rewrites=[("T-FMT", r"format!\(\s*\"incompatible signature algorithm[^)]*\)", "crate::opaque_string()")])})
    u.macro(K, "get_ecdsa_sig_part")
    u.verify(K, "KeyPair::sign", "crypto", props=["C15", "C04"], fns={"sign": FnSpec(ret="r", sig="""
    requires self.wf(),
    ensures r is Ok ==> *alg == default_alg(self.key_type), //@C04.signature_algorithm_matches_key_type
        r matches Ok(v) ==> (self.key_type is EcdsaP256 ==> v@.len() == 64) && (self.key_type is EcdsaP384 ==> v@.len() == 96)
            && (self.key_type is EcdsaP521 ==> v@.len() == 132), //@C15.ecdsa_signature_fixed_width,C04.ecdsa_fixed_width
        // RS256 is RSASSA-PKCS1-v1_5 over SHA-256
        r matches Ok(v) ==> (*alg is Rs256 ==> rsa_pkcs1_valid(self.inner_key.ident@, 1u8, data@, v@)), //@C15.signature_is_made_with_the_digest_of_the_declared_algorithm,C04.signature_is_made_with_the_digest_of_the_declared_algorithm
        r matches Ok(v) ==> (*alg is Ed25519 || *alg is Ed448 ==> eddsa_valid(self.inner_key.ident@, data@, v@)), //@C15.signature_is_made_with_the_digest_of_the_declared_algorithm,C04.signature_is_made_with_the_digest_of_the_declared_algorithm
        // an ECDSA signature is made over the digest RFC 7518 gives the declared algorithm (ES256: SHA-256, ES384: SHA-384, ES512: SHA-512),
        // so that it verifies under that algorithm
        r matches Ok(v) ==> (es_hash(*alg) matches Some(h) ==> exists|rr: Seq<u8>, ss: Seq<u8>| crate::openssl::ecdsa::ecdsa_valid(self.inner_key.ident@, hash_spec(h, data@), rr, ss)
            && v@ == crate::openssl::bn::left_pad(rr, ec_size(self.key_type)) + crate::openssl::bn::left_pad(ss, ec_size(self.key_type))), //@C15.signature_is_made_with_the_digest_of_the_declared_algorithm,C04.signature_is_made_with_the_digest_of_the_declared_algorithm
""")})
    HF = "acme_common/src/crypto/openssl_hash.rs"
    u.verify(HF, "HashFunction::hash", "crypto", props=["C15", "C04", "C05"], fns={"hash": FnSpec(ret="r", rewrites=[
        ("T-MAP", r"\b(?P<f>sha256|sha384|sha512)\(data\)\.to_vec\(\)", r"crate::openssl::sha::digest_to_vec(crate::openssl::sha::\g<f>(data))", None)], sig="""
    ensures r@ == hash_spec(*self, data@), //@C15.each_hash_function_is_the_sha2_digest_of_its_name,C04.each_hash_function_is_the_sha2_digest_of_its_name,C05.each_hash_function_is_the_sha2_digest_of_its_name
""")})
    u.verify(HF, "HashFunction::native_digest", "crypto", props=["C15", "C04", "C01"], fns={"native_digest": FnSpec(ret="r", sig="""
    ensures r.id == digest_id(*self), //@C15.each_hash_function_is_the_sha2_digest_of_its_name,C04.each_hash_function_is_the_sha2_digest_of_its_name,C01.each_hash_function_is_the_sha2_digest_of_its_name
""")})
    u.verify(HF, "HashFunction::hmac", "crypto", props=["C04"], fns={"hmac": FnSpec(ret="r", sig="""
    ensures r matches Ok(v) ==> hmac_valid(*self, key@, data@, v@), //@C04.external_binding_mac_is_the_hmac_of_the_declared_digest
""")})
    u.verify(K, "KeyPair::sign_rsa", "crypto", props=["C15", "C04"], fns={"sign_rsa": FnSpec(ret="r", sig="""
    ensures r matches Ok(v) ==> rsa_pkcs1_valid(self.inner_key.ident@, hash_func.id, data@, v@), //@C15.rsa_signature_is_pkcs1_v1_5_over_the_given_digest,C04.rsa_signature_is_pkcs1_v1_5_over_the_given_digest
""")})
    u.verify(K, "KeyPair::sign_eddsa", "crypto", props=["C15", "C04"], fns={"sign_eddsa": FnSpec(ret="r", sig="""
    ensures r matches Ok(v) ==> eddsa_valid(self.inner_key.ident@, data@, v@), //@C15.eddsa_signature_is_one_shot_over_the_message,C04.eddsa_signature_is_one_shot_over_the_message
""")})
    u.verify(K, "KeyPair::sign_ecdsa", "crypto", props=["C15", "C04"], fns={"sign_ecdsa": FnSpec(ret="r", sig="""
    requires self.wf(),
    ensures
        // JWS ECDSA signature: R || S, each left-padded with zeros to the curve size (RFC 7518 section 3.4)
        r matches Ok(v) ==> exists|rr: Seq<u8>, ss: Seq<u8>| crate::openssl::ecdsa::ecdsa_valid(self.inner_key.ident@, hash_spec(*hash_func, data@), rr, ss)
            && rr.len() <= ec_size(self.key_type) && ss.len() <= ec_size(self.key_type)
            && v@ == crate::openssl::bn::left_pad(rr, ec_size(self.key_type)) + crate::openssl::bn::left_pad(ss, ec_size(self.key_type)), //@C15.ecdsa_r_s_left_padded,C04.ecdsa_signature_is_r_s_left_padded
        r matches Ok(v) ==> v@.len() == 2 * ec_size(self.key_type) && ec_size(self.key_type) > 0, //@C15.ecdsa_signature_fixed_width
""", at=[
         # each half, right where the code builds it, is the number left-padded to the curve size (however the halves are put together afterwards)
         ("after_stmt_re", r"let (?:mut )?(\w+) = \{\s*let mut \w+ = (\w+)\.r\(\)\.to_vec\(\);", 1,
          "proof { assert($1@ =~= crate::openssl::bn::left_pad($2.r.be@, ec_size(self.key_type))); } //@C15.ecdsa_r_s_left_padded,C04.ecdsa_signature_is_r_s_left_padded"),
         ("after_stmt_re", r"let (?:mut )?(\w+) = \{\s*let mut \w+ = (\w+)\.s\(\)\.to_vec\(\);", 1,
          "proof { assert($1@ =~= crate::openssl::bn::left_pad($2.s.be@, ec_size(self.key_type))); } //@C15.ecdsa_r_s_left_padded,C04.ecdsa_signature_is_r_s_left_padded")],
        rewrites=[("T-ITER", r"s\.resize_with\((?P<n>[^,]*), \|\| 0\);", r"crate::openssl::bn::resize_zero(&mut s, \g<n>);", None)],
        )})
    JWK_LBL = "//@C15.jwk_is_the_one_of_the_key_type,C05.thumbprint_input_of_the_account_key_is_the_rfc7638_form,C04.jwk_member_is_the_exact_public_key"
    u.verify(K, "KeyPair::get_jwk_public_key", "crypto", props=["C15", "C05", "C04"], fns={"get_jwk_public_key": FnSpec(ret="r", sig="""
    requires self.wf(),
    ensures r matches Ok(j) ==> j.members@ =~= jwk_members(*self, thumbprint), """ + JWK_LBL + """
""")})
    # the two public entry points: the JWK sent to the CA has alg / use, the RFC 7638 thumbprint input has the required members only
    u.verify(K, "KeyPair::jwk_public_key", "crypto", props=["C15", "C04"], fns={"jwk_public_key": FnSpec(ret="r", sig="""
    requires self.wf(),
    ensures r matches Ok(j) ==> j.members@ =~= jwk_members(*self, false), //@C15.public_jwk_has_the_registered_members,C04.jwk_member_is_the_exact_public_key
""")})
    u.verify(K, "KeyPair::jwk_public_key_thumbprint", "crypto", props=["C15", "C05"], fns={"jwk_public_key_thumbprint": FnSpec(ret="r", sig="""
    requires self.wf(),
    ensures r matches Ok(j) ==> j.members@ =~= jwk_members(*self, true), //@C15.thumbprint_input_is_the_rfc7638_canonical_form,C05.thumbprint_input_of_the_account_key_is_the_rfc7638_form
""")})
    u.verify(K, "KeyPair::get_rsa_jwk", "crypto", props=["C15", "C05", "C04"], fns={"get_rsa_jwk": FnSpec(ret="r", sig="""
    requires self.wf(), self.key_type is Rsa2048 || self.key_type is Rsa4096,
    ensures r matches Ok(j) ==> ({
        let e = crate::vb64::b64url(crate::openssl::rsa::rsa_e(self.inner_key.ident@));
        let n = crate::vb64::b64url(crate::openssl::rsa::rsa_n(self.inner_key.ident@));
        // RFC 7518 6.3 / RFC 7638 3.2: minimal-length big-endian e and n; thumbprint input has exactly e, kty, n
        if thumbprint { j.members@ =~= map!["e"@ => e, "kty"@ => "RSA"@, "n"@ => n] }
        else { j.members@ =~= map!["alg"@ => "RS256"@, "e"@ => e, "kty"@ => "RSA"@, "n"@ => n, "use"@ => "sig"@] }
    }), //@C15.rsa_jwk_members,C05.thumbprint_input_of_the_account_key_is_the_rfc7638_form,C04.jwk_member_is_the_exact_public_key
""", rewrites=[JSON, B64], at=[("before_tail", None, 1, "proof { reveal_with_fuel(crate::vjson::pairs_map, 8); }")])})
    u.verify(K, "KeyPair::get_ecdsa_jwk", "crypto", props=["C15", "C05", "C04"], fns={"get_ecdsa_jwk": FnSpec(ret="r", sig="""
    requires self.wf(),
    ensures r matches Ok(j) ==> ({
        let sz = ec_size(self.key_type);
        let x = crate::vb64::b64url(crate::openssl::bn::left_pad(crate::openssl::ec::ec_x(self.inner_key.ident@), sz));
        let y = crate::vb64::b64url(crate::openssl::bn::left_pad(crate::openssl::ec::ec_y(self.inner_key.ident@), sz));
        // RFC 7518 6.2: fixed-width coordinates; crv / alg per curve; thumbprint input has exactly crv, kty, x, y
        &&& sz > 0
        &&& if thumbprint { j.members@ =~= map!["crv"@ => crv_name(self.key_type), "kty"@ => "EC"@, "x"@ => x, "y"@ => y] }
            else { j.members@ =~= map!["alg"@ => es_name(self.key_type), "crv"@ => crv_name(self.key_type), "kty"@ => "EC"@, "use"@ => "sig"@, "x"@ => x, "y"@ => y] }
    }), //@C15.ec_jwk_members_fixed_width,C05.thumbprint_input_of_the_account_key_is_the_rfc7638_form,C04.jwk_member_is_the_exact_public_key
""", rewrites=[JSON, B64], at=[("before_tail", None, 1, "proof { reveal_with_fuel(crate::vjson::pairs_map, 8); }")])})
    u.macro(K, "get_key_type")
    for f, arg, forms in [("from_der", "der_data", "crate::openssl::pkey::trad_der(id)"), ("from_pem", "pem_data", "crate::openssl::pkey::pkcs8_pem(id)")]:
        u.verify(K, f"KeyPair::{f}", "crypto", props=["C15", "C11"], fns={f: FnSpec(ret="r", sig=f"""
    ensures r matches Ok(k) ==> k.wf(), //@C15.loaded_key_type_is_detected_from_the_key,C03.loaded_key_type_is_detected_from_the_key,C02.loaded_key_type_is_detected_from_the_key
        // what private_key_to_der / private_key_to_pem wrote is read back, and as the same key (whenever its type is a supported one)
        forall|id: int, t: KeyType| #![trigger {forms}, kind_of(t)] {arg}@ == {forms} && crate::openssl::pkey::kind_of_ident(id) == kind_of(t)
            ==> (r matches Ok(k) && k.inner_key.ident@ == id && k.key_type == t), //@C15.keys_survive_the_round_trip,C11.keys_survive_the_round_trip,C03.keys_survive_the_round_trip,C02.keys_survive_the_round_trip
""")})
    u.verify(K, "KeyPair::private_key_to_der", "crypto", props=["C15", "C11"], fns={"private_key_to_der": FnSpec(ret="r", sig="""
    ensures r matches Ok(v) ==> v@ == crate::openssl::pkey::trad_der(self.inner_key.ident@), //@C15.keys_survive_the_round_trip,C11.keys_survive_the_round_trip,C03.keys_survive_the_round_trip,C02.keys_survive_the_round_trip
""")})
    u.verify(K, "KeyPair::private_key_to_pem", "crypto", props=["C15", "C02"], fns={"private_key_to_pem": FnSpec(ret="r", sig="""
    ensures r matches Ok(v) ==> v@ == crate::openssl::pkey::pkcs8_pem(self.inner_key.ident@), //@C15.keys_survive_the_round_trip,C02.key_file_is_the_pkcs8_pem_of_the_key
""")})
    u.verify(K, "KeyPair::public_key_to_pem", "crypto", props=["C15", "C11"], fns={"public_key_to_pem": FnSpec(ret="r", sig="""
    ensures r matches Ok(v) ==> v@ == crate::openssl::pkey::public_pem(self.inner_key.ident@), //@C15.public_key_pem_is_of_this_key,C11.public_key_pem_is_of_this_key
""")})
    u.verify(K, "gen_rsa_pair", "crypto", props=["C15"], fns={"gen_rsa_pair": FnSpec(ret="r", sig="""
    ensures r matches Ok(k) ==> k.kind@ == (crate::openssl::pkey::KeyKind { id: Id::RSA, rsa_size: nb_bits / 8, curve: None }), //@C15.generated_key_has_requested_type,C11.generated_key_has_requested_type,C02.generated_key_has_requested_type
""")})
    u.verify(K, "gen_ec_pair", "crypto", props=["C15"], fns={"gen_ec_pair": FnSpec(ret="r", sig="""
    ensures r matches Ok(k) ==> k.kind@ == (crate::openssl::pkey::KeyKind { id: Id::EC, rsa_size: 0, curve: Some(nid) }), //@C15.generated_key_has_requested_type,C11.generated_key_has_requested_type,C02.generated_key_has_requested_type
""")})
    u.verify(K, "gen_ed25519_pair", "crypto", props=["C15"], fns={"gen_ed25519_pair": FnSpec(ret="r", sig="""
    ensures r matches Ok(k) ==> k.kind@ == (crate::openssl::pkey::KeyKind { id: Id::ED25519, rsa_size: 0, curve: None }), //@C15.generated_key_has_requested_type,C11.generated_key_has_requested_type,C02.generated_key_has_requested_type
""")})
    u.verify(K, "gen_ed448_pair", "crypto", props=["C15"], fns={"gen_ed448_pair": FnSpec(ret="r", sig="""
    ensures r matches Ok(k) ==> k.kind@ == (crate::openssl::pkey::KeyKind { id: Id::ED448, rsa_size: 0, curve: None }), //@C15.generated_key_has_requested_type,C11.generated_key_has_requested_type,C02.generated_key_has_requested_type
""")})
    u.verify(K, "gen_keypair", "crypto", props=["C15"], fns={"gen_keypair": FnSpec(ret="r", sig="""
    ensures r matches Ok(k) ==> k.wf() && k.key_type == key_type, //@C15.generated_key_has_requested_type,C11.generated_key_has_requested_type,C02.generated_key_has_requested_type
""")})
    return u


SPEC = """
broadcast use crate::stdax::axiom_str_ext;
pub type HashFunction = BaseHashFunction;
// RFC 7518 section 3.1 / RFC 8037: the one signature algorithm that goes with each key type
pub open spec fn default_alg(k: KeyType) -> JwsSignatureAlgorithm {
    match k {
        KeyType::Rsa2048 => JwsSignatureAlgorithm::Rs256, KeyType::Rsa4096 => JwsSignatureAlgorithm::Rs256,
        KeyType::EcdsaP256 => JwsSignatureAlgorithm::Es256, KeyType::EcdsaP384 => JwsSignatureAlgorithm::Es384,
        KeyType::EcdsaP521 => JwsSignatureAlgorithm::Es512,
        KeyType::Ed25519 => JwsSignatureAlgorithm::Ed25519, KeyType::Ed448 => JwsSignatureAlgorithm::Ed448,
    }
}
// RFC 7518 section 3.4 / 6.2.1: octet length of coordinates and of R, S
pub open spec fn ec_size(k: KeyType) -> int {
    match k { KeyType::EcdsaP256 => 32, KeyType::EcdsaP384 => 48, KeyType::EcdsaP521 => 66, _ => 0 }
}
// RFC 7518 section 3.4: the digest each ECDSA algorithm signs
pub open spec fn es_hash(a: JwsSignatureAlgorithm) -> Option<HashFunction> {
    match a { JwsSignatureAlgorithm::Es256 => Some(BaseHashFunction::Sha256), JwsSignatureAlgorithm::Es384 => Some(BaseHashFunction::Sha384),
              JwsSignatureAlgorithm::Es512 => Some(BaseHashFunction::Sha512), _ => None }
}
pub open spec fn crv_name(k: KeyType) -> Seq<char> {
    match k { KeyType::EcdsaP256 => "P-256"@, KeyType::EcdsaP384 => "P-384"@, KeyType::EcdsaP521 => "P-521"@, _ => ""@ }
}
pub open spec fn es_name(k: KeyType) -> Seq<char> {
    match k { KeyType::EcdsaP256 => "ES256"@, KeyType::EcdsaP384 => "ES384"@, KeyType::EcdsaP521 => "ES512"@, _ => ""@ }
}
pub open spec fn kind_of(k: KeyType) -> crate::openssl::pkey::KeyKind {
    match k {
        KeyType::Rsa2048 => crate::openssl::pkey::KeyKind { id: Id::RSA, rsa_size: 256, curve: None },
        KeyType::Rsa4096 => crate::openssl::pkey::KeyKind { id: Id::RSA, rsa_size: 512, curve: None },
        KeyType::EcdsaP256 => crate::openssl::pkey::KeyKind { id: Id::EC, rsa_size: 0, curve: Some(Nid::X9_62_PRIME256V1) },
        KeyType::EcdsaP384 => crate::openssl::pkey::KeyKind { id: Id::EC, rsa_size: 0, curve: Some(Nid::SECP384R1) },
        KeyType::EcdsaP521 => crate::openssl::pkey::KeyKind { id: Id::EC, rsa_size: 0, curve: Some(Nid::SECP521R1) },
        KeyType::Ed25519 => crate::openssl::pkey::KeyKind { id: Id::ED25519, rsa_size: 0, curve: None },
        KeyType::Ed448 => crate::openssl::pkey::KeyKind { id: Id::ED448, rsa_size: 0, curve: None },
    }
}
impl KeyPair {
    // the recorded key type is the type of the OpenSSL key it wraps
    pub open spec fn wf(&self) -> bool { self.inner_key.kind@ == kind_of(self.key_type) }
}
// the digest each HashFunction stands for
pub open spec fn hash_bits(h: HashFunction) -> int { match h { BaseHashFunction::Sha256 => 256, BaseHashFunction::Sha384 => 384, BaseHashFunction::Sha512 => 512 } }
pub open spec fn hash_spec(h: HashFunction, data: Seq<u8>) -> Seq<u8> { crate::openssl::sha::sha2(hash_bits(h), data) }
pub open spec fn digest_id(h: HashFunction) -> u8 { match h { BaseHashFunction::Sha256 => 1u8, BaseHashFunction::Sha384 => 2u8, BaseHashFunction::Sha512 => 3u8 } }
// mac is the HMAC of data under key with that digest
pub open spec fn hmac_valid(h: HashFunction, key: Seq<u8>, data: Seq<u8>, mac: Seq<u8>) -> bool {
    crate::openssl::sign::sig_made(crate::openssl::pkey::hmac_ident(key), crate::openssl::rsa::Padding::PKCS1.id, Some(digest_id(h)), data, mac)
}
// RFC 8037 OKP JWK of an EdDSA key (get_eddsa_jwk is not under contract: its members are this uninterpreted map)
pub uninterp spec fn okp_jwk(k: KeyPair, thumbprint: bool) -> Map<Seq<char>, Seq<char>>;
// the JWK of a key pair: with alg / use for the CA, or the RFC 7638 thumbprint input (required members only)
pub open spec fn jwk_members(k: KeyPair, thumbprint: bool) -> Map<Seq<char>, Seq<char>> {
    match k.key_type {
        KeyType::Rsa2048 | KeyType::Rsa4096 => {
            let e = crate::vb64::b64url(crate::openssl::rsa::rsa_e(k.inner_key.ident@));
            let n = crate::vb64::b64url(crate::openssl::rsa::rsa_n(k.inner_key.ident@));
            if thumbprint { map!["e"@ => e, "kty"@ => "RSA"@, "n"@ => n] }
            else { map!["alg"@ => "RS256"@, "e"@ => e, "kty"@ => "RSA"@, "n"@ => n, "use"@ => "sig"@] }
        }
        KeyType::EcdsaP256 | KeyType::EcdsaP384 | KeyType::EcdsaP521 => {
            let sz = ec_size(k.key_type);
            let x = crate::vb64::b64url(crate::openssl::bn::left_pad(crate::openssl::ec::ec_x(k.inner_key.ident@), sz));
            let y = crate::vb64::b64url(crate::openssl::bn::left_pad(crate::openssl::ec::ec_y(k.inner_key.ident@), sz));
            if thumbprint { map!["crv"@ => crv_name(k.key_type), "kty"@ => "EC"@, "x"@ => x, "y"@ => y] }
            else { map!["alg"@ => es_name(k.key_type), "crv"@ => crv_name(k.key_type), "kty"@ => "EC"@, "use"@ => "sig"@, "x"@ => x, "y"@ => y] }
        }
        _ => okp_jwk(k, thumbprint),
    }
}
// sig is an RSASSA-PKCS1-v1_5 signature of data by the key, over the digest numbered as in MessageDigest (1 = SHA-256)
pub open spec fn rsa_pkcs1_valid(key: int, digest: u8, data: Seq<u8>, sig: Seq<u8>) -> bool {
    crate::openssl::sign::sig_made(key, crate::openssl::rsa::Padding::PKCS1.id, Some(digest), data, sig)
}
// sig is the pure EdDSA (one-shot, no pre-hash) signature of data by the key
pub open spec fn eddsa_valid(key: int, data: Seq<u8>, sig: Seq<u8>) -> bool {
    crate::openssl::sign::sig_made(key, crate::openssl::rsa::Padding::PKCS1.id, None, data, sig)
}
pub proof fn lemma_maps() {}
impl vstd::std_specs::cmp::PartialEqSpecImpl for JwsSignatureAlgorithm {
    open spec fn obeys_eq_spec() -> bool { true }
    open spec fn eq_spec(&self, other: &JwsSignatureAlgorithm) -> bool { *self == *other }
}
"""

TRUSTED = """
impl std::fmt::Display for KeyType { #[verifier::external_body] fn fmt(&self, f: &mut std::fmt::Formatter) -> std::fmt::Result { unimplemented!() } }
impl std::fmt::Display for JwsSignatureAlgorithm { #[verifier::external_body] fn fmt(&self, f: &mut std::fmt::Formatter) -> std::fmt::Result { unimplemented!() } }
impl KeyPair {
    // X: the Ed25519/Ed448 `x` is cut out of a PEM string by offset - outside what a contract on this code can state
    #[verifier::external_body]
    fn get_eddsa_jwk(&self, thumbprint: bool) -> (r: Result<Value, Error>)
        ensures r matches Ok(j) ==> j.members@ == okp_jwk(*self, thumbprint) { unimplemented!() }
}
"""
