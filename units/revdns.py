"""identifier.rs: the reverse-DNS name of an IP identifier handed to tls-alpn-01 hooks (RFC 8738 section 6, RFC 3596 section 2.5).
Serves C05 ("plus the reverse-DNS form of IP identifiers")."""
import re
from unit import Unit, FnSpec, fmt_to_cat

I = "acmed/src/identifier.rs"


def nibble_fmt(m):
    f = m.group("f")
    return "crate::vrev::hex_dot_hex(first, second)" if f == "{first:x}.{second:x}" else f'crate::vrev::fmt2("{f}", first, second)'


def chain(m):
    rev = "true" if m.group("rev") else "false"
    f = m.group("f").strip()
    sep = m.group("sep")
    if re.fullmatch(r"\|(\w+)\| \1\.to_string\(\)", f):
        return f"crate::vrev::map_join_dec(&ip.octets(), {rev}, {sep})"
    return f"crate::vrev::map_join(&ip.octets(), {rev}, {f}, {sep})"


def build():
    u = Unit("revdns", "acmed")
    u.prelude("err", "log", "stdx", "time", "revdns_shims")
    u.drop_derives = {"Debug", "Clone", "Deserialize", "Serialize", "Eq", "PartialEq"}
    u.module("identifier", "use crate::*;\nuse crate::vrev::*;\nuse crate::acme_common::error::Error;")
    u.take(I, "IdentifierType", "identifier")
    u.raw("identifier", "pub struct Identifier { pub id_type: IdentifierType, pub value: String }\n" + SPEC, trusted=False)
    u.verify(I, "u8_to_nibbles_string", "identifier", props=["C05"], fns={"u8_to_nibbles_string": FnSpec(ret="r", sig="""
    ensures
        // RFC 3596 2.5: the low-order nibble first, each nibble as one hexadecimal digit, separated by a dot
        r@ == nibbles(*value), //@C05.ip6_arpa_nibbles_low_order_first
""", rewrites=[("T-BYTES", r"value\.to_ne_bytes\(\)", "[*value]"),
               ("T-FMT", r"format!\(\"(?P<f>[^\"]*)\"\)", nibble_fmt)],
        at=[("before_tail", None, 1, """
    proof {
        let v = *value;
        assert(v & 0x0f == v % 16 && (v >> 4) & 0x0f == v / 16 && v % 16 < 16 && v / 16 < 16) by (bit_vector);
    }""")])})
    u.verify(I, "Identifier::get_tls_alpn_name", "identifier", props=["C05"], fns={"get_tls_alpn_name": FnSpec(ret="r", sig="""
    ensures
        // a DNS identifier is its own name; an IP identifier is named by its reverse-mapping domain (RFC 8738 section 6):
        // the octets in reverse order, in decimal under in-addr.arpa, as nibbles under ip6.arpa
        self.id_type is Dns ==> (r matches Ok(s) && s@ == self.value@),
        self.id_type is Ip ==> (match r {
            Ok(s) => ip_octets(self.value@) matches Some(o) && s@ == reverse_name(o),
            Err(_) => ip_octets(self.value@) is None }), //@C05.ip_identifier_gets_its_reverse_dns_name
""", rewrites=[("T-ITER", r"ip\s*\.octets\(\)\s*\.iter\(\)\s*(?P<rev>\.rev\(\))?\s*\.map\((?P<f>\|\w+\| \w+\.to_string\(\)|\w+)\)\s*\.collect::<Vec<String>>\(\)\s*\.join\((?P<sep>\"[^\"]*\")\)", chain, 2),
               ("T-FMT", r"format!\((?P<f>\"\{dn\}[^\"]*\")\)", lambda m: fmt_to_cat(m.group("f"), "crate::vrev::cat2"), 2)],
        at=[("before_stmt_re", r"let \w+ = format!\(\"\{\w+\}[^\"]*\"\)", 2, """
                    proof {
                        assert(ordered(ip.o@, true).map_values(nib_fn()) =~= ip.o@.reverse().map_values(|b: u8| nibbles(b)));
                    }""")])})
    return u


SPEC = """
pub open spec fn nibbles(v: u8) -> Seq<char> { seq![hexdigit((v % 16) as int), '.', hexdigit((v / 16) as int)] }
pub open spec fn nib_fn() -> spec_fn(u8) -> Seq<char> { |b: u8| nibbles(b) }
pub open spec fn reverse_name(o: Seq<u8>) -> Seq<char> {
    if o.len() == 4 { join(o.reverse().map_values(|b: u8| dec(b)), "."@) + ".in-addr.arpa"@ }
    else { join(o.reverse().map_values(|b: u8| nibbles(b)), "."@) + ".ip6.arpa"@ }
}
"""
