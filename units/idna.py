"""U13a - domain normalisation (acme_common/src/lib.rs::to_idna).  Serves C01 and C16."""
from unit import Unit, FnSpec

L = "acme_common/src/lib.rs"


def build():
    u = Unit("idna", "acme_common")
    u.prelude("stdx", "time", "ac_shims", "vmap")
    u.module("", "use crate::vmap::*;\nuse crate::vstr::*;")
    u.raw("", SPEC)
    u.verify(L, "to_idna", "", props=["C01", "C16"], fns={"to_idna": FnSpec(ret="r", sig="""
    ensures
        // every dot-separated label, in order: lower-cased; ASCII labels (a `*` among them) are otherwise kept,
        // the others become "xn--" + punycode; a label that cannot be encoded is an error
        r matches Ok(v) ==> exists|parts: Seq<Seq<char>>| parts.len() >= 1 && join(parts, '.') == domain_name@
            && (forall|i: int| 0 <= i < parts.len() ==> !(#[trigger] parts[i]).contains('.'))
            && (forall|i: int| 0 <= i < parts.len() ==> label_spec(#[trigger] parts[i]) is Some)
            && v@ == join(parts.map_values(|l: Seq<char>| label_spec(l).unwrap()), '.'), //@C01.dns_names_are_lowercase_a_labels,C16.domain_is_an_a_label_name
        // and the only names refused are those with a label that has no A-label form (no name is turned away for another reason)
        encodable(domain_name@) ==> r is Ok, //@C01.only_a_name_with_an_unencodable_label_is_refused,C16.only_a_name_with_an_unencodable_label_is_refused
""", loops={1: """
    invariant labels_done(views(parts@), idna_parts@, it.index@),
"""}, rewrites=[("T-ITER", r"domain_name\.split\('\.'\)\.collect\(\)", "crate::vmap::split_char(domain_name, '.')"),
                ("T-STR", r"name\.to_lowercase\(\)", "crate::vstr::str_to_lowercase(name)"),
                ("T-STR", r"name\.is_ascii\(\)", "crate::vstr::str_is_ascii(name)"),
                ("T-STR", r"punycode::encode\(&raw_name\)", "crate::vstr::punycode_encode(&raw_name)"),
                ("T-FMT", r"format!\(\"xn--\{(?P<v>\w+)\}\"\)", lambda m: f'crate::vstr::cat2("xn--", &{m.group("v")})'),
                ("T-ITER", r"idna_parts\.join\(\"\.\"\)", "crate::vstr::join_strings(&idna_parts, '.')")],
        at=[("loop_iter", None, 1, "it:"),
            ("before_stmt_re", r"let \w+ = (\w+)\.to_lowercase\(\)", 1, """
        proof { let ps = views(parts@); assert(ps[it.index@] == $1@); assert(label_spec(ps[it.index@]) == label_spec($1@)); assert(join(ps, '.') == domain_name@); }"""),
            ("before_tail", None, 1, """
    proof {
        let ps = views(parts@);
        let out = idna_parts@.map_values(|s: String| s@);
        assert(out =~= ps.map_values(|l: Seq<char>| label_spec(l).unwrap()));
        assert forall|i: int| 0 <= i < ps.len() implies !(#[trigger] ps[i]).contains('.') by { assert(ps[i] == parts@[i]@); }
    }""")])})
    return u


SPEC = """
pub open spec fn labels_done(ps: Seq<Seq<char>>, out: Seq<String>, n: int) -> bool {
    out.len() == n && forall|i: int| 0 <= i < n ==> label_spec(#[trigger] ps[i]) == Some(out[i]@)
}
// every label of the name (however it is cut at its dots - there is one way) has an A-label form
pub open spec fn encodable(d: Seq<char>) -> bool {
    forall|ps: Seq<Seq<char>>| #[trigger] join(ps, '.') == d && (forall|i: int| 0 <= i < ps.len() ==> !(#[trigger] ps[i]).contains('.'))
        ==> (forall|i: int| 0 <= i < ps.len() ==> label_spec(#[trigger] ps[i]) is Some)
}
pub open spec fn label_spec(l: Seq<char>) -> Option<Seq<char>> {
    if all_ascii(l) { Some(lower(l)) } else { match puny(lower(l)) { Some(p) => Some("xn--"@ + p), None => None } }
}
"""
