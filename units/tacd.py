"""U11 - the tls-alpn-01 responder's server loop (tacd/src/openssl_server.rs).  Serves C17 and the ALPN part of C16."""
from unit import Unit, FnSpec

S = "tacd/src/openssl_server.rs"


def incoming_rw(m):
    import re
    ad = "".join((m.group("ad") or "").split())
    if not ad:
        return m.group(0)
    if re.fullmatch(r"\.flatten\(\)|\.filter_map\(Result::ok\)|\.filter_map\(\|(\w+)\|\1\.ok\(\)\)", ad):
        return "crate::vnet::accepted(listener.incoming())"
    if re.fullmatch(r"\.map_while\(Result::ok\)|\.take_while\(Result::is_ok\)|\.map_while\(\|(\w+)\|\1\.ok\(\)\)|\.take_while\(\|(\w+)\|\2\.is_ok\(\)\)", ad):
        return ("crate::vnet::until_first_error(listener.incoming())" if "map_while" in ad else "crate::vnet::results_until_first_error(listener.incoming())")
    return m.group(0)


def spawn_rw(m):
    # the closure given to thread::spawn is the body of a connection thread: inside it, `in_conn_thread__` says so
    return "thread::spawn(Tracked(&mut spawned__), " + m.group(0)[len("thread::spawn("):] + " let ghost in_conn_thread__ = true;"


def spawn_guard(m):
    from rustlex import Undecided
    raise Undecided("thread::spawn is given something else than a closure with a block body (the body of the connection thread cannot be told from the accept loop)")


LOOP_START = "let ghost spawned0__ = spawned__.n; let ghost attempt__ = crate::vnet::is_connection(&stream);"
LOOP_END = """proof {
                // every connection the listener has accepted is handed to a thread of its own in this round (dropping it, or keeping
                // it for later, leaves a peer without an answer for as long as other peers like)
                assert(attempt__ ==> spawned__.n > spawned0__); //@C17.every_accepted_connection_gets_its_own_thread
            }"""


def build():
    u = Unit("tacd", "tacd")
    u.prelude("stdx", "time", "tacd_shims")
    u.take("tacd/src/main.rs", "ALPN_ACME_PROTO_NAME", "")
    u.module("openssl_server", "use crate::*;\nuse crate::acme_common::crypto::{KeyPair, X509Certificate};\n"
             "use crate::anyhow::Result;\nuse crate::openssl::ssl::{self, AlpnError, HandshakeError, SslAcceptor, SslMethod, SslRef, SslStream, SslVersion};\n"
             "use crate::vnet::{TcpListener, UnixListener};\nuse std::sync::Arc;\nuse crate::vnet as thread;")
    u.take(S, "ALPN_ERROR", "openssl_server")
    u.raw("openssl_server", "broadcast use crate::anyhow::axiom_from_origin;")
    u.macro(S, "listen_and_accept")
    u.verify(S, "start", "openssl_server", props=["C17", "C16"], fns={"start": FnSpec(ret="r", try_explicit=True,
        body_start="let ghost in_conn_thread__ = false; let tracked mut spawned__ = crate::vnet::Spawned::none(); let ghost addr_given__ = listen_addr@;", sig="""
    ensures
        // whatever a client does to its own connection, the server goes on accepting: start never ends on an error of one connection
        r matches Err(e) ==> e.origin@ != 1, //@C17.a_connection_cannot_end_the_accept_loop
""", rewrites=[
        ("T-ANYHOW", r"bail!\((?P<m>\"[^\"]*\")\)", r"return Err(crate::anyhow::msg(\g<m>))"),
        ("T-STR", r"listen_addr\.starts_with\((?P<p>\"[^\"]*\")\)", r"crate::vnet::str_starts_with(listen_addr, \g<p>)"),
        ("T-STR", r"&listen_addr\[(?P<n>\d+)\.\.\]", r"crate::vnet::str_from(listen_addr, \g<n>)"),
        ("T-CLOSURE", r"\|_, client\| \{",
         "|_ssl: &mut ssl::SslRef, client: &[u8]| -> (sel: std::result::Result<&[u8], AlpnError>)\n"
         "            ensures (match sel { Ok(p) => p@ == ssl::acme_tls_1() && ssl::wire_offers(client@, ssl::acme_tls_1()),\n"
         "                                 Err(e) => e == AlpnError::ALERT_FATAL && !ssl::wire_offers(client@, ssl::acme_tls_1()) }) //@C16.alpn_callback\n        {"),
        # the listener's stream of connection attempts, possibly behind an iterator adapter: one that keeps every accepted
        # connection, or one that stops at the first failed accept (then the accept loop ends on an error of one connection)
        ("T-ITER", r"listener\.incoming\(\)(?P<ad>\s*\.\s*\w+\((?:[^()]|\([^()]*\))*\))?", incoming_rw, 2),
        # connection threads: the closure body is marked, every spawn is counted, and the (blocking) handshake says where it runs
        ("T-THREAD", r"thread::spawn\((?:move )?\|\| \{", spawn_rw, None),
        ("T-THREAD", r"thread::spawn\((?!(?:move )?\|\| \{)", spawn_guard, None),
        ("T-THREAD", r"\.accept\((?P<a>[^()]*)\)", r".accept(\g<a>, Ghost(in_conn_thread__))", None),
        ("T-THREAD", r"\b(?:std::)?process::exit\(", "crate::vnet::process_exit(", None),
        # the unix socket that is bound is checked against the address tacd was given, whatever the local is called
        ("T-THREAD", r"UnixListener::bind\((?P<a>[^()]*)\)", r"UnixListener::bind_path(\g<a>, Ghost(addr_given__))", None),
    ], at=[("before_stmt_re", r"let \w+ = &listen_addr\[", 1, 'proof { reveal_strlit("unix:"); }'),
           ("before_stmt_re", r"UnixListener::bind", 1, 'proof { reveal_strlit("unix:"); }'),
           ("loop_start", None, 1, LOOP_START), ("loop_end", None, 1, LOOP_END),
           ("loop_start", None, 2, LOOP_START), ("loop_end", None, 2, LOOP_END)])})
    return u
