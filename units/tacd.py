"""U11 - the tls-alpn-01 responder's server loop (tacd/src/openssl_server.rs).  Serves C17 and the ALPN part of C16."""
from unit import Unit, FnSpec

S = "tacd/src/openssl_server.rs"


def incoming_rw(m):
    import re
    ad = "".join((m.group("ad") or "").split())
    if not ad:
        return m.group(0)
    if re.fullmatch(r"\.flatten\(\)|\.filter_map\(Result::ok\)|\.filter_map\(\|(\w+)\|\1\.ok\(\)\)", ad):
        return "crate::vnet::accepted(listener.incoming())"
    if re.fullmatch(r"\.map_while\(Result::ok\)|\.take_while\(Result::is_ok\)|\.map_while\(\|(\w+)\|\1\.ok\(\)\)|\.take_while\(\|(\w+)\|\2\.is_ok\(\)\)", ad):
        return ("crate::vnet::until_first_error(listener.incoming())" if "map_while" in ad else "crate::vnet::results_until_first_error(listener.incoming())")
    return m.group(0)


def build():
    u = Unit("tacd", "tacd")
    u.prelude("stdx", "tacd_shims")
    u.take("tacd/src/main.rs", "ALPN_ACME_PROTO_NAME", "")
    u.module("openssl_server", "use crate::*;\nuse crate::acme_common::crypto::{KeyPair, X509Certificate};\n"
             "use crate::anyhow::Result;\nuse crate::openssl::ssl::{self, AlpnError, HandshakeError, SslAcceptor, SslMethod, SslRef, SslStream, SslVersion};\n"
             "use crate::vnet::{TcpListener, UnixListener};\nuse std::sync::Arc;\nuse crate::vnet as thread;")
    u.take(S, "ALPN_ERROR", "openssl_server")
    u.raw("openssl_server", "broadcast use crate::anyhow::axiom_from_origin;")
    u.macro(S, "listen_and_accept")
    u.verify(S, "start", "openssl_server", props=["C17", "C16"], fns={"start": FnSpec(ret="r", try_explicit=True, sig="""
    ensures
        // whatever a client does to its own connection, the server goes on accepting: start never ends on an error of one connection
        r matches Err(e) ==> e.origin@ != 1, //@C17.a_connection_cannot_end_the_accept_loop
""", rewrites=[
        ("T-ANYHOW", r"bail!\((?P<m>\"[^\"]*\")\)", r"return Err(crate::anyhow::msg(\g<m>))"),
        ("T-STR", r"listen_addr\.starts_with\((?P<p>\"[^\"]*\")\)", r"crate::vnet::str_starts_with(listen_addr, \g<p>)"),
        ("T-STR", r"&listen_addr\[(?P<n>\d+)\.\.\]", r"crate::vnet::str_from(listen_addr, \g<n>)"),
        ("T-CLOSURE", r"\|_, client\| \{",
         "|_ssl: &mut ssl::SslRef, client: &[u8]| -> (sel: std::result::Result<&[u8], AlpnError>)\n"
         "            ensures (match sel { Ok(p) => p@ == ssl::acme_tls_1() && ssl::wire_offers(client@, ssl::acme_tls_1()),\n"
         "                                 Err(e) => e == AlpnError::ALERT_FATAL && !ssl::wire_offers(client@, ssl::acme_tls_1()) }) //@C16.alpn_callback\n        {"),
        # the listener's stream of connection attempts, possibly behind an iterator adapter: one that keeps every accepted
        # connection, or one that stops at the first failed accept (then the accept loop ends on an error of one connection)
        ("T-ITER", r"listener\.incoming\(\)(?P<ad>\s*\.\s*\w+\((?:[^()]|\([^()]*\))*\))?", incoming_rw, 2),
    ], at=[("before_stmt_re", r"let \w+ = &listen_addr\[", 1, 'proof { reveal_strlit("unix:"); }')])})
    return u
