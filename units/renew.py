"""U3 - one renewal task step (acmed/src/main_event_loop.rs::renew_certificate).  Serves C07 and C06."""
from unit import Unit, FnSpec

M = "acmed/src/main_event_loop.rs"


def build():
    u = Unit("renew", "acmed")
    u.prelude("err", "log", "stdx", "time")
    u.raw("", WORLD, trusted=True)
    u.ghost_call("sleep", quals=("",))
    u.ghost_call("schedule_renewal", method=True)
    u.ghost_call("request_certificate", quals=("",))
    u.ghost_call("call_post_operation_hooks", method=True)
    u.module("main_event_loop", "use crate::*;\nuse crate::shims::*;\nuse crate::acme_common::error::Error;\nuse std::time::Duration;")
    u.verify(M, "renew_certificate", "main_event_loop", props=["C07", "C06", "C09", "C10"], fns={"renew_certificate": FnSpec(ret="r", ghost=True, sig="""
    requires -CLOCK_MAX() <= old(w).clock <= CLOCK_MAX(),
    ensures
        // exactly one request and exactly one post-operation hook run per attempt
        final(w).requests == old(w).requests + 1, //@C07.one_request_per_attempt
        final(w).postops == old(w).postops + 1, //@C07.post_operation_hooks_exactly_once,C10.post_operation_hooks_exactly_once
        // success is reported iff the request succeeded, failure carries the error text
        final(w).last_postop_success == final(w).last_request_ok, //@C07.reported_status_is_request_outcome,C10.reported_status_is_request_outcome,C02.reported_status_is_request_outcome,C03.reported_status_is_request_outcome
        final(w).last_request_ok ==> final(w).last_postop_status == "success"@, //@C07.success_text,C10.success_text
        !final(w).last_request_ok ==> final(w).last_postop_status == prefix_spec(final(w).last_request_err, "unable to renew the certificate"@), //@C07.failure_carries_error_text,C10.failure_carries_error_text
        // after a failure at least a second passes before this task is handed back (and re-queued)
        !final(w).last_request_ok ==> final(w).slept_since_request >= 1_000_000_000, //@C07.pause_after_failure
        // the task hands back the very handles it was given: the account and the endpoint (with its rate limiter) stay the shared ones
        r.1 == account_s && r.2 == endpoint_s, //@C09.the_task_hands_back_the_shared_endpoint
""", loops={1: """
    invariant w.requests == old(w).requests, w.postops == old(w).postops, w.clock <= CLOCK_MAX(),
        backoff@ == seq![60u64, 600u64, 6000u64, 86400u64],
        (scheduling_retries as int) * 60_000_000_000 <= w.clock - old(w).clock,
        w.clock >= old(w).clock, old(w).clock >= -CLOCK_MAX(),
    ensures w.due is Some && w.slept == w.due, w.requests == old(w).requests, w.postops == old(w).postops,
    decreases CLOCK_MAX() - w.clock,
"""}, rewrites=[("T-LIFETIME", r"fn renew_certificate\(", "fn renew_certificate<'a__>("),
                 ("T-LIFETIME", r"certificate: &mut Certificate", "certificate: &'a__ mut Certificate"),
                 ("T-LIFETIME", r"\(&mut Certificate, AccountSync", "(&'a__ mut Certificate, AccountSync")],
        at=[("before_stmt_re", r"scheduling_retries\s*(?:\+=|=)[^=]", 2, """
                proof {
                    let c0 = old(w).clock; let c1 = w.clock; let sr = scheduling_retries as int;
                    assert(sr * 60_000_000_000 + 60_000_000_000 <= c1 - c0) by (nonlinear_arith)
                        requires sr * 60_000_000_000 <= clock_before - c0, c1 >= clock_before + 60_000_000_000;
                    assert(sr < 1_000_000_000) by (nonlinear_arith)
                        requires sr * 60_000_000_000 + 60_000_000_000 <= c1 - c0, c1 <= 0x7fff_ffff_ffff_ffff, c0 >= -0x7fff_ffff_ffff_ffff;
                }"""),
          ("after_open", "Err(e) =>", 1, "let ghost clock_before = w.clock;"),
          ])})
    return u


WORLD = """
// Ghost world of one renewal task: what happened, in counters and last values.
pub tracked struct World {
    pub ghost clock: int,                     // nanoseconds
    pub ghost due: Option<nat>,               // the wait schedule_renewal asked for (None after an error)
    pub ghost slept: Option<nat>,             // duration of the latest sleep, if nothing else happened since
    pub ghost requests: nat,
    pub ghost last_request_ok: bool,
    pub ghost last_request_err: Seq<char>,
    pub ghost slept_since_request: nat,
    pub ghost postops: nat,
    pub ghost last_postop_success: bool,
    pub ghost last_postop_status: Seq<char>,
}
// assumption A-CLOCK: the process does not outlive the range of a 64-bit nanosecond clock (about 292 years)
pub open spec fn CLOCK_MAX() -> int { 0x7fff_ffff_ffff_ffff }
pub open spec fn prefix_spec(msg: Seq<char>, prefix: Seq<char>) -> Seq<char> { crate::acme_common::error::error_prefix_spec(msg, prefix) }
pub mod shims {
    use vstd::prelude::*;
    use crate::*;
    use crate::acme_common::error::Error;
    use std::time::Duration;
    verus! {
    // the fields of certificate.rs::Certificate a renewal task may look at (their content is decided elsewhere)
    pub struct FileManager { pub opaque: u8 }
    pub struct Certificate { pub account_name: String, pub endpoint_name: String, pub crt_name: String, pub kp_reuse: bool,
        pub renew_delay: Duration, pub random_early_renew: Duration, pub file_manager: FileManager }
    pub mod storage {
        use vstd::prelude::*;
        verus! {
        // storage.rs::certificate_files_exists (unit storage): reads the disk, changes nothing; the answer is whatever the disk says
        #[verifier::external_body]
        pub fn certificate_files_exists(fm: &super::FileManager) -> bool { unimplemented!() }
        #[verifier::external_body]
        pub fn account_files_exists(fm: &super::FileManager) -> bool { unimplemented!() }
        }
    }
    pub use storage::{certificate_files_exists, account_files_exists};
    pub struct AccountSync { pub opaque: u8 }
    pub struct EndpointSync { pub opaque: u8 }
    impl Clone for AccountSync { #[verifier::external_body] fn clone(&self) -> (r: Self) ensures r == *self { unimplemented!() } }
    impl Clone for EndpointSync { #[verifier::external_body] fn clone(&self) -> (r: Self) ensures r == *self { unimplemented!() } }
    // tokio::time::sleep(d).await
    #[verifier::external_body]
    pub fn sleep(d: Duration, Tracked(w): Tracked<&mut World>)
        ensures final(w).clock >= old(w).clock + dur(d), final(w).clock <= CLOCK_MAX(),
            final(w).slept == Some(dur(d)), final(w).slept_since_request == old(w).slept_since_request + dur(d),
            final(w).due == old(w).due, final(w).requests == old(w).requests, final(w).postops == old(w).postops,
            final(w).last_request_ok == old(w).last_request_ok, final(w).last_request_err == old(w).last_request_err,
            final(w).last_postop_success == old(w).last_postop_success, final(w).last_postop_status == old(w).last_postop_status,
    { unimplemented!() }
    impl Certificate {
        // verified in unit `schedule`; here: the value it returns is remembered as `due`
        #[verifier::external_body]
        pub fn schedule_renewal(&self, Tracked(w): Tracked<&mut World>) -> (r: Result<Duration, Error>)
            ensures final(w).clock >= old(w).clock, final(w).clock <= CLOCK_MAX(),
                final(w).due == (match r { Ok(d) => Some(dur(d)), Err(_) => None }), final(w).slept is None,
                final(w).requests == old(w).requests, final(w).postops == old(w).postops,
                final(w).slept_since_request == old(w).slept_since_request,
                final(w).last_request_ok == old(w).last_request_ok, final(w).last_request_err == old(w).last_request_err,
                final(w).last_postop_success == old(w).last_postop_success, final(w).last_postop_status == old(w).last_postop_status,
        { unimplemented!() }
        #[verifier::external_body]
        pub fn warn(&self, msg: &str) { unimplemented!() }
        #[verifier::external_body]
        pub fn info(&self, msg: &str) { unimplemented!() }
        #[verifier::external_body]
        pub fn debug(&self, msg: &str) { unimplemented!() }
        #[verifier::external_body]
        pub fn trace(&self, msg: &str) { unimplemented!() }
        #[verifier::external_body]
        pub fn get_id(&self) -> String { unimplemented!() }
        // verified in unit `schedule`; here: the call is recorded
        #[verifier::external_body]
        pub fn call_post_operation_hooks(&self, status: &str, is_success: bool, Tracked(w): Tracked<&mut World>) -> (r: Result<(), Error>)
            ensures final(w).clock >= old(w).clock, final(w).clock <= CLOCK_MAX(),
                final(w).postops == old(w).postops + 1, final(w).last_postop_success == is_success, final(w).last_postop_status == status@,
                final(w).requests == old(w).requests, final(w).last_request_ok == old(w).last_request_ok, final(w).last_request_err == old(w).last_request_err,
                final(w).slept_since_request == old(w).slept_since_request, final(w).due == old(w).due, final(w).slept == old(w).slept,
        { unimplemented!() }
    }
    // C06: the request is issued right after sleeping exactly the time schedule_renewal returned
    #[verifier::external_body]
    pub fn request_certificate(c: &Certificate, a: AccountSync, e: EndpointSync, Tracked(w): Tracked<&mut World>) -> (r: Result<(), Error>)
        requires old(w).due is Some && old(w).slept == old(w).due, //@C06.request_follows_the_scheduled_wait
        ensures final(w).clock >= old(w).clock, final(w).clock <= CLOCK_MAX(),
            final(w).requests == old(w).requests + 1, final(w).last_request_ok == (r is Ok),
            (r matches Err(e) ==> final(w).last_request_err == e.message@),
            final(w).slept_since_request == 0, final(w).slept is None, final(w).due is None,
            final(w).postops == old(w).postops,
            final(w).last_postop_success == old(w).last_postop_success, final(w).last_postop_status == old(w).last_postop_status,
    { unimplemented!() }
    }
}
"""
