"""main_event_loop.rs::MainEventLoop::new - how the configuration reaches the run-time objects.  Serves C10 (split of a
certificate's hooks into file hooks and certificate hooks), C13 (FileManager carries the configured modes / owners),
C14 (duplicate certificate id, unknown account, values from the most-specific-wins getters)."""
from unit import Unit, FnSpec

M = "acmed/src/main_event_loop.rs"

FM_OK = """fm_common_ok(cnf, fm)"""


def build():
    u = Unit("evloop", "acmed")
    u.prelude("err", "log", "stdx", "time", "evloop_shims")
    u.drop_derives = {"Debug", "Deserialize", "Clone"}
    u.module("config", "pub use crate::cfgshim::*;")
    u.take("acmed/src/config.rs", "HookType", "config", keep_derives=("Eq", "Hash", "PartialEq"))
    u.module("hooks", "pub use crate::config::HookType;\npub use crate::shims::Hook;")
    u.module("storage", "use crate::shims::*;")
    u.take("acmed/src/storage.rs", "FileManager", "storage")
    u.module("certificate", "use crate::shims::*;\nuse crate::storage::FileManager;\nuse std::time::Duration;")
    u.take("acmed/src/certificate.rs", "Certificate", "certificate")
    u.raw("certificate", CERT_STUBS, trusted=True)
    u.module("main_event_loop", "use crate::*;\nuse crate::shims::*;\nuse crate::shims::Account;\nuse crate::certificate::Certificate;\nuse crate::config;\nuse crate::config::*;\n"
             "use crate::hooks::HookType;\nuse crate::storage::FileManager;\nuse crate::acme_common::error::Error;")
    u.take(M, "MainEventLoop", "main_event_loop")
    u.raw("main_event_loop", SPEC)
    # X.iter().filter(|h| [!]h.hook_type.is_disjoint(&SET)).map(|e| e.to_owned()).collect(): with the `!` the hooks that have a type in SET
    FILTERS = {("!", "is_disjoint"): "hooks_touching", ("", "is_disjoint"): "hooks_not_touching", ("", "is_subset"): "hooks_within", ("!", "is_subset"): "hooks_not_within"}
    touching = ("T-ITER", r"(?P<x>acc\s*\.get_hooks\(&cnf\)\?|hooks)\s*\.iter\(\)\s*\.filter\(\|h\| (?P<n>!?)h\.hook_type\.(?P<op>is_disjoint|is_subset)\(&(?P<s>\w+)\)\)\s*\.map\(\|e\| e\.(?:to_owned|clone)\(\)\)\s*\.collect\(\)",
                lambda m: f"crate::shims::{FILTERS[(m.group('n'), m.group('op'))]}(&{' '.join(m.group('x').split())}, &{m.group('s')})", 3)

    def hookset_rw(m):
        elems = ", ".join(x.strip() for x in m.group("b").split(",") if x.strip())
        return ("{ let hs__ = crate::shims::hookset(vec![" + m.group("b") + "]); proof { assert(hset(hs__) =~= set![" + elems + "]); } hs__ }")
    u.verify(M, "MainEventLoop::new", "main_event_loop", props=["C10", "C13", "C14", "C18", "C06", "C01", "C05", "C02", "C03", "C07"], fns={"new": FnSpec(ret="r", sig="""
    ensures
        // every configured certificate has its run-time object under its own id: two certificates with the same id are an error,
        // and so is a certificate whose account is not configured
        r matches Ok(l) ==> loaded(config_of(config_file@), root_certs@, l), //@C14.duplicate_id_and_unknown_account_are_errors,C18.every_endpoint_gets_the_command_line_roots
""", loops={1: """
    invariant cnf == config_of(config_file@),
        forall|j: int| 0 <= j < it1.index@ ==> accounts@.dom().contains(cnf.account@[j].name@),
""", 2: """
    invariant
        forall|j: int| 0 <= j < cnf.account@.len() ==> accounts@.dom().contains(cnf.account@[j].name@),
        cnf == config_of(config_file@),
        forall|j: int| 0 <= j < it2.index@ ==> built(cnf, root_certs@, #[trigger] cnf.certificate@[j], certificates@, accounts@.dom(), endpoints@),
        forall|i: int, j: int| 0 <= i < j < it2.index@ ==> cfg_id(#[trigger] cnf.certificate@[i]) != cfg_id(#[trigger] cnf.certificate@[j]),
        forall|k: Seq<char>| certificates@.dom().contains(k) ==> exists|j: int| 0 <= j < it2.index@ && k == cfg_id(#[trigger] cnf.certificate@[j]),
        forall|n: Seq<char>| endpoints@.dom().contains(n) ==> roots_text((#[trigger] endpoints@[n]).cmdline_roots@) == roots_text(root_certs@),
"""},
        rewrites=[("T-ITER", r"vec!\[(?P<b>[^\]]*)\]\s*\.into_iter\(\)\s*\.collect\(\)", hookset_rw, None),
                  touching,
                  ("T-ITER", r"for acc in &cnf\.account", "for acc in it1: cnf.account.iter()"),
                  ("T-ITER", r"for crt in cnf\.certificate\.iter\(\)", "for crt in it2: cnf.certificate.iter()"),
                  ("T-ITER", r"(?P<m>accounts|endpoints)\s*\.iter\(\)\s*\.map\(\|\(k, v\)\| \(k\.to_owned\(\), Arc::new\(RwLock::new\(v\.to_owned\(\)\)\)\)\)\s*\.collect\(\)",
                   lambda m: f"crate::shims::to_sync_map(&{m.group('m')})", 2),
                  ],
        at=[
            ("after_stmt", "let fm = FileManager {", 1, """
            proof {
                assert(fm_common_ok(cnf, fm) && fm.account_name@ == acc.name@); //@C13.file_manager_carries_the_configured_modes_and_owners
                assert(acc_hooks(*acc, cnf) matches Some(h) && fm.hooks@ == h.filter(|h: Hook| touches(h, file_hook_types()))); //@C10.account_file_manager_gets_the_file_hooks
            }"""),
            ("after_stmt", "let cert = Certificate {", 1, """
            proof {
                // what the run-time certificate is made of, one concern at a time
                assert(cert_hooks_ok(cnf, *crt, cert)); //@C10.certificate_hooks_split_by_type,C07.certificate_hooks_split_by_type,C05.certificate_hooks_split_by_type
                assert(fm_common_ok(cnf, cert.file_manager)); //@C13.file_manager_carries_the_configured_modes_and_owners,C02.file_manager_carries_the_configured_extensions,C03.file_manager_carries_the_configured_extensions
                assert(cert_renew_ok(cnf, *crt, cert)); //@C06.the_certificate_is_scheduled_with_the_configured_renew_delay_and_early_renew,C14.values_come_from_the_most_specific_wins_getters
                assert(cert_names_ok(cnf, *crt, root_certs@, cert)); //@C14.values_come_from_the_most_specific_wins_getters
                assert(cert_env_ok(*crt, cert)); //@C10.certificate_environment_is_the_configured_one
                assert(cert_request_ok(*crt, cert)); //@C01.the_certificate_is_requested_with_the_configured_identifiers_subject_and_digest,C05.the_certificate_is_requested_with_the_configured_identifiers_subject_and_digest,C02.key_type_and_key_reuse_are_the_configured_ones
                assert(cert_ok(cnf, *crt, root_certs@, cert));
            }"""),
            ])})
    u.raw("main_event_loop", RUN_SPEC, trusted=True)
    u.verify(M, "MainEventLoop::run", "main_event_loop", props=["C09"], fns={"run": FnSpec(sig="""
    ensures *final(self) == *old(self),
""", loops={r"\.certificates\b": """
    invariant *self == *old(self),
        // every task works with the account and the endpoint objects of the event loop themselves: all the certificates of an
        // endpoint go through one rate limiter and one nonce store
        forall|i: int| 0 <= i < renewals.v@.len() ==> task_ok(#[trigger] renewals.v@[i], *self), //@C09.certificates_of_an_endpoint_share_its_limiter
""", r"^loop$": """
    invariant *self == *old(self),
        forall|i: int| 0 <= i < renewals.v@.len() ==> task_ok(#[trigger] renewals.v@[i], *self), //@C09.certificates_of_an_endpoint_share_its_limiter
"""}, attrs="#[verifier::exec_allows_no_decreases_clause]",
        rewrites=[("T-ITER", r"for \(_, (?P<c>\w+)\) in self\.certificates\.iter_mut\(\)", r"for \g<c> in self.certificates.values_vec()"),
                  ("T-ITER", r"for (?P<c>\w+) in self\.certificates\.values_mut\(\)", r"for \g<c> in self.certificates.values_vec()", None)][:1])})
    return u


RUN_SPEC = """
// one renewal task as T-ASYNC leaves it: the certificate it is for and the two shared handles it works with
pub open spec fn task_ok(t: (&Certificate, AccountSync, EndpointSync), l: MainEventLoop) -> bool {
    l.endpoints@.dom().contains(t.0.endpoint_name@) && t.2.cell == l.endpoints@[t.0.endpoint_name@].cell
    && l.accounts@.dom().contains(t.0.account_name@) && t.1.cell == l.accounts@[t.0.account_name@].cell
}
// main_event_loop.rs::renew_certificate (verified in unit renew: one attempt, then the same handles are handed back)
#[verifier::external_body]
fn renew_certificate<'a>(certificate: &'a Certificate, account_s: AccountSync, endpoint_s: EndpointSync) -> (r: (&'a Certificate, AccountSync, EndpointSync))
    ensures r.0 == certificate && r.1 == account_s && r.2 == endpoint_s { unimplemented!() }
"""

CERT_STUBS = """
// certificate.rs::Certificate::get_id: "<crt_name>_<key_type>"
pub uninterp spec fn cert_id(name: Seq<char>, kt: KeyType) -> Seq<char>;
impl Certificate {
    #[verifier::external_body]
    pub fn get_id(&self) -> (r: String) ensures r@ == cert_id(self.crt_name@, self.key_type) { unimplemented!() }
}
"""

SPEC = """
pub open spec fn file_hook_types() -> Set<HookType> {
    set![HookType::FilePreCreate, HookType::FilePostCreate, HookType::FilePreEdit, HookType::FilePostEdit]
}
pub open spec fn cert_hook_types() -> Set<HookType> {
    set![HookType::ChallengeHttp01, HookType::ChallengeHttp01Clean, HookType::ChallengeDns01, HookType::ChallengeDns01Clean,
         HookType::ChallengeTlsAlpn01, HookType::ChallengeTlsAlpn01Clean, HookType::PostOperation]
}
// the nine global file settings reach every FileManager unchanged
pub open spec fn fm_common_ok(cnf: Config, fm: FileManager) -> bool {
    fm.account_directory@ == account_dir(cnf)
    && fm.cert_file_mode == cert_file_mode(cnf) && fm.cert_file_owner == cert_file_user(cnf) && fm.cert_file_group == cert_file_group(cnf) && fm.cert_file_ext == cert_file_ext(cnf)
    && fm.pk_file_mode == pk_file_mode(cnf) && fm.pk_file_owner == pk_file_user(cnf) && fm.pk_file_group == pk_file_group(cnf) && fm.pk_file_ext == pk_file_ext(cnf)
}
// the run-time certificate built for a configured one
pub open spec fn cert_hooks_ok(cnf: Config, crt: config::Certificate, c: Certificate) -> bool {
    crt_hooks(crt, cnf) matches Some(h) && c.hooks@ == h.filter(|h: Hook| touches(h, cert_hook_types()))
        && c.file_manager.hooks@ == h.filter(|h: Hook| touches(h, file_hook_types()))
}
pub open spec fn cert_renew_ok(cnf: Config, crt: config::Certificate, c: Certificate) -> bool {
    crt_renew_delay(crt, cnf) == Some(c.renew_delay) && crt_random_early_renew(crt, cnf) == Some(c.random_early_renew)
}
pub open spec fn cert_names_ok(cnf: Config, crt: config::Certificate, roots: Seq<&str>, c: Certificate) -> bool {
    &&& crt_name(crt) == Some(c.crt_name@) && crt_key_type(crt) == Some(c.key_type)
    &&& c.file_manager.crt_name@ == c.crt_name@ && c.file_manager.crt_key_type@ == key_type_text(c.key_type)
    &&& crt_name_format(crt, cnf) == Some(c.file_manager.crt_name_format@) && c.file_manager.crt_directory@ == crt_dir(crt, cnf)
    &&& c.account_name@ == crt.account@ && c.file_manager.account_name@ == crt.account@
    &&& crt_endpoint_name(crt, cnf, roots) == Some(c.endpoint_name@)
}
// what the order and the CSR are made from: the configured identifiers (each with its challenge), subject, digest, key type, key re-use
pub open spec fn cert_request_ok(crt: config::Certificate, c: Certificate) -> bool {
    crt_identifiers(crt) == Some(c.identifiers@) && crt_csr_digest(crt) == Some(c.csr_digest) && c.kp_reuse == crt_kp_reuse(crt)
    && c.subject_attributes == subject_generic(crt.subject_attributes) && crt_key_type(crt) == Some(c.key_type)
}
pub open spec fn cert_env_ok(crt: config::Certificate, c: Certificate) -> bool { c.env == crt.env && c.file_manager.env == crt.env }
pub open spec fn cert_ok(cnf: Config, crt: config::Certificate, roots: Seq<&str>, c: Certificate) -> bool {
    &&& cert_hooks_ok(cnf, crt, c)
    &&& fm_common_ok(cnf, c.file_manager)
    &&& cert_renew_ok(cnf, crt, c)
    &&& cert_names_ok(cnf, crt, roots, c)
    &&& cert_env_ok(crt, c)
    &&& cert_request_ok(crt, c)
}
pub open spec fn sync_values(m: Map<Seq<char>, EndpointSync>) -> Map<Seq<char>, Endpoint> { Map::new(m.dom(), |k: Seq<char>| m[k].v.v) }
// the id a configured certificate gets: "<name>_<key type>"
pub open spec fn cfg_id(crt: config::Certificate) -> Seq<char> { crate::certificate::cert_id(crt_name(crt).unwrap(), crt_key_type(crt).unwrap()) }
// crt has its run-time object under its id, its account and its endpoint are known
pub open spec fn built(cnf: Config, roots: Seq<&str>, crt: config::Certificate, certs: Map<Seq<char>, Certificate>, accounts: Set<Seq<char>>, endpoints: Map<Seq<char>, Endpoint>) -> bool {
    certs.dom().contains(cfg_id(crt)) && cert_ok(cnf, crt, roots, certs[cfg_id(crt)])
    && accounts.contains(crt.account@) && endpoints.dom().contains(certs[cfg_id(crt)].endpoint_name@)
    // the endpoint object of the certificate has been built with the root certificates of the command line (C18)
    && roots_text(endpoints[certs[cfg_id(crt)].endpoint_name@].cmdline_roots@) == roots_text(roots)
}
pub open spec fn loaded(cnf: Config, roots: Seq<&str>, l: MainEventLoop) -> bool {
    (forall|i: int, j: int| 0 <= i < j < cnf.certificate@.len() ==> cfg_id(#[trigger] cnf.certificate@[i]) != cfg_id(#[trigger] cnf.certificate@[j]))
    && (forall|j: int| 0 <= j < cnf.certificate@.len() ==> built(cnf, roots, #[trigger] cnf.certificate@[j], l.certificates@, l.accounts@.dom(), sync_values(l.endpoints@)))
}
"""
