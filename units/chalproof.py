"""U13c - challenge proofs (acmed/src/acme_proto/structs/authorization.rs).  Serves C05."""
import re
from unit import Unit, FnSpec

A = "acmed/src/acme_proto/structs/authorization.rs"
AP = "acmed/src/acme_proto.rs"


def fmtx(lit, positional=(), kinds=None):
    """T-FMT (exact form with number formatting): `{name}` string variable, `{NAME}` usize constant printed in decimal,
    `{NAME:02x}` / `{:02x}` two-digit hex, `{}` positional string; result: nested cat2"""
    kinds = kinds or {}
    body = lit[1:-1]
    parts, i, cur, pos = [], 0, "", list(positional)
    while i < len(body):
        ch = body[i]
        if ch == "{":
            j = body.find("}", i)
            ph = body[i + 1:j]
            name, _, spec = ph.partition(":")
            if cur:
                parts.append('"' + cur + '"'); cur = ""
            arg = name if name else pos.pop(0)
            if spec == "02x":
                parts.append(f"&crate::vproof::fmt_hex2({arg})")
            elif spec == "":
                if kinds.get(arg) == "dec":
                    parts.append(f"&crate::vproof::fmt_dec({arg})")
                else:
                    parts.append(arg if arg.startswith("&") else "&" + arg)
            else:
                raise Exception("T-FMT: unsupported format spec " + spec)
            i = j + 1
            continue
        cur += ch
        i += 1
    if cur:
        parts.append('"' + cur + '"')
    expr = parts[0]
    for p in parts[1:]:
        expr = f"&crate::vproof::cat2({expr}, {p})"
    return expr[1:] if expr.startswith("&crate") else f"crate::vproof::cat2({expr}, \"\")"


def build():
    u = Unit("chalproof", "acmed")
    u.prelude("err", "stdx", "time", "proof_shims")
    u.drop_derives = {"Debug", "Clone", "Copy", "Eq", "PartialEq"}
    u.module("acme_proto", "use crate::*;")
    u.take(AP, "Challenge", "acme_proto")
    u.module("acme_proto::structs", "use crate::*;\nuse crate::vproof::*;\nuse crate::acme_common::error::Error;")
    for c in ["ACME_OID", "ID_PE_ACME_ID", "DER_OCTET_STRING_ID", "DER_STRUCT_NAME"]:
        u.take(A, c, "acme_proto::structs")
    u.raw("acme_proto::structs", "pub struct HttpApiError { pub opaque: u8 }\n", trusted=True)
    u.take(A, "ChallengeStatus", "acme_proto::structs")
    u.take(A, "TokenChallenge", "acme_proto::structs")
    u.take(A, "Challenge", "acme_proto::structs")
    u.raw("acme_proto::structs", SPEC)
    u.verify(A, "TokenChallenge::key_authorization", "acme_proto::structs", props=["C05"], fns={"key_authorization": FnSpec(ret="r", sig="""
    ensures r matches Ok(ka) ==> ka@ == key_auth(self.token@, *key_pair), //@C05.key_authorization_is_token_dot_thumbprint,C15.key_authorization_is_token_dot_thumbprint
""", rewrites=[("T-STR", r"thumbprint\.to_string\(\)\.as_bytes\(\)", "crate::vproof::str_as_bytes(&thumbprint.to_string())"),
               ("T-B64", r"b64_encode\(&thumbprint\)", "crate::vproof::b64_encode_bytes(&thumbprint)"),
               ("T-FMT", r"format!\(\"\{\}\.\{thumbprint\}\", self\.token\)", lambda m: fmtx('"{}.{thumbprint}"', ["self.token"]))])})
    u.verify(A, "Challenge::get_proof", "acme_proto::structs", props=["C05"], fns={"get_proof": FnSpec(ret="r", sig="""
    ensures
        // RFC 8555 8.3: http-01 serves the key authorization itself
        self matches Challenge::Http01(tc) ==> (r matches Ok(p) ==> p.0@ == key_auth(tc.token@, *key_pair) && p.1 is None), //@C05.http01_proof_is_key_authorization
        // RFC 8555 8.4: dns-01 publishes base64url(SHA-256(key authorization))
        self matches Challenge::Dns01(tc) ==> (r matches Ok(p) ==> p.0@ == b64url(sha256(utf8(key_auth(tc.token@, *key_pair)))) && p.1 is None), //@C05.dns01_proof_is_b64_sha256
        // RFC 8737 3: tls-alpn-01 needs the critical acmeIdentifier extension (1.3.6.1.5.5.7.1.31) holding the DER OCTET STRING
        // (tag 04, length 0x20) of SHA-256(key authorization); the raw digest travels as base64url
        self matches Challenge::TlsAlpn01(tc) ==> (r matches Ok(p) ==>
            p.0@ == "1.3.6.1.5.5.7.1.31=critical,DER:04:20:"@ + hex_colon(sha256(utf8(key_auth(tc.token@, *key_pair))))
            && (p.1 matches Some(raw) && raw@ == b64url(sha256(utf8(key_auth(tc.token@, *key_pair)))))), //@C05.tlsalpn01_proof_is_rfc8737_extension_text
""", rewrites=[("T-STR", r"ka\.as_bytes\(\)", "crate::vproof::str_as_bytes(&ka)", 2),
               ("T-B64", r"b64_encode\(&a\)", "crate::vproof::b64_encode_bytes(&a)"),
               ("T-B64", r"b64_encode\(&proof\)", "crate::vproof::b64_encode_bytes(&proof)"),
               # bytes rendered one by one and joined: `{e:02x}` with ":" is the two-digit lower-case hex form; any other format or separator is
               # kept as an uninterpreted rendering (so that the postcondition decides)
               ("T-ITER", r"proof\s*\.iter\(\)\s*\.map\(\|(?P<v>\w+)\| format!\(\"(?P<f>[^\"]*)\"\)\)\s*\.collect::<Vec<String>>\(\)\s*\.join\(\"(?P<sep>[^\"]*)\"\)",
                lambda m: "crate::vproof::hex_colon_join(&proof)" if (m.group("f") == "{" + m.group("v") + ":02x}" and m.group("sep") == ":")
                else f'crate::vproof::fmt_join(&proof, "{m.group("f")}", "{m.group("sep")}")'),
               ("T-FMT", r"format!\(\"\{ACME_OID\}\.\{ID_PE_ACME_ID\}\"\)", lambda m: fmtx('"{ACME_OID}.{ID_PE_ACME_ID}"', kinds={"ID_PE_ACME_ID": "dec"})),
               ("T-FMT", r"format!\(\s*\"critical,\{DER_STRUCT_NAME\}:\{DER_OCTET_STRING_ID:02x\}:\{:02x\}:\{proof_str\}\",\s*proof\.len\(\),\s*\)",
                lambda m: fmtx('"critical,{DER_STRUCT_NAME}:{DER_OCTET_STRING_ID:02x}:{:02x}:{proof_str}"', ["proof.len()"])),
               ("T-FMT", r"format!\(\"\{acme_ext_name\}=\{value\}\"\)", lambda m: fmtx('"{acme_ext_name}={value}"'))],
        at=[("before_stmt", "Ok((acme_ext, Some(b64_hash)))", 1, """
                proof {
                    axiom_number_texts();
                    axiom_sha256_len(utf8(ka@));
                    reveal_strlit("1.3.6.1.5.5.7.1"); reveal_strlit("."); reveal_strlit("31"); reveal_strlit("="); reveal_strlit("critical,");
                    reveal_strlit("DER"); reveal_strlit(":"); reveal_strlit("04"); reveal_strlit("20");
                    reveal_strlit("1.3.6.1.5.5.7.1.31=critical,DER:04:20:");
                    assert(acme_ext@ =~= "1.3.6.1.5.5.7.1.31=critical,DER:04:20:"@ + hex_colon(proof@)); //@C05.tlsalpn01_proof_is_rfc8737_extension_text
                }""")])})
    u.verify(A, "Challenge::get_file_name", "acme_proto::structs", props=["C05"], fns={"get_file_name": FnSpec(ret="r", sig="""
    ensures self matches Challenge::Http01(tc) ==> r@ == tc.token@, //@C05.http01_file_name_is_token
""")})
    u.verify(A, "Challenge::get_url", "acme_proto::structs", props=["C05"], fns={"get_url": FnSpec(ret="r", sig="""
    ensures (self matches Challenge::Http01(tc) ==> r@ == tc.url@), (self matches Challenge::Dns01(tc) ==> r@ == tc.url@),
        (self matches Challenge::TlsAlpn01(tc) ==> r@ == tc.url@), //@C05.challenge_url
""")})
    u.raw("acme_proto", """use crate::acme_proto::structs::same_type;
impl vstd::std_specs::cmp::PartialEqSpecImpl<structs::Challenge> for Challenge {
    open spec fn obeys_eq_spec() -> bool { true }
    open spec fn eq_spec(&self, other: &structs::Challenge) -> bool { same_type(*self, *other) }
}
""")
    u.verify(AP, "impl PartialEq<structs::Challenge> for Challenge", "acme_proto", props=["C05"], fns={"eq": FnSpec(ret="r", sig="""
    ensures r == same_type(*self, *other), //@C05.configured_type_matches_offered_challenge
""")})
    return u


SPEC = """
// RFC 8555 8.1: keyAuthorization = token || '.' || base64url(SHA-256(JWK thumbprint input))
pub open spec fn key_auth(token: Seq<char>, k: KeyPair) -> Seq<char> {
    token + "."@ + b64url(sha256(utf8(thumbprint_json(k))))
}
pub open spec fn same_type(c: crate::acme_proto::Challenge, o: Challenge) -> bool {
    (c is Http01 && o is Http01) || (c is Dns01 && o is Dns01) || (c is TlsAlpn01 && o is TlsAlpn01)
}
"""
