"""U1 - the sliding-window rate limiter (acmed/src/endpoint.rs).  Serves C09, C19."""
import re
from unit import Unit, FnSpec

SRC = "acmed/src/endpoint.rs"

CMP = {">": "inst_gt", ">=": "inst_ge", "<": "inst_lt", "<=": "inst_le"}


def tcmp(body):
    """T-CMP inside a closure body: `A op B` on Instants -> crate::vtime::inst_op(A, B)."""
    m = re.fullmatch(r"\s*(\S+)\s*(>=|<=|>|<)\s*(\S+)\s*", body)
    if not m:
        return None
    return f"crate::vtime::{CMP[m.group(2)]}({m.group(1)}, {m.group(3)})"


def rw_filter_count(m):
    body = tcmp(m.group("body"))
    if body is None:
        raise Exception("T-ITER: closure body outside the supported shape")
    p = m.group("p")
    return (f"crate::titer::count_filter(&{m.group('v').strip()}, move |{p}: &&Instant| -> (b: bool) "
            f"ensures b == ({body}) {{ {body} }})")


def rw_retain(m):
    body = tcmp(m.group("body"))
    if body is None:
        raise Exception("T-ITER: closure body outside the supported shape")
    p = m.group("p")
    return (f"crate::titer::retain(&mut {m.group('v').strip()}, move |{p}_: &Instant| -> (b: bool) "
            f"ensures b == ({{ let {p} = *{p}_; {body} }}) {{ let {p} = *{p}_; {body} }})")


NOW = ("T-CLOCK", r"Instant::now\(\)", "crate::vtime::now(Tracked(&mut *w))", None)


def contracts():
    """FnSpecs of this unit's functions, reusable as stubs by other units."""
    return {
        "get_sleep_duration": FnSpec(ret="r", sig="""
    requires self.wf_limits(), //@C19.sleep_pre
    ensures self.limits@.len() > 0 ==> dur(r) >= 100 * 1_000_000, //@C09.sleep_min
            dur(r) <= 3_600_000 * 1_000_000nat, //@C09.sleep_max
""", at=[("before", "let nb_mili", 1, "proof { assert(self.lim()[self.limits@.len() - 1].0 >= 1); }")]),
        "request_allowed": FnSpec(ret="r", ghost=True, sig="""
    requires self.wf_limits(),
    ensures final(w).admissions == old(w).admissions, final(w).net == old(w).net, final(w).fs == old(w).fs, //@C09.ra_frame
            final(w).clock >= old(w).clock, //@C09.ra_clock
            // admitted only if every limit has room, measured at the clock on return
            r ==> forall|l: int| 0 <= l < self.lim().len() ==>
                newer(self.log(), final(w).clock - (#[trigger] self.lim()[l]).1).len() < self.lim()[l].0, //@C09.ra_sound
            // refused only if some limit had no room even over the larger window measured at entry:
            // requests are not withheld while every limit has room, whatever the period
            !r ==> exists|l: int| 0 <= l < self.lim().len() &&
                newer(self.log(), old(w).clock - (#[trigger] self.lim()[l]).1).len() >= self.lim()[l].0, //@C09.ra_complete,C19.huge_period_does_not_block_forever,C07.a_request_is_not_withheld_while_every_limit_has_room
""", loops={1: """
    invariant w.admissions == old(w).admissions, w.net == old(w).net, w.fs == old(w).fs, w.clock >= old(w).clock, self.wf_limits(),
        forall|l: int| 0 <= l < iter.index@ ==>
            newer(self.log(), w.clock - (#[trigger] self.lim()[l]).1).len() < self.lim()[l].0,
"""},
            at=[("loop_iter", None, 1, "iter:"),
                ("loop_start", None, 1, "let ghost clock_before = w.clock;"),
                ("after_stmt", "let nb_req", 1, """
                    proof {
                        let l = iter.index@;
                        assert(self.lim()[l] == ((*max_allowed) as int, dur(*duration) as int));
                        let m = w.clock - self.lim()[l].1;
                        // nb_req is the number of logged instants inside the window, in both branches of the match
                        let p = |t: Instant| inst(t) > m;
                        lemma_filter_map(self.query_log@, p, inst_fn(), m);
                        assert(self.query_log@.filter(p).map_values(inst_fn()).len() == self.query_log@.filter(p).len());
                        if m < inst_floor() { lemma_all_newer(self.query_log@, m); }
                        assert(nb_req == newer(self.log(), m).len()); //@C09.the_count_is_the_number_of_logged_requests_in_the_window,C19.the_count_is_the_number_of_logged_requests_in_the_window,C07.the_count_is_the_number_of_logged_requests_in_the_window
                        if nb_req >= *max_allowed {
                            lemma_newer_antitone(self.log(), old(w).clock - self.lim()[l].1, m);
                        }
                    }"""),
                ("loop_end", None, 1, """
                    proof {
                        assert forall|l: int| 0 <= l < iter.index@ + 1 implies
                            newer(self.log(), w.clock - (#[trigger] self.lim()[l]).1).len() < self.lim()[l].0 by {
                            lemma_newer_antitone(self.log(), clock_before - self.lim()[l].1, w.clock - self.lim()[l].1);
                        }
                    }"""),
                ],
            rewrites=[NOW,
                      ("T-ITER", r"(?P<v>self\s*\.\s*query_log)\s*\.iter\(\)\s*\.filter\(move \|(?P<p>\w+)\|(?P<body>[^()]*)\)\s*\.count\(\)", rw_filter_count)]),
        "prune_log": FnSpec(ghost=True, sig="""
    requires old(self).inv(*old(w)),
    ensures final(self).inv(*final(w)), //@C09.pl_inv
            final(w).admissions == old(w).admissions, final(w).net == old(w).net, final(w).fs == old(w).fs, //@C09.pl_frame
            final(w).clock >= old(w).clock, //@C09.pl_clock
            final(self).limits == old(self).limits,
""", rewrites=[NOW,
               ("T-ITER", r"(?P<v>self\s*\.\s*query_log)\s*\.retain\(move \|&(?P<p>\w+)\|(?P<body>[^()]*)\)", rw_retain)],
            at=[("after_stmt", ".retain(", 1, """
                proof {
                    let lg0 = old(self).log();
                    let m = inst(prune_date);
                    let p = |t: Instant| inst(t) > m;
                    assert(self.query_log@ == old(self).query_log@.filter(p));
                    lemma_filter_map(old(self).query_log@, p, inst_fn(), m);
                    assert(self.log() == newer(lg0, m));
                    lemma_sorted_skip(old(w).admissions, old(w).admissions.len() - lg0.len());
                    lemma_filter_suffix(lg0, m);
                    lemma_newer_suffix(lg0, m);
                    let adm = w.admissions;
                    let k0 = adm.len() - lg0.len();
                    let k1 = adm.len() - self.log().len();
                    assert(self.lim()[0].1 == dur(*max_limit) as int) by {
                        assert(self.limits@[0].1 == *max_limit);
                    }
                    assert(adm.skip(k1) =~= self.log()) by {
                        assert(adm.skip(k0) == lg0);
                        assert(lg0.skip(lg0.len() - self.log().len()) == self.log());
                        assert forall|i: int| 0 <= i < self.log().len() implies adm.skip(k1)[i] == self.log()[i] by {
                            assert(adm.skip(k1)[i] == adm[k1 + i]);
                            assert(lg0[lg0.len() - self.log().len() + i] == adm.skip(k0)[lg0.len() - self.log().len() + i]);
                        }
                    }
                    assert forall|i: int| 0 <= i < k1 implies #[trigger] adm[i] + self.longest() <= w.clock by {
                        if i >= k0 {
                            assert(adm[i] == adm.skip(k0)[i - k0]);
                            assert(lg0[i - k0] <= m);
                        }
                    }
                }""")],
        ),
        "block_until_allowed": FnSpec(ghost=True, shape_free=True, attrs="#[verifier::exec_allows_no_decreases_clause]", sig="""
    requires old(self).inv(*old(w)),
    ensures final(self).inv(*final(w)), //@C09.inv
            final(w).clock >= old(w).clock, //@C09.clock
            final(self).lim() == old(self).lim(), //@C09.limits_frame
            // exactly one admission is recorded per call (none when no limit is configured)
            old(self).lim().len() == 0 ==> final(w).admissions == old(w).admissions, //@C09.no_limits
            old(self).lim().len() > 0 ==> exists|t: int| old(w).clock <= t <= final(w).clock && final(w).admissions == old(w).admissions.push(t), //@C09.one_admission
            // the caller leaves with one limiter pass, and nothing else of the network state changed
            final(w).net == (Net { permit: true, ..old(w).net }), final(w).fs == old(w).fs, //@C09.permit
""", loops={1: """
    invariant self.inv(*w), w.clock >= old(w).clock, self.limits == old(self).limits,
        w.admissions == old(w).admissions, self.limits@.len() > 0, w.net == old(w).net, w.fs == old(w).fs,
"""},
            rewrites=[NOW],
            at=[("exits", None, 0, "proof { w.net.permit = true; }"),
                ("before_stmt", "self.query_log.push(", 1, """
                let ghost pre_self = *self;
                let ghost pre_w = *w;
"""),
                ("after_stmt", "self.query_log.push(", 1, """
                proof {
                    // history variable: the instant just logged is an admission
                    let t = self.log().last();
                    let adm0 = pre_w.admissions;
                    assert(self.log() =~= pre_self.log().push(t));
                    assert(w.clock >= t); //@C09.logged_instant_is_not_in_the_future
                    w.admissions = adm0.push(t);
                    pre_self.lemma_admit(pre_w, t); //@C09.admitted_only_when_every_limit_has_room_at_the_logged_instant
                    assert(self.lim() == pre_self.lim());
                    // suffix relation
                    let k = adm0.len() - pre_self.log().len();
                    assert(w.admissions.skip(k) =~= self.log()) by {
                        assert(adm0.skip(k) == pre_self.log());
                        assert forall|i: int| 0 <= i < self.log().len() implies w.admissions.skip(k)[i] == self.log()[i] by {
                            if i < pre_self.log().len() {
                                assert(adm0.skip(k)[i] == adm0[k + i]);
                            }
                        }
                    }
                }"""),
                ]),
        "new": FnSpec(ret="r", sig="""
    ensures r matches Ok(rl) ==> rl.wf_limits() && rl.log().len() == 0, //@C09.new_wf,C19.new_wf
        // every configured limit is among the limits the limiter checks (none is dropped, merged away or replaced)
        r matches Ok(rl) ==> forall|k: int| 0 <= k < raw_limits@.len() ==> has_limit(rl.limits@, #[trigger] raw_limits@[k]), //@C09.every_configured_limit_is_enforced
""", loops={1: """
    invariant all_positive(limits@),
        forall|k: int| 0 <= k < it1.index@ ==> has_limit(limits@, #[trigger] raw_limits@[k]), //@C09.every_configured_limit_is_enforced
"""}, at=[("loop_iter", None, 1, "it1:"),
          ("after_stmt_re", r"limits\.push\(", 1, """
            proof {
                let l0 = limits_before__; let k0 = it1.index@;
                assert forall|k: int| 0 <= k < k0 + 1 implies has_limit(limits@, #[trigger] raw_limits@[k]) by {
                    if k < k0 {
                        let i = choose|i: int| 0 <= i < l0.len() && l0[i].0 == raw_limits@[k].0 && pd(raw_limits@[k].1@) == Some(dur(l0[i].1));
                        assert(limits@[i] == l0[i]);
                    } else {
                        assert(limits@[l0.len() as int].0 == raw_limits@[k].0);
                    }
                }
            }"""),
          ("before_stmt_re", r"limits\.push\(", 1, "let ghost limits_before__ = limits@;"),
          ("before_tail", None, 1, """
        proof {
            assert forall|k: int| 0 <= k < raw_limits@.len() implies has_limit(limits@, #[trigger] raw_limits@[k]) by {
                let l1 = limits_collected__;
                let i = choose|i: int| 0 <= i < l1.len() && l1[i].0 == raw_limits@[k].0 && pd(raw_limits@[k].1@) == Some(dur(l1[i].1));
                assert(limits_sorted__.contains(l1[i]));
                let j = choose|j: int| 0 <= j < limits_sorted__.len() && limits_sorted__[j] == l1[i];
                assert(limits@[limits@.len() - 1 - j] == limits_sorted__[j]);
            }
        }"""),
          ("before_stmt_re", r"(?:crate::titer::sort|limits\.sort)", 1, "let ghost limits_collected__ = limits@;"),
          ("before_stmt_re", r"limits\.reverse\(\)", 1, "let ghost limits_sorted__ = limits@;"),
          ],
            # sort by the period: `x.1.partial_cmp(&y.1).unwrap()` / `x.1.cmp(&y.1)` with (x, y) = (a, b) is ascending, (b, a) descending;
            # sort_by_key(|e| e.1) is ascending
            rewrites=[("T-ITER", r"limits\.sort_by\(\|a, b\| (?P<x>[ab])\.1\.(?:partial_cmp\(&(?P<y>[ab])\.1\)\.unwrap\(\)|cmp\(&(?P<z>[ab])\.1\))(?:\.then(?:_with)?\((?:[^()]|\([^()]*\))*\))?\)",
                       lambda m: ("crate::titer::sort_by_duration_asc(&mut limits)" if (m.group("x"), m.group("y") or m.group("z")) == ("a", "b")
                                  else "crate::titer::sort_by_duration_desc(&mut limits)" if (m.group("x"), m.group("y") or m.group("z")) == ("b", "a")
                                  else "crate::titer::sort_unknown(&mut limits)"), None),
                      ("T-ITER", r"limits\.dedup_by_key\(\|(?P<e>\w+)\| (?P=e)\.1\)", "crate::titer::dedup_by_duration(&mut limits)", None),
                      ("T-ITER", r"limits\.sort_by_key\(\|(?P<e>\w+)\| (?P=e)\.1\)", "crate::titer::sort_by_duration_asc(&mut limits)", None),
                      ("T-ITER", r"limits\.sort_by_key\(\|(?P<e>\w+)\| (?:std::cmp::|cmp::)?Reverse\((?P=e)\.1\)\)", "crate::titer::sort_by_duration_desc(&mut limits)", None)]),
    }


def build():
    u = Unit("ratelimit", "acmed")
    u.prelude("err", "stdx", "time", "world", "titer", "seqlemmas")
    u.ghost_call("sleep", quals=("",))
    u.take("acmed/src/main.rs", "MAX_RATE_LIMIT_SLEEP_MILISEC", "")
    u.take("acmed/src/main.rs", "MIN_RATE_LIMIT_SLEEP_MILISEC", "")
    u.module("endpoint", "use crate::*;\nuse crate::acme_common::error::Error;\nuse std::cmp;\n"
             "use std::time::{Duration, Instant};\nuse crate::vtime::sleep;\nuse crate::seqlemmas::*;\n"
             "use crate::duration::parse_duration;")
    u.module("duration", "use crate::acme_common::error::Error;\nuse std::time::Duration;")
    u.raw("duration", """
// duration.rs::parse_duration (unit duration): the length of a time period is a function of its text
#[verifier::external_body]
pub fn parse_duration(input: &str) -> (r: Result<Duration, Error>) ensures r matches Ok(d) ==> crate::endpoint::pd(input@) == Some(crate::dur(d)) { unimplemented!() }
""", trusted=True)
    u.drop_derives = {"Clone", "Debug"}
    u.take(SRC, "RateLimit", "endpoint")
    u.raw("endpoint", SPEC)
    c = contracts()
    for name, props in [("new", ["C09", "C19"]), ("get_sleep_duration", ["C09", "C19"]), ("request_allowed", ["C09"]),
                        ("prune_log", ["C09"]), ("block_until_allowed", ["C09"])]:
        u.verify(SRC, f"RateLimit::{name}", "endpoint", props=props, fns={name: c[name]})
    # the limiter's representation invariant holds after every operation: a method of RateLimit that did not exist when these contracts
    # were written is verified against it (it may read the limiter, or change it and leave inv and the admission history as they were)
    for name, recv in u.new_methods(SRC, "RateLimit"):
        if recv == "&mut self":
            u.ghost_call(name, method=True)
            u.verify(SRC, f"RateLimit::{name}", "endpoint", props=["C09"], fns={name: new_method_spec()})
        elif recv == "&self":
            u.verify(SRC, f"RateLimit::{name}", "endpoint", props=["C09"], fns={name: FnSpec(sig="    requires self.wf_limits(),\n")})
    return u


def new_method_spec():
    return FnSpec(ghost=True, sig="""
    requires old(self).inv(*old(w)),
    ensures final(self).inv(*final(w)), //@C09.limiter_invariant_holds_after_every_operation
        final(w).admissions == old(w).admissions, final(w).net == old(w).net, final(w).fs == old(w).fs, final(w).clock >= old(w).clock,
        final(self).lim() == old(self).lim(),
""")


SPEC = """
// a window that starts before the oldest representable instant contains every logged instant
pub proof fn lemma_all_newer(s: Seq<Instant>, m: int)
    requires m < inst_floor()
    ensures newer(s.map_values(inst_fn()), m) == s.map_values(inst_fn())
    decreases s.len()
{
    let l = s.map_values(inst_fn());
    if s.len() == 0 {
        reveal(Seq::filter);
        assert(newer(l, m) =~= l);
    } else {
        lemma_all_newer(s.drop_last(), m);
        assert(l.drop_last() =~= s.drop_last().map_values(inst_fn()));
        lemma_newer_step(l, m);
        inst_lower_bound(s.last());
        assert(l.last() == inst(s.last()));
        assert(l.drop_last().push(l.last()) =~= l);
    }
}
pub open spec fn inst_fn() -> spec_fn(Instant) -> int { |i: Instant| inst(i) }
pub open spec fn lim_fn() -> spec_fn((usize, Duration)) -> (int, int) { |p: (usize, Duration)| (p.0 as int, dur(p.1) as int) }
// the length of a time period as a function of its text (duration.rs::parse_duration)
pub uninterp spec fn pd(s: Seq<char>) -> Option<nat>;
// the configured limit `raw` (number, period text) is one of the limits kept
pub open spec fn has_limit(l: Seq<(usize, Duration)>, raw: (usize, String)) -> bool {
    exists|i: int| 0 <= i < l.len() && (#[trigger] l[i]).0 == raw.0 && pd(raw.1@) == Some(dur(l[i].1))
}
pub open spec fn all_positive(s: Seq<(usize, Duration)>) -> bool {
    forall|i: int| 0 <= i < s.len() ==> (#[trigger] s[i]).0 >= 1
}
impl RateLimit {
    // (n, period in nanoseconds) of every configured limit
    pub open spec fn lim(&self) -> Seq<(int, int)> {
        self.limits@.map_values(lim_fn())
    }
    // the log as nanosecond instants
    pub open spec fn log(&self) -> Seq<int> {
        self.query_log@.map_values(inst_fn())
    }
    pub open spec fn wf_limits(&self) -> bool {
        &&& forall|i: int| 0 <= i < self.lim().len() ==> (#[trigger] self.lim()[i]).0 >= 1
        &&& forall|i: int, j: int| 0 <= i <= j < self.lim().len() ==> (#[trigger] self.lim()[i]).1 >= (#[trigger] self.lim()[j]).1
    }
    pub open spec fn longest(&self) -> int {
        if self.lim().len() > 0 { self.lim()[0].1 } else { 0 }
    }
    // The data-structure invariant of C09: w.admissions is the never-pruned history of the log.
    pub open spec fn inv(&self, w: World) -> bool {
        &&& self.wf_limits()
        &&& sorted(w.admissions)
        &&& forall|i: int| 0 <= i < w.admissions.len() ==> #[trigger] w.admissions[i] <= w.clock
        &&& self.log().len() <= w.admissions.len()
        &&& w.admissions.skip(w.admissions.len() - self.log().len()) == self.log()
        &&& forall|i: int| 0 <= i < w.admissions.len() - self.log().len() ==> #[trigger] w.admissions[i] + self.longest() <= w.clock
        &&& forall|l: int| 0 <= l < self.lim().len() ==> spaced(w.admissions, (#[trigger] self.lim()[l]).0, self.lim()[l].1)
    }

    // C09, the statement itself: under the invariant no window (t - period, t] holds more than n admissions.
    pub proof fn lemma_c09_window(&self, w: World, l: int, t: int, i: int, j: int)
        requires self.inv(w), 0 <= l < self.lim().len(), 0 <= i, i + self.lim()[l].0 <= j < w.admissions.len(),
        ensures !(t - self.lim()[l].1 < w.admissions[i] && w.admissions[j] <= t), //@C09.window
    {
        lemma_window(w.admissions, self.lim()[l].0, self.lim()[l].1, t, i, j);
    }

    pub proof fn lemma_inv_facts(&self, w: World)
        requires self.inv(w)
        ensures self.wf_limits()
    {}

    // the invariant is stable under the passing of time
    pub proof fn lemma_inv_clock(&self, w0: World, w1: World)
        requires self.inv(w0), w1.admissions == w0.admissions, w1.clock >= w0.clock
        ensures self.inv(w1)
    {}

    // the admission step: every limit has room at clock c <= t, t appended
    pub proof fn lemma_admit(&self, w: World, t: int)
        requires self.inv(w), t >= w.clock,
            forall|l: int| 0 <= l < self.lim().len() ==>
                newer(self.log(), w.clock - (#[trigger] self.lim()[l]).1).len() < self.lim()[l].0,
        ensures sorted(w.admissions.push(t)),
            forall|l: int| 0 <= l < self.lim().len() ==> spaced(w.admissions.push(t), (#[trigger] self.lim()[l]).0, self.lim()[l].1),
    {
        let adm = w.admissions;
        let k = adm.len() - self.log().len();
        assert forall|l: int| 0 <= l < self.lim().len() implies spaced(adm.push(t), (#[trigger] self.lim()[l]).0, self.lim()[l].1) by {
            let n = self.lim()[l].0;
            let d = self.lim()[l].1;
            let m = w.clock - d;
            assert(d <= self.longest());
            // the pruned prefix is older than every window, so it counts for nothing
            lemma_newer_skip(adm, k, m);
            lemma_push(adm, n, d, w.clock, t);
        }
        assert(sorted(adm.push(t)));
    }
}
"""
