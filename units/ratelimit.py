"""U1 - the sliding-window rate limiter (acmed/src/endpoint.rs).  Serves C09, C19."""
import re
from unit import Unit, FnSpec

SRC = "acmed/src/endpoint.rs"

CMP = {">": "inst_gt", ">=": "inst_ge", "<": "inst_lt", "<=": "inst_le"}


def tcmp(body):
    """T-CMP inside a closure body: `A op B` on Instants -> crate::vtime::inst_op(A, B)."""
    m = re.fullmatch(r"\s*(\S+)\s*(>=|<=|>|<)\s*(\S+)\s*", body)
    if not m:
        return None
    return f"crate::vtime::{CMP[m.group(2)]}({m.group(1)}, {m.group(3)})"


def rw_filter_count(m):
    body = tcmp(m.group("body"))
    if body is None:
        raise Exception("T-ITER: closure body outside the supported shape")
    p = m.group("p")
    return (f"crate::titer::count_filter(&{m.group('v').strip()}, move |{p}: &&Instant| -> (b: bool) "
            f"ensures b == ({body}) {{ {body} }})")


def rw_retain(m):
    body = tcmp(m.group("body"))
    if body is None:
        raise Exception("T-ITER: closure body outside the supported shape")
    p = m.group("p")
    return (f"crate::titer::retain(&mut {m.group('v').strip()}, move |{p}_: &Instant| -> (b: bool) "
            f"ensures b == ({{ let {p} = *{p}_; {body} }}) {{ let {p} = *{p}_; {body} }})")


NOW = ("T-CLOCK", r"Instant::now\(\)", "crate::vtime::now(Tracked(&mut *w))")


def build():
    u = Unit("ratelimit", "acmed")
    u.prelude("err", "time", "world_rl")
    u.ghost_call("sleep", quals=("",))
    u.take("acmed/src/main.rs", "MAX_RATE_LIMIT_SLEEP_MILISEC", "")
    u.take("acmed/src/main.rs", "MIN_RATE_LIMIT_SLEEP_MILISEC", "")
    u.module("endpoint", "use crate::*;\nuse crate::acme_common::error::Error;\nuse std::cmp;\n"
             "use std::time::{Duration, Instant};\nuse crate::vtime::sleep;")
    u.drop_derives = {"Clone", "Debug"}
    u.take(SRC, "RateLimit", "endpoint")
    u.raw("endpoint", SPEC)
    u.verify(SRC, "RateLimit::get_sleep_duration", "endpoint", props=["C09", "C19"], fns={
        "get_sleep_duration": FnSpec(ret="r", sig="""
    requires self.wf_limits(), //@C19.rl_wf
    ensures dur(r) >= 100 * 1_000_000, //@C09.sleep_min
            dur(r) <= 3_600_000 * 1_000_000nat, //@C09.sleep_max
""")})
    u.verify(SRC, "RateLimit::request_allowed", "endpoint", props=["C09"], fns={
        "request_allowed": FnSpec(ret="r", ghost=True, sig="""
    ensures final(w).admissions == old(w).admissions, //@C09.ra_frame
            final(w).clock >= old(w).clock, //@C09.ra_clock
""", loops={1: "invariant w.admissions == old(w).admissions, w.clock >= old(w).clock,"},
            rewrites=[NOW,
                      ("T-ITER", r"(?P<v>self\s*\.\s*query_log)\s*\.iter\(\)\s*\.filter\(move \|(?P<p>\w+)\|(?P<body>[^()]*)\)\s*\.count\(\)", rw_filter_count)])})
    u.verify(SRC, "RateLimit::prune_log", "endpoint", props=["C09"], fns={
        "prune_log": FnSpec(ghost=True, sig="""
    ensures final(w).admissions == old(w).admissions, //@C09.pl_frame
""", rewrites=[NOW,
               ("T-ITER", r"(?P<v>self\s*\.\s*query_log)\s*\.retain\(move \|&(?P<p>\w+)\|(?P<body>[^()]*)\)", rw_retain)])})
    return u


SPEC = """
impl RateLimit {
    pub closed spec fn wf_limits(&self) -> bool {
        forall|i: int| 0 <= i < self.limits@.len() ==> (#[trigger] self.limits@[i]).0 >= 1
    }
}
"""
