"""U7 - the time-period parser (acmed/src/duration.rs).  Serves C19."""
from unit import Unit, FnSpec

D = "acmed/src/duration.rs"


def build():
    u = Unit("duration", "acmed")
    u.prelude("err", "stdx", "time", "nom")
    u.module("duration", "use crate::*;\nuse crate::acme_common::error::Error;\nuse crate::nom::IResult;\nuse std::time::Duration;")
    u.raw("duration", SPEC)
    u.verify(D, "is_duration_chr", "duration", props=["C19"], fns={"is_duration_chr": FnSpec(ret="r", sig="""
    ensures r == is_unit_char(c), //@C19.unit_chars
""")})
    u.verify(D, "get_multiplicator", "duration", props=["C19"], fns={"get_multiplicator": FnSpec(ret="r", sig="""
    ensures r matches Ok(t) ==> input@.len() >= 1 && is_unit_char(input@[0]) && t.1 == unit_seconds(input@[0]) && t.0@ == input@.skip(1), //@C19.unit_multiplier,C06.unit_multiplier,C14.unit_multiplier,C09.unit_multiplier
""", rewrites=[("T-NOM", r"take_while_m_n\(1, 1, is_duration_chr\)\(input\)", "crate::nom::take_while_m_n(1, 1, is_duration_chr, input)", None),
               ("T-NOM", r"\b(?P<c>take_while1|take_while)\((?P<p>\w+)\)\(input\)", r"crate::nom::\g<c>(\g<p>, input)", None),
               ("T-NOM", r"nb\.chars\(\)\.next\(\)", "crate::nom::first_char(nb)")])})
    u.verify(D, "get_duration_part", "duration", props=["C19"], fns={"get_duration_part": FnSpec(ret="r", sig="""
    ensures
        // one part is <digits><unit>; its value is number x unit seconds exactly, or None when that does not fit in 64 bits
        r matches Ok(t) ==> part_ok(input@, t.0@, t.1), //@C19.part_value_exact
""", rewrites=[("T-NOM", r"map_res\(digit1, \|s: &str\| s\.parse::<u64>\(\)\)\(input\)",
                "crate::nom::map_res_digit1(|s: &str| -> (pr: Result<u64, crate::nom::ParseIntError>) ensures (match pr { Ok(v) => crate::nom::parse_u64_spec(s@) == Some(v), Err(_) => crate::nom::parse_u64_spec(s@) is None }) { crate::nom::parse_u64(s) }, input)"),
               ("T-CLOSURE", r"nb\.checked_mul\(mult\)\.map\(Duration::from_secs\)",
                "nb.checked_mul(mult).map(|s__: u64| -> (d__: Duration) ensures dur(d__) == (s__ as nat) * 1_000_000_000 { Duration::from_secs(s__) })", None)],
        at=[("before_tail", None, 1, """
    proof {
        let n = crate::nom::digits_prefix_len(input_0@);
        assert(input@ == input_0@.skip(n).skip(1));
        assert(input_0@.skip(n).skip(1) =~= input_0@.skip(n + 1));
        assert(input_0@.skip(n)[0] == input_0@[n]);
        assert((nb as nat) * (mult as nat) == (nb * mult) as nat) by (nonlinear_arith) requires nb * mult <= u64::MAX || true;
    }""")], body_start="let ghost input_0 = input;")})
    u.verify(D, "get_duration", "duration", props=["C19"], fns={"get_duration": FnSpec(ret="r", sig="""
    ensures
        // what is parsed is a chain of parts, each starting where the previous one ended, folded by checked addition from zero
        r matches Ok(t) ==> exists|ins: Seq<Seq<char>>, outs: Seq<Option<Duration>>, accs: Seq<Option<Duration>>|
            dur_chain(input@, t.0@, t.1, ins, outs, accs), //@C19.period_is_a_sequence_of_parts
""", rewrites=[
        # fold_many1(get_duration_part, INIT, STEP)(input): uncurried (T-NOM); the two closures keep their real bodies, are named, and
        # get the ensures clause the fold relies on (INIT yields zero; STEP is checked addition: fold_step_ok) - then the chain the
        # combinator guarantees is restated over the texts
        ("T-NOM", r"(?s)fold_many(?P<n>[01])\(\s*get_duration_part,\s*\|\|\s*(?P<init>(?:[^,()]|\((?:[^()]|\([^()]*\))*\))*),\s*\|(?P<a>\w+): Option<Duration>, (?P<i>\w+): Option<Duration>\|\s*(?P<body>.*?),?\s*\)\(input\)",
         lambda m: "{ let init__ = || -> (z__: Option<Duration>) ensures z__ matches Some(d) && dur(d) == 0 { " + m.group("init") + " };\n"
                   + "let step__ = |" + m.group("a") + ": Option<Duration>, " + m.group("i") + ": Option<Duration>| -> (s__: Option<Duration>) ensures fold_step_ok(" + m.group("a") + ", " + m.group("i") + ", s__) /*//@C19.period_is_sum_of_parts*/ { "
                   + m.group("body") + " };\n" + CHAIN_PROOF.replace("$MIN", m.group("n")) + " }"),
    ])})
    u.verify(D, "parse_duration", "duration", props=["C19"], fns={"parse_duration": FnSpec(ret="r", sig="""
    ensures
        // a time period is accepted only if the whole text is one or more parts <digits><unit>, and it then equals the sum of its parts
        r matches Ok(d) ==> is_period(input@) && dur(d) == period_ns(input@), //@C19.periods_are_accepted_per_the_documented_grammar_and_equal_the_sum_of_their_parts
""", names={"d": r"Ok\(\([\w_]+, Some\((\w+)\)\)\) =>"},
        at=[("before", "Ok($d)", 1, """{
                proof {
                    // what get_duration returned: when nothing is left of the text, the chain of parts it parsed is the whole text
                    if let Ok(t0) = gd0__ {
                        if t0.0@.len() == 0 && t0.1 is Some {
                            let (ins, outs, accs) = choose|ins: Seq<Seq<char>>, outs: Seq<Option<Duration>>, accs: Seq<Option<Duration>>| dur_chain(input@, t0.0@, t0.1, ins, outs, accs);
                            lemma_chain_is_period(input@, t0.0@, t0.1, ins, outs, accs, 0);
                        }
                    }
                }
                """), ("after", "Ok($d)", 1, " }")],
        rewrites=[("T-LET", r"match get_duration\(input\) \{", "let gd__ = get_duration(input); let ghost gd0__ = gd__; match gd__ {"),
                  ("T-STR", r"match (?P<r>\w+)\.len\(\)", r"match crate::nom::byte_len(\g<r>)", None),
                  ("T-STR", r"(?P<r>\b\w+)\.is_empty\(\)", r"(crate::nom::byte_len(\g<r>) == 0)", None)])})
    return u


CHAIN_PROOF = """let r__ = crate::nom::fold_many$MIN(get_duration_part, init__, step__, input);
    proof {
        if let Ok(t) = r__ {
            let (ins, outs, accs) = choose|ins: Seq<&str>, outs: Seq<Option<Duration>>, accs: Seq<Option<Duration>>|
                crate::nom::fold_chain_min($MIN, get_duration_part, init__, step__, input, t.0, t.1, ins, outs, accs);
            let vins = ins.map_values(|s: &str| s@);
            assert forall|i: int| 0 <= i < outs.len() implies part_ok(#[trigger] vins[i], vins[i + 1], outs[i]) by {
                assert(get_duration_part.ensures((ins[i],), Ok((ins[i + 1], outs[i]))));
            }
            assert forall|i: int| 0 <= i < outs.len() implies fold_step_ok(#[trigger] accs[i], outs[i], accs[i + 1]) by {
                assert(step__.ensures((accs[i], outs[i]), accs[i + 1]));
            }
            reveal(dur_chain);
            assert(dur_chain(input@, t.0@, t.1, vins, outs, accs)); //@C19.period_is_a_sequence_of_parts
        }
    }
    r__"""

SPEC = """
// the documented grammar: units s m h d w
pub open spec fn is_unit_char(c: char) -> bool { c == 's' || c == 'm' || c == 'h' || c == 'd' || c == 'w' }
pub open spec fn unit_seconds(c: char) -> u64 {
    if c == 's' { 1 } else if c == 'm' { 60 } else if c == 'h' { 3_600 } else if c == 'd' { 86_400 } else if c == 'w' { 604_800 } else { 0 }
}
// one part <digits><unit> at the head of a, leaving b, with value o (None: number x unit does not fit in 64 bits)
pub open spec fn part_ok(a: Seq<char>, b: Seq<char>, o: Option<std::time::Duration>) -> bool {
    let n = crate::nom::digits_prefix_len(a);
    &&& 1 <= n < a.len() && is_unit_char(a[n])
    &&& b == a.skip(n + 1)
    &&& crate::nom::parse_u64_spec(a.take(n)) matches Some(nb)
    &&& (match o {
            Some(d) => dur(d) == (nb as nat) * (unit_seconds(a[n]) as nat) * 1_000_000_000,
            None => (nb as nat) * (unit_seconds(a[n]) as nat) > u64::MAX })
}
// a chain of parts from `input` to `rest`, folded from zero by checked addition into `res`
#[verifier::opaque]
pub open spec fn dur_chain(input: Seq<char>, rest: Seq<char>, res: Option<std::time::Duration>,
                           ins: Seq<Seq<char>>, outs: Seq<Option<std::time::Duration>>, accs: Seq<Option<std::time::Duration>>) -> bool {
    &&& outs.len() >= 1 && ins.len() == outs.len() + 1 && accs.len() == outs.len() + 1
    &&& ins[0] == input && ins.last() == rest && accs.last() == res
    &&& (accs[0] matches Some(z) && dur(z) == 0)
    &&& forall|i: int| 0 <= i < outs.len() ==> part_ok(#[trigger] ins[i], ins[i + 1], outs[i])
    &&& forall|i: int| 0 <= i < outs.len() ==> fold_step_ok(#[trigger] accs[i], outs[i], accs[i + 1])
}
// ---- the documented grammar: a period is one or more parts <digits><unit>; its length is the sum of number x unit
pub open spec fn head_ok(s: Seq<char>) -> bool {
    let n = crate::nom::digits_prefix_len(s);
    1 <= n < s.len() && is_unit_char(s[n]) && crate::nom::parse_u64_spec(s.take(n)) is Some
}
pub open spec fn head_ns(s: Seq<char>) -> nat {
    let n = crate::nom::digits_prefix_len(s);
    (crate::nom::parse_u64_spec(s.take(n)).unwrap() as nat) * (unit_seconds(s[n]) as nat) * 1_000_000_000
}
pub open spec fn tail_of(s: Seq<char>) -> Seq<char> { s.skip(crate::nom::digits_prefix_len(s) + 1) }
#[verifier::opaque]
pub open spec fn is_period(s: Seq<char>) -> bool
    decreases s.len()
{
    head_ok(s) && (tail_of(s).len() == 0 || (tail_of(s).len() < s.len() && is_period(tail_of(s))))
}
#[verifier::opaque]
pub open spec fn period_ns(s: Seq<char>) -> nat
    decreases s.len()
{
    if !head_ok(s) { 0 } else { head_ns(s) + (if tail_of(s).len() == 0 || tail_of(s).len() >= s.len() { 0nat } else { period_ns(tail_of(s)) }) }
}
// a chain that consumes the whole text is a period; when the fold did not overflow, its result is the period's length
pub proof fn lemma_chain_is_period(input: Seq<char>, rest: Seq<char>, res: Option<std::time::Duration>,
                                   ins: Seq<Seq<char>>, outs: Seq<Option<std::time::Duration>>, accs: Seq<Option<std::time::Duration>>, j: int)
    requires dur_chain(input, rest, res, ins, outs, accs), rest.len() == 0, 0 <= j,
    ensures outs.len() >= 1,
        j < outs.len() ==> is_period(ins[j]),
        j < outs.len() ==> (res matches Some(d) ==> (accs[j] matches Some(a) && dur(d) == dur(a) + period_ns(ins[j]))),
        j == 0 ==> ins[0] == input && (accs[0] matches Some(z) && dur(z) == 0),
    decreases outs.len() - j
{
    let k = outs.len() as int;
    reveal(dur_chain);
    if j >= k { return; }
    reveal_with_fuel(is_period, 2);
    reveal_with_fuel(period_ns, 2);
    assert(part_ok(ins[j], ins[j + 1], outs[j]));
    assert(fold_step_ok(accs[j], outs[j], accs[j + 1]));
    assert(tail_of(ins[j]) == ins[j + 1]);
    assert(ins[j + 1].len() < ins[j].len());
    if j + 1 < k {
        lemma_chain_is_period(input, rest, res, ins, outs, accs, j + 1);
        assert(part_ok(ins[j + 1], ins[j + 2], outs[j + 1]));
        assert(ins[j + 1].len() > 0);
    } else {
        assert(ins[j + 1] == ins.last());
    }
}
// the fold step is checked addition: the period is the sum of its parts, or None when the sum does not fit
pub open spec fn fold_step_ok(acc: Option<std::time::Duration>, item: Option<std::time::Duration>, r: Option<std::time::Duration>) -> bool {
    match (acc, item) {
        (Some(a), Some(i)) => (match r { Some(d) => dur(d) == dur(a) + dur(i), None => dur(a) + dur(i) > DUR_MAX() }),
        _ => r is None,
    }
}
"""
