"""U7 - the time-period parser (acmed/src/duration.rs).  Serves C19."""
from unit import Unit, FnSpec

D = "acmed/src/duration.rs"


def build():
    u = Unit("duration", "acmed")
    u.prelude("err", "stdx", "time", "nom")
    u.module("duration", "use crate::*;\nuse crate::acme_common::error::Error;\nuse crate::nom::IResult;\nuse std::time::Duration;")
    u.raw("duration", SPEC)
    u.verify(D, "is_duration_chr", "duration", props=["C19"], fns={"is_duration_chr": FnSpec(ret="r", sig="""
    ensures r == is_unit_char(c), //@C19.unit_chars
""")})
    u.verify(D, "get_multiplicator", "duration", props=["C19"], fns={"get_multiplicator": FnSpec(ret="r", sig="""
    ensures r matches Ok(t) ==> input@.len() >= 1 && is_unit_char(input@[0]) && t.1 == unit_seconds(input@[0]) && t.0@ == input@.skip(1), //@C19.unit_multiplier
""", rewrites=[("T-NOM", r"take_while_m_n\(1, 1, is_duration_chr\)\(input\)", "crate::nom::take_while_m_n(1, 1, is_duration_chr, input)"),
               ("T-NOM", r"nb\.chars\(\)\.next\(\)", "crate::nom::first_char(nb)")])})
    u.verify(D, "get_duration_part", "duration", props=["C19"], fns={"get_duration_part": FnSpec(ret="r", sig="""
    ensures
        // one part is <digits><unit>; its value is number x unit seconds exactly, or None when that does not fit in 64 bits
        r matches Ok(t) ==> ({
            let n = crate::nom::digits_prefix_len(input@);
            &&& 1 <= n < input@.len() && is_unit_char(input@[n])
            &&& t.0@ == input@.skip(n + 1)
            &&& crate::nom::parse_u64_spec(input@.take(n)) matches Some(nb)
            &&& (match t.1 {
                    Some(d) => dur(d) == (nb as nat) * (unit_seconds(input@[n]) as nat) * 1_000_000_000,
                    None => (nb as nat) * (unit_seconds(input@[n]) as nat) > u64::MAX })
        }), //@C19.part_value_exact
""", rewrites=[("T-NOM", r"map_res\(digit1, \|s: &str\| s\.parse::<u64>\(\)\)\(input\)",
                "crate::nom::map_res_digit1(|s: &str| -> (pr: Result<u64, crate::nom::ParseIntError>) ensures (match pr { Ok(v) => crate::nom::parse_u64_spec(s@) == Some(v), Err(_) => crate::nom::parse_u64_spec(s@) is None }) { crate::nom::parse_u64(s) }, input)"),
               ("T-CLOSURE", r"nb\.checked_mul\(mult\)\.map\(Duration::from_secs\)",
                "nb.checked_mul(mult).map(|s__: u64| -> (d__: Duration) ensures dur(d__) == (s__ as nat) * 1_000_000_000 { Duration::from_secs(s__) })", None)],
        at=[("before_tail", None, 1, """
    proof {
        let n = crate::nom::digits_prefix_len(input_0@);
        assert(input@ == input_0@.skip(n).skip(1));
        assert(input_0@.skip(n).skip(1) =~= input_0@.skip(n + 1));
        assert(input_0@.skip(n)[0] == input_0@[n]);
        assert((nb as nat) * (mult as nat) == (nb * mult) as nat) by (nonlinear_arith) requires nb * mult <= u64::MAX || true;
    }""")], body_start="let ghost input_0 = input;")})
    u.verify(D, "get_duration", "duration", props=["C19"], fns={"get_duration": FnSpec(ret="r", rewrites=[
        ("T-NOM", r"fold_many1\(\s*get_duration_part,", "crate::nom::fold_many1(get_duration_part,"),
        ("T-CLOSURE", r"\|\| Some\(Duration::new\(0, 0\)\)", "|| -> (z__: Option<Duration>) ensures z__ matches Some(d) && dur(d) == 0 { Some(Duration::new(0, 0)) }"),
        # the fold step, whatever its body: annotated with the step relation it must satisfy; `)(input)` becomes a third argument
        ("T-CLOSURE", r"(?s)\|acc: Option<Duration>, item: Option<Duration>\|\s*(?P<body>.*?),?\s*\)\(input\)",
         lambda m: "|acc: Option<Duration>, item: Option<Duration>| -> (s__: Option<Duration>) ensures fold_step_ok(acc, item, s__) /*//@C19.period_is_sum_of_parts*/ { "
                   + m.group("body") + " }, input)"),
    ])})
    u.verify(D, "parse_duration", "duration", props=["C19"], fns={"parse_duration": FnSpec(ret="r")})
    return u


SPEC = """
// the documented grammar: units s m h d w
pub open spec fn is_unit_char(c: char) -> bool { c == 's' || c == 'm' || c == 'h' || c == 'd' || c == 'w' }
pub open spec fn unit_seconds(c: char) -> u64 {
    if c == 's' { 1 } else if c == 'm' { 60 } else if c == 'h' { 3_600 } else if c == 'd' { 86_400 } else if c == 'w' { 604_800 } else { 0 }
}
// the fold step is checked addition: the period is the sum of its parts, or None when the sum does not fit
pub open spec fn fold_step_ok(acc: Option<std::time::Duration>, item: Option<std::time::Duration>, r: Option<std::time::Duration>) -> bool {
    match (acc, item) {
        (Some(a), Some(i)) => (match r { Some(d) => dur(d) == dur(a) + dur(i), None => dur(a) + dur(i) > DUR_MAX() }),
        _ => r is None,
    }
}
"""
