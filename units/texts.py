"""The text forms of the enumerations that reach the wire, the configuration, the file names and the account file:
Display / FromStr of JwsSignatureAlgorithm, KeyType, BaseHashFunction (acme_common), Challenge, IdentifierType,
ContactType (acmed).  Serves C04 / C15 (the `alg` a JWS declares is the RFC 7518 name of the algorithm), C11 (what the
account file stores reads back as the same value), C05 (challenge names), C01 (identifier type names).

Rule T-DISPLAY: `use std::fmt` / `use std::str::FromStr` of these files resolve to the model `crate::vfmt` (a Formatter that
records what is written; the two traits with the std signatures); `write!(f, "{s}")` with `s: &str` is `f.write_str(s)`
(exact: a nested `write!` starts from an empty format specification, so no padding or precision applies)."""
from unit import Unit, FnSpec

J = "acme_common/src/crypto/jws_signature_algorithm.rs"
K = "acme_common/src/crypto/key_type.rs"
C = "acme_common/src/crypto.rs"
AP = "acmed/src/acme_proto.rs"
I = "acmed/src/identifier.rs"
CT = "acmed/src/account/contact.rs"

WRITE = ("T-DISPLAY", r"write!\((?P<f>\w+), \"\{(?P<s>\w+)\}\"\)", r"\g<f>.write_str(\g<s>)", 1)
LOWER = ("T-STR", r"(?P<s>\b\w+)\.to_lowercase\(\)", r"crate::vfmt::str_to_lowercase(\g<s>)", 1)


def display(text_fn, props, what="text_form_is_the_registered_name"):
    labels = ",".join(f"{p_}.{what}" for p_ in props)
    return FnSpec(ret="r", sig=f"    ensures r is Ok ==> final(f).out@ == old(f).out@ + {text_fn}(*self), //@{labels}\n", rewrites=[WRITE])


def parse(parse_fn, props, extra=()):
    labels = ",".join(f"{p_}.names_are_read_back_whatever_their_case" for p_ in props)
    return FnSpec(ret="r", sig=f"    ensures match r {{ Ok(v) => {parse_fn}(s@) == Some(v), Err(_) => {parse_fn}(s@) is None }}, //@{labels}\n",
                  rewrites=[LOWER] + list(extra))


def build():
    u = Unit("texts", "acme_common")
    u.prelude("stdx")
    u.raw("", VFMT, trusted=True)
    u.drop_derives = {"Debug", "Deserialize", "Serialize", "Eq", "Hash"}
    u.module("crypto", "use crate::vfmt as fmt;\nuse crate::vfmt::FromStr;\nuse crate::vfmt::Error;\nuse crate::strext::StrExt;")
    u.take(J, "JwsSignatureAlgorithm", "crypto", keep_derives=("Clone", "Copy", "PartialEq"))
    u.take(K, "KeyType", "crypto", keep_derives=("Clone", "Copy", "PartialEq"))
    u.take(C, "BaseHashFunction", "crypto", keep_derives=("Clone", "Copy", "PartialEq"))
    u.raw("crypto", CRYPTO_SPEC)
    u.verify(J, "impl fmt::Display for JwsSignatureAlgorithm", "crypto", props=["C04", "C15", "C11"], fns={"fmt": display("alg_text", ["C04", "C15", "C11"])})
    u.verify(J, "impl FromStr for JwsSignatureAlgorithm", "crypto", props=["C11", "C14"], fns={"from_str": parse("alg_parse", ["C11", "C14"])})
    u.verify(K, "impl fmt::Display for KeyType", "crypto", props=["C14", "C16", "C15"], fns={"fmt": display("kt_text", ["C14", "C16", "C15"])})
    u.verify(K, "impl FromStr for KeyType", "crypto", props=["C14", "C16", "C15", "C02"], fns={"from_str": parse("kt_parse", ["C14", "C16", "C15", "C02"])})
    u.verify(C, "impl FromStr for BaseHashFunction", "crypto", props=["C01", "C16"], fns={"from_str": parse("hash_parse", ["C01", "C16"])})
    u.verify(C, "impl fmt::Display for BaseHashFunction", "crypto", props=["C01", "C16"], fns={"fmt": display("hash_text", ["C01", "C16"])})
    u.raw("crypto", CRYPTO_LEMMAS)
    u.module("acme_proto", "use crate::vfmt as fmt;\nuse crate::vfmt::Error;")
    u.take(AP, "Challenge", "acme_proto", keep_derives=("Clone", "Copy", "PartialEq"))
    u.raw("acme_proto", AP_SPEC)
    u.verify(AP, "impl fmt::Display for Challenge", "acme_proto", props=["C05"], fns={"fmt": display("challenge_text", ["C05"])})
    u.module("identifier", "use crate::vfmt as fmt;")
    u.take(I, "IdentifierType", "identifier", keep_derives=("Clone", "PartialEq"))
    u.raw("identifier", ID_SPEC)
    u.verify(I, "impl fmt::Display for IdentifierType", "identifier", props=["C01"], fns={"fmt": display("id_type_text", ["C01"])})
    u.module("contact", "use crate::vfmt as fmt;\nuse crate::vfmt::FromStr;\nuse crate::vfmt::Error;")
    u.take(CT, "ContactType", "contact", keep_derives=("Clone", "PartialEq"))
    u.raw("contact", CT_SPEC)
    u.verify(CT, "impl fmt::Display for ContactType", "contact", props=["C11"], fns={"fmt": display("ct_text", ["C11"], what="text_form_reads_back")})
    u.verify(CT, "impl FromStr for ContactType", "contact", props=["C11"], fns={"from_str": parse("ct_parse", ["C11"])})
    u.verify(CT, "clean_mailto", "contact", props=["C11", "C19"], fns={"clean_mailto": FnSpec(ret="r", sig="""
    ensures r matches Ok(v) ==> v@ == value@, //@C11.a_contact_value_is_kept_as_configured
        r is Ok, //@C11.every_contact_value_is_accepted,C19.no_contact_value_is_refused_or_crashes
""")})
    u.raw("contact", CT_LEMMAS)
    return u


VFMT = """
// std::fmt as far as these impls use it: a Formatter that records what has been written to it
pub mod vfmt {
    use vstd::prelude::*;
    verus! {
    pub struct Formatter { pub out: Ghost<Seq<char>> }
    pub struct FmtError { pub opaque: u8 }
    pub type Result = std::result::Result<(), FmtError>;
    impl Formatter {
        #[verifier::external_body]
        pub fn write_str(&mut self, s: &str) -> (r: Result)
            ensures r is Ok ==> final(self).out@ == old(self).out@ + s@ { unimplemented!() }
    }
    pub trait Display { fn fmt(&self, f: &mut Formatter) -> Result; }
    pub trait FromStr: Sized { type Err; fn from_str(s: &str) -> std::result::Result<Self, Self::Err>; }
    // acme_common::error::Error as these files use it (`format!(..).into()`)
    pub struct Error { pub message: String }
    impl From<String> for Error { #[verifier::external_body] fn from(e: String) -> Self { Error { message: e } } }
    // str::to_lowercase and str::replace(char, &str).  Lower-casing leaves a text made of ASCII lower-case letters, digits,
    // '-' and '_' as it is; replacing a character that does not occur changes nothing.
    pub uninterp spec fn lower(s: Seq<char>) -> Seq<char>;
    pub uninterp spec fn replaced(s: Seq<char>, c: char, t: Seq<char>) -> Seq<char>;
    pub open spec fn plain(s: Seq<char>) -> bool {
        forall|i: int| 0 <= i < s.len() ==> (('a' <= #[trigger] s[i] && s[i] <= 'z') || ('0' <= s[i] && s[i] <= '9') || s[i] == '-' || s[i] == '_')
    }
    #[verifier::external_body]
    pub broadcast proof fn axiom_lower_plain(s: Seq<char>) requires plain(s) ensures #[trigger] lower(s) == s {}
    #[verifier::external_body]
    pub proof fn axiom_lower_upper_ascii(s: Seq<char>, t: Seq<char>)
        requires s.len() == t.len(), forall|i: int| 0 <= i < s.len() ==> (#[trigger] t[i] == s[i] || ('A' <= s[i] && s[i] <= 'Z' && t[i] as int == s[i] as int + 32)), plain(t),
        ensures lower(s) == t {}
    #[verifier::external_body]
    pub proof fn axiom_replaced_absent(s: Seq<char>, c: char, t: Seq<char>) requires !s.contains(c) ensures replaced(s, c, t) == s {}
    #[verifier::external_body]
    pub proof fn axiom_replaced_one(a: Seq<char>, b: Seq<char>, c: char, t: Seq<char>)
        requires !a.contains(c), !b.contains(c) ensures replaced(a + seq![c] + b, c, t) == a + t + b {}
    #[verifier::external_body]
    pub fn str_to_lowercase(s: &str) -> (r: LString) ensures r.v@ == lower(s@) { unimplemented!() }
    pub struct LString { pub v: String }
    impl LString {
        #[verifier::external_body]
        pub fn as_str(&self) -> (r: &str) ensures r@ == self.v@ { unimplemented!() }
        #[verifier::external_body]
        pub fn replace_char(&self, c: char, t: &str) -> (r: LString) ensures r.v@ == replaced(self.v@, c, t@) { unimplemented!() }
        // str::replace with a set of characters / a string pattern: other functions of the text (uninterpreted here)
        #[verifier::external_body]
        pub fn replace_chars(&self, set: &[char], t: &str) -> (r: LString) ensures r.v@ == replaced_set(self.v@, set@, t@) { unimplemented!() }
        #[verifier::external_body]
        pub fn replace_str(&self, p: &str, t: &str) -> (r: LString) ensures r.v@ == replaced_str(self.v@, p@, t@) { unimplemented!() }
    }
    pub uninterp spec fn replaced_set(s: Seq<char>, set: Seq<char>, t: Seq<char>) -> Seq<char>;
    pub uninterp spec fn replaced_str(s: Seq<char>, p: Seq<char>, t: Seq<char>) -> Seq<char>;
    }
}
"""

CRYPTO_SPEC = """
broadcast use crate::stdax::axiom_str_ext;
// RFC 7518 section 3.1 (and RFC 9864 for the two fully-specified EdDSA names): the `alg` values
pub open spec fn alg_text(a: JwsSignatureAlgorithm) -> Seq<char> {
    match a {
        JwsSignatureAlgorithm::Hs256 => "HS256"@, JwsSignatureAlgorithm::Hs384 => "HS384"@, JwsSignatureAlgorithm::Hs512 => "HS512"@,
        JwsSignatureAlgorithm::Rs256 => "RS256"@, JwsSignatureAlgorithm::Es256 => "ES256"@, JwsSignatureAlgorithm::Es384 => "ES384"@,
        JwsSignatureAlgorithm::Es512 => "ES512"@, JwsSignatureAlgorithm::Ed25519 => "Ed25519"@, JwsSignatureAlgorithm::Ed448 => "Ed448"@,
    }
}
// configuration / account-file syntax: the names are read whatever their case
pub open spec fn alg_parse(s: Seq<char>) -> Option<JwsSignatureAlgorithm> {
    let l = crate::vfmt::lower(s);
    if l == "hs256"@ { Some(JwsSignatureAlgorithm::Hs256) } else if l == "hs384"@ { Some(JwsSignatureAlgorithm::Hs384) }
    else if l == "hs512"@ { Some(JwsSignatureAlgorithm::Hs512) } else if l == "rs256"@ { Some(JwsSignatureAlgorithm::Rs256) }
    else if l == "es256"@ { Some(JwsSignatureAlgorithm::Es256) } else if l == "es384"@ { Some(JwsSignatureAlgorithm::Es384) }
    else if l == "es512"@ { Some(JwsSignatureAlgorithm::Es512) } else if l == "ed25519"@ { Some(JwsSignatureAlgorithm::Ed25519) }
    else if l == "ed448"@ { Some(JwsSignatureAlgorithm::Ed448) } else { None }
}
pub open spec fn kt_text(k: KeyType) -> Seq<char> {
    match k {
        KeyType::Rsa2048 => "rsa2048"@, KeyType::Rsa4096 => "rsa4096"@, KeyType::EcdsaP256 => "ecdsa-p256"@, KeyType::EcdsaP384 => "ecdsa-p384"@,
        KeyType::EcdsaP521 => "ecdsa-p521"@, KeyType::Ed25519 => "ed25519"@, KeyType::Ed448 => "ed448"@,
    }
}
pub open spec fn kt_parse(s: Seq<char>) -> Option<KeyType> {
    let l = crate::vfmt::replaced(crate::vfmt::lower(s), '-', "_"@);
    if l == "rsa2048"@ { Some(KeyType::Rsa2048) } else if l == "rsa4096"@ { Some(KeyType::Rsa4096) }
    else if l == "ecdsa_p256"@ { Some(KeyType::EcdsaP256) } else if l == "ecdsa_p384"@ { Some(KeyType::EcdsaP384) }
    else if l == "ecdsa_p521"@ { Some(KeyType::EcdsaP521) } else if l == "ed25519"@ { Some(KeyType::Ed25519) }
    else if l == "ed448"@ { Some(KeyType::Ed448) } else { None }
}
// the digest names of the configuration (csr_digest, tacd --crt-digest): sha256 / sha384 / sha512, whatever the case, `-` and `_` ignored - and no other
pub open spec fn hash_parse(s: Seq<char>) -> Option<BaseHashFunction> {
    let l = crate::vfmt::replaced_set(crate::vfmt::lower(s), seq!['-', '_'], ""@);
    if l == "sha256"@ { Some(BaseHashFunction::Sha256) } else if l == "sha384"@ { Some(BaseHashFunction::Sha384) }
    else if l == "sha512"@ { Some(BaseHashFunction::Sha512) } else { None }
}
pub open spec fn hash_text(h: BaseHashFunction) -> Seq<char> {
    match h { BaseHashFunction::Sha256 => "sha256"@, BaseHashFunction::Sha384 => "sha384"@, BaseHashFunction::Sha512 => "sha512"@ }
}
"""

CRYPTO_LEMMAS = """
// what Display writes, FromStr reads back as the same value (the account file stores the one and parses it at the next start)
pub proof fn lemma_alg_text_reads_back(a: JwsSignatureAlgorithm)
    ensures alg_parse(alg_text(a)) == Some(a), //@C11.text_form_reads_back
{
    reveal_strlit("HS256"); reveal_strlit("HS384"); reveal_strlit("HS512"); reveal_strlit("RS256"); reveal_strlit("ES256");
    reveal_strlit("ES384"); reveal_strlit("ES512"); reveal_strlit("Ed25519"); reveal_strlit("Ed448");
    reveal_strlit("hs256"); reveal_strlit("hs384"); reveal_strlit("hs512"); reveal_strlit("rs256"); reveal_strlit("es256");
    reveal_strlit("es384"); reveal_strlit("es512"); reveal_strlit("ed25519"); reveal_strlit("ed448");
    let low = match a {
        JwsSignatureAlgorithm::Hs256 => "hs256"@, JwsSignatureAlgorithm::Hs384 => "hs384"@, JwsSignatureAlgorithm::Hs512 => "hs512"@,
        JwsSignatureAlgorithm::Rs256 => "rs256"@, JwsSignatureAlgorithm::Es256 => "es256"@, JwsSignatureAlgorithm::Es384 => "es384"@,
        JwsSignatureAlgorithm::Es512 => "es512"@, JwsSignatureAlgorithm::Ed25519 => "ed25519"@, JwsSignatureAlgorithm::Ed448 => "ed448"@,
    };
    crate::vfmt::axiom_lower_upper_ascii(alg_text(a), low);
}
pub proof fn lemma_key_type_text_reads_back(k: KeyType)
    ensures kt_parse(kt_text(k)) == Some(k), //@C11.text_form_reads_back
{
    reveal_strlit("rsa2048"); reveal_strlit("rsa4096"); reveal_strlit("ecdsa-p256"); reveal_strlit("ecdsa-p384"); reveal_strlit("ecdsa-p521");
    reveal_strlit("ecdsa_p256"); reveal_strlit("ecdsa_p384"); reveal_strlit("ecdsa_p521"); reveal_strlit("ed25519"); reveal_strlit("ed448"); reveal_strlit("_");
    reveal_strlit("ecdsa"); reveal_strlit("p256"); reveal_strlit("p384"); reveal_strlit("p521");
    let t = kt_text(k);
    assert(crate::vfmt::plain(t));
    crate::vfmt::axiom_lower_plain(t);
    match k {
        KeyType::EcdsaP256 => { assert(t =~= "ecdsa"@ + seq!['-'] + "p256"@); crate::vfmt::axiom_replaced_one("ecdsa"@, "p256"@, '-', "_"@); assert("ecdsa"@ + "_"@ + "p256"@ =~= "ecdsa_p256"@); }
        KeyType::EcdsaP384 => { assert(t =~= "ecdsa"@ + seq!['-'] + "p384"@); crate::vfmt::axiom_replaced_one("ecdsa"@, "p384"@, '-', "_"@); assert("ecdsa"@ + "_"@ + "p384"@ =~= "ecdsa_p384"@); }
        KeyType::EcdsaP521 => { assert(t =~= "ecdsa"@ + seq!['-'] + "p521"@); crate::vfmt::axiom_replaced_one("ecdsa"@, "p521"@, '-', "_"@); assert("ecdsa"@ + "_"@ + "p521"@ =~= "ecdsa_p521"@); }
        _ => { crate::vfmt::axiom_replaced_absent(t, '-', "_"@); }
    }
}
"""

AP_SPEC = """
// RFC 8555 section 8 / RFC 8737: the challenge type names
pub open spec fn challenge_text(c: Challenge) -> Seq<char> {
    match c { Challenge::Http01 => "http-01"@, Challenge::Dns01 => "dns-01"@, Challenge::TlsAlpn01 => "tls-alpn-01"@ }
}
"""

ID_SPEC = """
// RFC 8555 section 9.7.7 / RFC 8738: the identifier type names
pub open spec fn id_type_text(t: IdentifierType) -> Seq<char> { match t { IdentifierType::Dns => "dns"@, IdentifierType::Ip => "ip"@ } }
"""

CT_SPEC = """
broadcast use crate::stdax::axiom_str_ext;
pub open spec fn ct_text(t: ContactType) -> Seq<char> { match t { ContactType::Mailto => "mailto"@ } }
pub open spec fn ct_parse(s: Seq<char>) -> Option<ContactType> { if crate::vfmt::lower(s) == "mailto"@ { Some(ContactType::Mailto) } else { None } }
"""

CT_LEMMAS = """
pub proof fn lemma_contact_type_text_reads_back(t: ContactType)
    ensures ct_parse(ct_text(t)) == Some(t), //@C11.text_form_reads_back
{
    reveal_strlit("mailto");
    assert(crate::vfmt::plain("mailto"@));
    crate::vfmt::axiom_lower_plain("mailto"@);
}
"""
