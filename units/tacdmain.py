"""tacd/src/main.rs: init and its input helpers - which domain and extension the responder certificate is made for.
Serves C16 (the served certificate is for the A-label form of the requested domain, with the requested extension)."""
from unit import Unit, FnSpec

M = "tacd/src/main.rs"

GET_ONE = ("T-MAP", r"(?P<m>\w+)\s*\.get_one::<String>\((?P<k>[^()]*)\)", lambda m: f"{m.group('m')}.get_one_string({m.group('k')})", None)
AS_STR = ("T-CLOSURE", r"(?P<x>\w+\s*\.get_one::<String>\([^()]*\))\s*\.map\(\|e\| e\.as_str\(\)\)", None, None)


def build():
    u = Unit("tacdmain", "tacd")
    u.prelude("stdx", "tacdmain_shims")
    u.module("", "use crate::shims::*;\nuse crate::shims::acme_common::to_idna;\nuse crate::shims::crypto::{HashFunction, KeyType, X509Certificate};\n"
             "use crate::anyhow::Result;")
    u.raw("", SPEC)
    u.raw("", STUBS, trusted=True)
    u.take(M, "DEFAULT_LISTEN_ADDR", "")
    u.raw("", "pub const DEFAULT_CRT_KEY_TYPE: KeyType = KeyType { id: 2 };\npub const DEFAULT_CRT_DIGEST: HashFunction = HashFunction { id: 0 };\n", trusted=True)
    opt_as_str = ("T-CLOSURE", r"(?P<m>\w+)\s*\.get_one::<String>\((?P<k>[^()]*)\)\s*\.map\(\|e\| e\.as_str\(\)\)",
                  lambda m: f"crate::shims::opt_as_str({m.group('m')}.get_one_string({m.group('k')}))", None)
    get_one = ("T-MAP", r"(?P<m>\w+)\s*\.get_one::<String>\((?P<k>[^()]*)\)(?!\s*\.map\(\|e\| e\.as_str)", lambda m: f"{m.group('m')}.get_one_string({m.group('k')})", None)
    u.ghost_call("read_line", method=True)
    u.verify(M, "read_line", "", props=["C16"], fns={"read_line": FnSpec(ret="r", ghost=True, sig="""
    ensures
        // the trimmed content of the named file, or the next line of the standard input, trimmed - and that line only is taken
        r matches Ok(s) ==> s@ == (match path { Some(p) => trim_spec(file_text(p@)), None => trim_spec(first_line(old(w).stdin)) }), //@C16.a_value_read_is_the_trimmed_file_or_the_next_line_of_stdin
        r is Ok ==> final(w).stdin == (match path { Some(p) => old(w).stdin, None => after_first(old(w).stdin) }), //@C16.reading_a_value_takes_one_line_of_stdin_and_no_more
""")})
    u.verify(M, "get_acme_value", "", props=["C16"], fns={"get_acme_value": FnSpec(ret="r", ghost=True, sig="""
    ensures
        // the value given on the command line, else the (trimmed) content of the named file, else the next line of the standard input
        r matches Ok(s) ==> s@ == acme_value(*cnf, opt@, opt_file@, old(w).stdin), //@C16.input_value_is_the_option_or_the_file_or_stdin
        r is Ok ==> final(w).stdin == stdin_after(*cnf, opt@, opt_file@, old(w).stdin), //@C16.reading_a_value_takes_one_line_of_stdin_and_no_more
""", rewrites=[opt_as_str, get_one])})
    u.verify(M, "init", "", props=["C16", "C17"], fns={"init": FnSpec(ret="r", ghost=True, names={"laddr": r"server_start\(\s*&?(\w+)"}, body_start="let ghost stdin0 = w.stdin;", rewrites=[
        opt_as_str, get_one,
        ("T-ANYHOW", r"anyhow!\((?P<e>\w+)\)", r"crate::anyhow::from_err(\g<e>)", None),
        ("T-PARSE", r"alg\s*\.parse\(\)", "crate::shims::parse_named(alg)", None),
        ("T-CLOSURE", r"\|e: acme_common::error::Error\|", "|e: CommonError|", None),
        ("T-ATTR", r"acme_common::init_server", "crate::shims::acme_common::init_server"),
        ], at=[("before_stmt", "server_start(", 1, """
    proof {
        // the certificate that is served: for the A-label form of the requested domain, carrying the requested extension text,
        // with the key type and digest asked for (or the defaults), and the key that goes with it
        assert(crate::shims::acme_common::idna_spec(acme_value(*cnf, "domain"@, "domain-file"@, stdin0)) == Some(cert.domain@)); //@C16.served_certificate_is_for_the_a_label_form_of_the_requested_domain
        assert(cert.ext@ == acme_value(*cnf, "acme-ext"@, "acme-ext-file"@, stdin_after(*cnf, "domain"@, "domain-file"@, stdin0))); //@C16.served_certificate_carries_the_requested_extension
        assert(cert.key@ == pk.id@); //@C16.served_key_is_the_certificate_key
        // the address listened on is the one asked for (`--listen`), character for character (a unix socket path is case sensitive), else the default
        assert($laddr@ == (match arg_of(*cnf, "listen"@) { Some(v) => v@, None => crate::DEFAULT_LISTEN_ADDR@ })); //@C16.listens_on_the_address_asked_for,C17.listens_on_the_address_asked_for
    }""")])})
    return u


SPEC = """
broadcast use {crate::stdax2::axiom_to_string_string, vstd::string::to_string_from_display_ensures_for_str};
// the value of an input: given on the command line, else the trimmed content of the named file, else the next line of stdin, trimmed
pub open spec fn acme_value(cnf: ArgMatches, opt: Seq<char>, opt_file: Seq<char>, stdin: Seq<Seq<char>>) -> Seq<char> {
    match arg_of(cnf, opt) { Some(v) => v@, None => match arg_of(cnf, opt_file) { Some(p) => trim_spec(file_text(p@)), None => trim_spec(first_line(stdin)) } }
}
// what is left of the standard input afterwards: one line less when (and only when) the value came from there
pub open spec fn stdin_after(cnf: ArgMatches, opt: Seq<char>, opt_file: Seq<char>, stdin: Seq<Seq<char>>) -> Seq<Seq<char>> {
    if arg_of(cnf, opt) is None && arg_of(cnf, opt_file) is None { after_first(stdin) } else { stdin }
}
"""

STUBS = """
// openssl_server::start (unit tacd): serves this certificate with this key
#[verifier::external_body]
fn server_start(listen_addr: &str, certificate: &X509Certificate, key_pair: &crate::shims::crypto::KeyPair) -> (r: Result<()>) { unimplemented!() }
pub const APP_NAME: &'static str = "tacd";
"""
