"""tacd/src/main.rs: init and its input helpers - which domain and extension the responder certificate is made for.
Serves C16 (the served certificate is for the A-label form of the requested domain, with the requested extension)."""
from unit import Unit, FnSpec

M = "tacd/src/main.rs"

GET_ONE = ("T-MAP", r"(?P<m>\w+)\s*\.get_one::<String>\((?P<k>[^()]*)\)", lambda m: f"{m.group('m')}.get_one_string({m.group('k')})", None)
AS_STR = ("T-CLOSURE", r"(?P<x>\w+\s*\.get_one::<String>\([^()]*\))\s*\.map\(\|e\| e\.as_str\(\)\)", None, None)


def build():
    u = Unit("tacdmain", "tacd")
    u.prelude("stdx", "tacdmain_shims")
    u.module("", "use crate::shims::*;\nuse crate::shims::acme_common::to_idna;\nuse crate::shims::crypto::{HashFunction, KeyType, X509Certificate};\n"
             "use crate::anyhow::Result;")
    u.raw("", SPEC)
    u.raw("", STUBS, trusted=True)
    u.take(M, "DEFAULT_LISTEN_ADDR", "")
    u.raw("", "pub const DEFAULT_CRT_KEY_TYPE: KeyType = KeyType { id: 2 };\npub const DEFAULT_CRT_DIGEST: HashFunction = HashFunction { id: 0 };\n", trusted=True)
    opt_as_str = ("T-CLOSURE", r"(?P<m>\w+)\s*\.get_one::<String>\((?P<k>[^()]*)\)\s*\.map\(\|e\| e\.as_str\(\)\)",
                  lambda m: f"crate::shims::opt_as_str({m.group('m')}.get_one_string({m.group('k')}))", None)
    get_one = ("T-MAP", r"(?P<m>\w+)\s*\.get_one::<String>\((?P<k>[^()]*)\)(?!\s*\.map\(\|e\| e\.as_str)", lambda m: f"{m.group('m')}.get_one_string({m.group('k')})", None)
    u.verify(M, "get_acme_value", "", props=["C16"], fns={"get_acme_value": FnSpec(ret="r", sig="""
    ensures
        // the value given on the command line, else the (trimmed) content of the named file, else one line of the standard input
        r matches Ok(s) ==> s@ == acme_value(*cnf, opt@, opt_file@), //@C16.input_value_is_the_option_or_the_file_or_stdin
""", rewrites=[opt_as_str, get_one])})
    u.verify(M, "init", "", props=["C16"], fns={"init": FnSpec(ret="r", rewrites=[
        opt_as_str, get_one,
        ("T-ANYHOW", r"anyhow!\((?P<e>\w+)\)", r"crate::anyhow::from_err(\g<e>)", None),
        ("T-PARSE", r"alg\s*\.parse\(\)", "crate::shims::parse_named(alg)", None),
        ("T-CLOSURE", r"\|e: acme_common::error::Error\|", "|e: CommonError|", None),
        ("T-ATTR", r"acme_common::init_server", "crate::shims::acme_common::init_server"),
        ], at=[("before_stmt", "server_start(", 1, """
    proof {
        // the certificate that is served: for the A-label form of the requested domain, carrying the requested extension text,
        // with the key type and digest asked for (or the defaults), and the key that goes with it
        assert(crate::shims::acme_common::idna_spec(acme_value(*cnf, "domain"@, "domain-file"@)) == Some(cert.domain@)); //@C16.served_certificate_is_for_the_a_label_form_of_the_requested_domain
        assert(cert.ext@ == acme_value(*cnf, "acme-ext"@, "acme-ext-file"@)); //@C16.served_certificate_carries_the_requested_extension
        assert(cert.key@ == pk.id@); //@C16.served_key_is_the_certificate_key
    }""")])})
    return u


SPEC = """
broadcast use {crate::stdax2::axiom_to_string_string, vstd::string::to_string_from_display_ensures_for_str};
pub open spec fn acme_value(cnf: ArgMatches, opt: Seq<char>, opt_file: Seq<char>) -> Seq<char> {
    match arg_of(cnf, opt) { Some(v) => v@, None => line_of(arg_of(cnf, opt_file)) }
}
"""

STUBS = """
// read_line: the trimmed content of the file, or one trimmed line of the standard input
#[verifier::external_body]
fn read_line(path: Option<&String>) -> (r: Result<String>)
    ensures r matches Ok(s) ==> s@ == line_of(match path { Some(p) => Some(*p), None => None }) { unimplemented!() }
// openssl_server::start (unit tacd): serves this certificate with this key
#[verifier::external_body]
fn server_start(listen_addr: &str, certificate: &X509Certificate, key_pair: &crate::shims::crypto::KeyPair) -> (r: Result<()>) { unimplemented!() }
pub const APP_NAME: &'static str = "tacd";
"""
