"""acmed/src/acme_proto/structs/account.rs - the payloads of the account requests (newAccount, contact update, key roll-over):
what each constructor puts into the structure that is serialised.  Serves C11 (the CA's record is brought in line with exactly
the configured contacts; the roll-over names the account and the key the CA holds) and C04 (the external account binding is the
MAC-signed JWS over the account key's JWK for the newAccount URL)."""
from unit import Unit, FnSpec

S = "acmed/src/acme_proto/structs/account.rs"


def build():
    u = Unit("acctpayload", "acmed")
    u.prelude("err", "log", "stdx", "time", "acctpayload_shims")
    u.module("acme_proto", "")
    u.module("acme_proto::structs", "use crate::*;\nuse crate::shims::*;\nuse crate::shims::serde_json::Value;\nuse crate::acme_common::error::Error;\nuse crate::acme_common::crypto::KeyPair;")
    for t in ["Account", "AccountUpdate", "AccountKeyRollover"]:
        u.take(S, t, "acme_proto::structs")
    u.raw("acme_proto::structs", SPEC)
    u.verify(S, "Account::new", "acme_proto::structs", props=["C11", "C04"], fns={"new": FnSpec(ret="r",
        body_start="broadcast use crate::shims::axiom_contact_to_string;", rewrites=[
        ("T-ITER", r"account\s*\.contacts\s*\.iter\(\)\s*\.map\(\|(?P<p>\w+)\|\s*(?P<b>[^{}]*?)\)\s*\.collect\(\)",
         lambda m: f"crate::shims::map_collect(&account.contacts, |{m.group('p')}: &AccountContact| -> (s__: String)\n    ensures s__@ == contact_text(*{m.group('p')}) //@C11.new_account_payload_lists_every_contact\n {{ {m.group('b')} }})", 1)], sig="""
    ensures
        // every contact of the account, in order, in the text form the CA expects; never `onlyReturnExisting`; the terms of service flag of the endpoint
        r matches Ok(a) ==> a.contact@.len() == account.contacts@.len()
            && (forall|i: int| 0 <= i < a.contact@.len() ==> (#[trigger] a.contact@[i])@ == contact_text(account.contacts@[i])), //@C11.new_account_payload_lists_every_contact
        r matches Ok(a) ==> !a.only_return_existing && a.terms_of_service_agreed == endpoint.tos_agreed, //@C11.new_account_request_creates_the_account
        // the external account binding: present exactly when one is configured, and then the JWS over the account key's JWK, MAC-signed
        // with the binding key under the binding's algorithm and key id, for the newAccount URL (RFC 8555 section 7.3.4)
        r matches Ok(a) ==> (match account.external_account {
            Some(x) => a.external_account_binding matches Some(v) && exists|jws: Seq<char>| json_value_of(jws) == Some(v)
                && kid_mac(jws, x.key@, x.signature_algorithm, x.identifier@, crate::utf8_bytes(json_text(jwk_of(account.current_key.key))), endpoint.dir.new_account@),
            None => a.external_account_binding is None }), //@C04.external_account_binding_is_the_mac_signed_jwk_for_the_new_account_url,C11.external_account_binding_is_the_mac_signed_jwk_for_the_new_account_url
""")})
    u.verify(S, "AccountUpdate::new", "acme_proto::structs", props=["C11"], fns={"new": FnSpec(ret="r", sig="""
    ensures r.contact@.len() == contact@.len(), forall|i: int| 0 <= i < contact@.len() ==> (#[trigger] r.contact@[i])@ == contact@[i]@, //@C11.contact_update_payload_is_the_given_list
""")})
    u.verify(S, "AccountKeyRollover::new", "acme_proto::structs", props=["C11", "C04"], fns={"new": FnSpec(ret="r", sig="""
    ensures r matches Ok(k) ==> k.account@ == account_str@ && k.old_key == jwk_of(*old_key), //@C11.key_change_payload_names_the_account_and_the_old_key,C04.key_change_payload_names_the_account_and_the_old_key
""")})
    return u


SPEC = """
broadcast use {crate::stdax2::axiom_to_string_string, vstd::string::to_string_from_display_ensures_for_str};
"""
