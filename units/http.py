"""U2 - the HTTP layer (acmed/src/http.rs, acme_proto/http.rs, acme_proto/structs/error.rs).
Serves C08 (bounded retry, classification), C09 (every request passes the limiter), C04 (nonce/url
binding of every POST), C18 (requests only through a client built from the configured roots)."""
from unit import Unit, FnSpec
import ratelimit

H = "acmed/src/http.rs"
E = "acmed/src/acme_proto/structs/error.rs"
PH = "acmed/src/acme_proto/http.rs"
MAIN = "acmed/src/main.rs"

# frame + invariants shared by every function that talks to the network through one endpoint
NET_PRE = """
        nonce_sync(*old(endpoint), *old(w)),
        old(endpoint).rl.inv(*old(w)),
        old(w).net.trust_roots == roots_content(old(endpoint).root_certificates@),
"""
NET_POST = """
        nonce_sync(*final(endpoint), *final(w)), //@C04.nonce_sync
        final(endpoint).rl.inv(*final(w)), //@C09.limiter_inv
        final(w).net.trust_roots == old(w).net.trust_roots,
        final(endpoint).root_certificates == old(endpoint).root_certificates,
        final(endpoint).dir == old(endpoint).dir, final(endpoint).url == old(endpoint).url, final(endpoint).name == old(endpoint).name,
        final(w).clock >= old(w).clock, final(w).fs == old(w).fs,
"""
DB_PRE = "        forall|n: &str, u: &str| data_builder.requires((n, u)),\n"

LOOP_NET_INV = """
        w.net.trust_roots == roots_content(endpoint.root_certificates@),        nonce_sync(*endpoint, *w), endpoint.rl.inv(*w), w.net.trust_roots == old(w).net.trust_roots,
        endpoint.root_certificates == old(endpoint).root_certificates, endpoint.dir == old(endpoint).dir,
        endpoint.url == old(endpoint).url, endpoint.name == old(endpoint).name, w.clock >= old(w).clock, w.fs == old(w).fs,
"""


def contracts():
    c = {}
    c["is_nonce"] = FnSpec(ret="r", sig="    ensures r == crate::reqwest::is_nonce_spec(data@),")
    c["json"] = FnSpec(ret="r", sig="""
    ensures match r { Ok(x) => json_spec::<T>(self.body@) == Some(x), Err(_) => json_spec::<T>(self.body@) is None },
""")
    c["from_response"] = FnSpec(ret="r", sig="""
    ensures r matches Ok(v) ==> v.body@ == response.body@ && v.headers == response.hdrs, //@C02.body_is_response_body,C03.body_is_response_body,C07.body_is_response_body
""")
    c["get_header"] = FnSpec(ret="r", sig="""
    ensures
        // the text of the named header when it is present and printable, nothing otherwise (the two names acmed reads)
        name@ == "Replay-Nonce"@ ==> nonce_view(r) == (match self.headers.nonce@ { Some(v) => v.text@, None => None }), //@C04.header_read_is_the_named_header
        name@ == "Location"@ ==> nonce_view(r) == (match self.headers.location@ { Some(v) => v.text@, None => None }), //@C04.header_read_is_the_named_header,C11.account_url_is_the_location_header
""")
    c["header_to_string"] = FnSpec(ret="r", sig="""
    ensures (r matches Ok(s) ==> header_value.text@ == Some(s@)), (r is Err ==> header_value.text@ is None),
""")
    c["update_nonce"] = FnSpec(ret="r", sig="""
    ensures
        // the stored nonce becomes the response's nonce whenever it carries a well-formed one, and is kept otherwise
        r is Ok ==> nonce_view(final(endpoint).nonce) == (match response.valid_nonce() { Some(n) => Some(n), None => nonce_view(old(endpoint).nonce) }), //@C04.nonce_refreshed_from_every_response,C08.nonce_refreshed_from_every_response
        r is Err ==> final(endpoint).nonce == old(endpoint).nonce && response.valid_nonce() is None, //@C04.nonce_kept_on_error
        final(endpoint).rl == old(endpoint).rl, final(endpoint).root_certificates == old(endpoint).root_certificates,
        final(endpoint).dir == old(endpoint).dir, final(endpoint).url == old(endpoint).url, final(endpoint).name == old(endpoint).name,
""")
    c["check_status"] = FnSpec(ret="r", sig="""
    ensures r is Ok <==> response.success@, //@C08.status_check,C03.status_check,C02.status_check
""")
    c["rate_limit"] = FnSpec(ghost=True, sig="""
    requires old(endpoint).rl.inv(*old(w)),
    ensures final(endpoint).rl.inv(*final(w)), //@C09.limiter_inv
        final(w).net == (Net { permit: true, ..old(w).net }), //@C09.pass_granted_by_limiter
        final(w).clock >= old(w).clock, final(w).fs == old(w).fs,
        final(endpoint).nonce == old(endpoint).nonce, final(endpoint).root_certificates == old(endpoint).root_certificates,
        final(endpoint).dir == old(endpoint).dir, final(endpoint).url == old(endpoint).url, final(endpoint).name == old(endpoint).name,
""")
    c["get_client"] = FnSpec(ret="r", sig="""
    ensures
        // the client trusts, beyond the system store, certificates of the configured files only - and at least the first
        // certificate of every configured file: a file that holds none (unreadable, malformed) is an error
        r matches Ok(c) ==> roots_match(c.roots@, roots_content(root_certs@)) && !c.insecure@, //@C18.client_roots_are_the_configured_files
""", loops={1: """
    invariant roots_match(client_builder.roots@, roots_content(root_certs@.take(it.index@))), !client_builder.insecure@,
"""}, at=[("loop_iter", None, 1, "it:"),
          ("loop_start", None, 1, "let ghost cb0 = client_builder;"),
          ("before_stmt", "for crt_file", 1, "proof { assert(roots_content(root_certs@.take(0)) =~= Seq::<Seq<u8>>::empty()); }"),
          ("loop_end", None, 1, """
            proof {
                let i = it.index@;
                let f0 = roots_content(root_certs@.take(i));
                let f1 = roots_content(root_certs@.take(i + 1));
                assert(root_certs@.take(i + 1) =~= root_certs@.take(i).push(root_certs@[i]));
                assert(f1 =~= f0.push(crate::rootfs::file_content(root_certs@[i]@)));
                let file = crate::rootfs::file_content(root_certs@[i]@);
                assert(Seq::<u8>::empty() + file =~= file);
                let r0 = cb0.roots@; let r1 = client_builder.roots@;
                assert(reqwest::pem_certs(file).to_set().contains(reqwest::pem_certs(file)[0]));
                lemma_roots_step(cb0.roots@, client_builder.roots@, f0, crate::rootfs::file_content(root_certs@[i]@));
            }"""),
          ("before_tail", None, 1, "proof { assert(root_certs@.take(root_certs@.len() as int) =~= root_certs@); }")],
        rewrites=[("T-PARSE", r"(?P<e>\"[^\"]*\"|\w+)\.parse\(\)", r"crate::reqwest::header::parse_header_value(&\g<e>)", None)])
    c["get"] = FnSpec(ret="r", ghost=True, sig="    requires" + NET_PRE + "    ensures" + NET_POST + """
        final(w).net.posts == old(w).net.posts, final(w).net.waited == old(w).net.waited,
        r is Ok ==> final(w).net.last_success, //@C08.ok_is_2xx
""")
    c["new_nonce"] = FnSpec(ret="r", ghost=True, sig="    requires" + NET_PRE + "    ensures" + NET_POST + """
        final(w).net.posts == old(w).net.posts, final(w).net.waited == old(w).net.waited,
""", at=[("before_stmt_re", r"\bget\(endpoint,", 1, """
    proof {
        // a fresh nonce is asked of the server's newNonce resource (RFC 8555 section 7.2), not of whatever URL answers
        assert(url@ == endpoint.dir.new_nonce@); //@C04.a_nonce_is_fetched_from_the_new_nonce_resource
    }""")])
    # (url_given__: the URL text the caller gave - a local of the same name may shadow the parameter further down)
    c["post"] = FnSpec(ret="r", ghost=True, body_start="let ghost url_given__: &str = url;", sig="    requires" + NET_PRE + DB_PRE + "    ensures" + NET_POST + """
        final(w).net.posts <= old(w).net.posts + 10, //@C08.at_most_10_transmissions,C07.every_request_is_given_up_after_a_bounded_number_of_transmissions
        final(w).net.waited <= old(w).net.waited + POST_WAIT_NS(), //@C07.the_waits_between_transmissions_are_bounded
        r is Ok ==> final(w).net.last_success && final(w).net.posts > old(w).net.posts, //@C08.ok_is_2xx
        r matches Ok(v) ==> v.body@ == final(w).net.last_body, //@C02.body_is_response_body,C03.body_is_response_body,C07.body_is_response_body
""", loops={1: "    invariant" + LOOP_NET_INV + DB_PRE + """
        roots_match(client.roots@, w.net.trust_roots), !client.insecure@,
        old(w).net.posts <= w.net.posts,
        w.net.posts <= old(w).net.posts + $ROUND, //@C08.one_transmission_per_round,C07.every_request_is_given_up_after_a_bounded_number_of_transmissions
        w.net.waited <= old(w).net.waited + $ROUND * FAIL_WAIT_NS(), //@C07.the_waits_between_transmissions_are_bounded
        crate::DEFAULT_HTTP_FAIL_NB_RETRY == 10, //@C08.retry_constant_is_10
        // a further round is reached only after a non-2xx answer whose problem document names a recoverable type
        $ROUND > 0 ==> !w.net.last_success && recoverable_body(w.net.last_body), //@C08.retry_only_after_recoverable_error
"""}, counted={1: "ROUND"},
      at=[("before_stmt", ".send(", 1, """
        proof {
            // history variable: the body about to be sent was built, in this round, from exactly (stored nonce, this url)
            let n_view = match nonce_view(endpoint.nonce) { Some(s) => s, None => Seq::<char>::empty() };
            assert(exists|n: &str| n@ == n_view && #[trigger] data_builder.ensures((n, url_given__), Ok(body))); //@C04.body_built_from_stored_nonce_and_url,C08.retransmission_rebuilt_with_newest_nonce
            w.net.built = Some((n_view, url_given__@, body@));
        }"""),
          ("exits", None, 1, """
        proof {
            // an answer that is a recoverable problem document is never the reason to give up: either the latest answer was a success,
            // or it was not a recoverable error (the only other ways out are the exhausted retry budget and failed steps, which `?` reports)
            assert(w.net.last_success || !recoverable_body(w.net.last_body) || w.net.posts == old(w).net.posts); //@C08.a_recoverable_error_is_sent_again_not_given_up
        }"""),
          ("before_stmt_re", r"\.is_recoverable\(\)", 1, """
                proof {
                    assert(json_spec::<HttpApiError>(w.net.last_body) == Some(api_err));
                }"""),
          ])
    c["post_jose"] = FnSpec(ret="r", ghost=True, sig=c["post"].sig)
    # polling (macro-expanded)
    pool_sig = "    requires" + NET_PRE + DB_PRE + "        forall|o| break_fn.requires((o,)),\n    ensures" + NET_POST + """
        final(w).net.posts <= old(w).net.posts + 20 * 10, //@C08.at_most_20_polls,C07.every_poll_is_given_up_after_a_bounded_number_of_requests
        // whatever the server answers, polling takes a bounded time: a fixed pause before each poll, the bounded waits of each request
        final(w).net.waited <= old(w).net.waited + crate::DEFAULT_POOL_NB_TRIES as nat * (POOL_WAIT_NS() + POST_WAIT_NS()), //@C07.polling_ends_in_bounded_time
        r matches Ok(obj) ==> break_fn.ensures((&obj,), true), //@C08.poll_ok_means_condition_met
"""
    pool_loop = {1: "    invariant" + LOOP_NET_INV + DB_PRE + """
        forall|o| break_fn.requires((o,)),
        crate::DEFAULT_POOL_NB_TRIES == 20, //@C08.poll_constant_is_20
        w.net.posts <= old(w).net.posts + $ROUND * 10, //@C08.one_request_per_poll,C07.every_poll_is_given_up_after_a_bounded_number_of_requests
        // another poll follows only a poll that was answered with the object (not yet in the awaited state): an error answer ends the polling
        $ROUND > 0 ==> w.net.last_success, //@C08.an_error_answer_to_a_poll_ends_the_polling
        w.net.waited <= old(w).net.waited + $ROUND * (POOL_WAIT_NS() + POST_WAIT_NS()), //@C07.polling_ends_in_bounded_time
"""}
    pool_at = [("loop_start", None, 1, """
            proof {
                let k__ = $ROUND; let kk__ = POOL_WAIT_NS() + POST_WAIT_NS(); let n__ = crate::DEFAULT_POOL_NB_TRIES as nat;
                assert(k__ + 1 <= n__);
                assert((k__ + 1) * kk__ == k__ * kk__ + kk__) by(nonlinear_arith);
                assert((k__ + 1) * kk__ <= n__ * kk__) by(nonlinear_arith) requires k__ + 1 <= n__;
            }"""), ("loop_end", None, 1, """
            proof {
                let k__ = $ROUND; let kk__ = POOL_WAIT_NS() + POST_WAIT_NS();
                assert((k__ + 1) * kk__ == k__ * kk__ + kk__) by(nonlinear_arith);
                assert((k__ + 1) * 10 == k__ * 10 + 10);
            }""")]
    c["pool_authorization"] = FnSpec(ret="r", ghost=True, sig=pool_sig, loops=pool_loop, counted={1: "ROUND"}, at=pool_at)
    c["pool_order"] = FnSpec(ret="r", ghost=True, sig=pool_sig, loops=pool_loop, counted={1: "ROUND"}, at=pool_at)
    c["get_certificate"] = FnSpec(ret="r", ghost=True, sig="    requires" + NET_PRE + DB_PRE + "    ensures" + NET_POST + """
        final(w).net.posts <= old(w).net.posts + 10, final(w).net.waited <= old(w).net.waited + POST_WAIT_NS(),
        r matches Ok(s) ==> s@ == final(w).net.last_body && final(w).net.last_success, //@C02.certificate_is_response_body
""")
    # error classification
    c["is_recoverable"] = FnSpec(ret="r", sig="    ensures r == is_recoverable_spec(*self), //@C08.recoverable_set\n")
    c["get_acme_type"] = FnSpec(ret="r", sig="    ensures r == acme_type_of(*self), //@C08.type_of_problem_document\n")
    c["get_type"] = FnSpec(ret="r", sig="""
    ensures r@ == (match self.error_type { Some(s) => s@, None => "about:blank"@ }), //@C08.absent_type_is_about_blank
""", at=[("after", "unwrap_or_else(||", 1, "-> (dflt: String) ensures dflt@ == \"about:blank\"@ {"),
         ("after", "String::from(\"about:blank\")", 1, "}")])
    return c


def build():
    u = Unit("http", "acmed")
    u.prelude("err", "log", "stdx", "time", "world", "titer", "seqlemmas", "reqwest")
    u.ghost_call("sleep", quals=("", "thread"))
    u.ghost_call("send", method=True)
    for cst in ["DEFAULT_HTTP_FAIL_NB_RETRY", "DEFAULT_HTTP_FAIL_WAIT_SEC", "DEFAULT_POOL_NB_TRIES",
                "DEFAULT_POOL_WAIT_SEC", "APP_NAME", "APP_VERSION", "MAX_RATE_LIMIT_SLEEP_MILISEC",
                "MIN_RATE_LIMIT_SLEEP_MILISEC"]:
        u.take(MAIN, cst, "")
    c = contracts()
    rc = ratelimit.contracts()
    u.drop_derives = {"Clone", "Debug", "PartialEq"}
    # --- endpoint module: data + the limiter as a contract-only stub (verified in unit ratelimit)
    u.module("endpoint", "use crate::*;\nuse crate::acme_common::error::Error;\nuse std::cmp;\n"
             "use std::time::{Duration, Instant};\nuse crate::vtime::sleep;\nuse crate::seqlemmas::*;\n"
             "use crate::acme_proto::structs::Directory;")
    u.take("acmed/src/endpoint.rs", "Endpoint", "endpoint")
    u.take("acmed/src/endpoint.rs", "RateLimit", "endpoint")
    u.raw("endpoint", ratelimit.SPEC)
    u.stub("acmed/src/endpoint.rs", "RateLimit::block_until_allowed", "endpoint",
           fns={"block_until_allowed": rc["block_until_allowed"]})
    # methods of RateLimit that did not exist when the contracts were written: seen through the representation-invariant contract that
    # unit ratelimit verifies them against
    for name_, recv_ in u.new_methods("acmed/src/endpoint.rs", "RateLimit"):
        if recv_ == "&mut self":
            u.ghost_call(name_, method=True)
            u.stub("acmed/src/endpoint.rs", f"RateLimit::{name_}", "endpoint", fns={name_: ratelimit.new_method_spec()})
        elif recv_ == "&self":
            u.stub("acmed/src/endpoint.rs", f"RateLimit::{name_}", "endpoint", fns={name_: FnSpec(sig="    requires self.wf_limits(),\n")})
    # --- acme_proto::structs : error classification (verified) + opaque protocol objects
    u.module("acme_proto", "")
    u.module("acme_proto::structs", "use crate::*;\nuse crate::acme_common::error::Error;")
    u.take("acmed/src/acme_proto/structs/directory.rs", "DirectoryMeta", "acme_proto::structs")
    u.take("acmed/src/acme_proto/structs/directory.rs", "Directory", "acme_proto::structs")
    u.take(E, "AcmeError", "acme_proto::structs", keep_derives=("PartialEq",))
    u.raw("acme_proto::structs", STRUCTS_SPEC)
    u.verify(E, "impl From<String> for AcmeError", "acme_proto::structs", props=["C08"],
             fns={"from": FnSpec(ret="r", sig="    ensures r == acme_error_of(error@), //@C08.urn_table\n")})
    u.verify(E, "AcmeError::is_recoverable", "acme_proto::structs", props=["C08"], fns={"is_recoverable": c["is_recoverable"]})
    u.take(E, "HttpApiError", "acme_proto::structs")
    u.verify(E, "HttpApiError::get_type", "acme_proto::structs", props=["C08"], fns={"get_type": c["get_type"]})
    u.verify(E, "HttpApiError::get_acme_type", "acme_proto::structs", props=["C08"], fns={"get_acme_type": c["get_acme_type"]})
    # --- http module
    u.module("http", "use crate::*;\nuse crate::acme_proto::structs::*;\nuse crate::endpoint::Endpoint;\n"
             "use crate::acme_common::error::Error;\nuse crate::reqwest;\nuse crate::reqwest::header::{HeaderMap, HeaderValue};\n"
             "use crate::reqwest::{header, Client, ClientBuilder, Response};\nuse crate::rootfs::File;\nuse std::time;\nuse crate::vthread as thread;")
    for cst in ["CONTENT_TYPE_JOSE", "CONTENT_TYPE_JSON", "CONTENT_TYPE_PEM", "HEADER_NONCE", "HEADER_LOCATION"]:
        u.take(H, cst, "http")
    u.take(H, "ValidHttpResponse", "http")
    u.raw("http", HTTP_SPEC)
    u.take(H, "HttpError", "http")
    for imp in ["impl From<Error> for HttpError", "impl From<HttpApiError> for HttpError",
                "impl From<&str> for HttpError", "impl From<String> for HttpError",
                "impl From<reqwest::Error> for HttpError"]:
        u.verify(H, imp, "http", props=["C08"])
    u.verify(H, "HttpError::is_acme_err", "http", props=["C11", "C08"], fns={"is_acme_err": FnSpec(ret="r", sig="""
    ensures r == (match *self { HttpError::ApiError(e) => acme_type_of(e) == acme_error, HttpError::GenericError(_) => false }), //@C11.an_error_is_taken_for_an_acme_error_of_a_type_only_when_it_is_one,C08.an_error_is_taken_for_an_acme_error_of_a_type_only_when_it_is_one
""")})
    u.stub(H, "ValidHttpResponse::json", "http", fns={"json": c["json"]})
    u.stub(H, "is_nonce", "http", fns={"is_nonce": c["is_nonce"]})
    u.verify(H, "ValidHttpResponse::from_response", "http", props=["C08", "C02"], fns={"from_response": c["from_response"]})
    u.verify(H, "ValidHttpResponse::get_header", "http", props=["C08", "C04", "C11"], fns={"get_header": c["get_header"]})
    u.verify(H, "header_to_string", "http", props=["C04"], fns={"header_to_string": c["header_to_string"]})
    u.verify(H, "update_nonce", "http", props=["C04"], fns={"update_nonce": c["update_nonce"]})
    u.verify(H, "check_status", "http", props=["C08"], fns={"check_status": c["check_status"]})
    u.verify(H, "rate_limit", "http", props=["C09"], fns={"rate_limit": c["rate_limit"]})
    u.verify(H, "get_client", "http", props=["C18"], fns={"get_client": c["get_client"]})
    u.verify(H, "new_nonce", "http", props=["C09", "C04", "C18"], fns={"new_nonce": c["new_nonce"]})
    u.verify(H, "get", "http", props=["C09", "C04", "C18", "C08"], fns={"get": c["get"]})
    u.verify(H, "post", "http", props=["C09", "C04", "C18", "C08", "C07"], fns={"post": c["post"]})
    u.verify(H, "post_jose", "http", props=["C09", "C04", "C18", "C08"], fns={"post_jose": c["post_jose"]})
    # --- acme_proto::http : polling (macro-expanded) and the thin wrappers
    u.macro(PH, "pool_object")
    u.module("acme_proto::http", "use crate::*;\nuse crate::acme_proto::structs::*;\nuse crate::endpoint::Endpoint;\n"
             "use crate::http;\nuse crate::http::*;\nuse crate::acme_common::error::Error;\nuse std::time;\nuse crate::vthread as thread;")
    u.verify(PH, "pool_authorization", "acme_proto::http", props=["C08", "C09", "C04", "C18", "C07"], fns={"pool_authorization": c["pool_authorization"]})
    u.verify(PH, "pool_order", "acme_proto::http", props=["C08", "C09", "C04", "C18", "C07"], fns={"pool_order": c["pool_order"]})
    u.verify(PH, "get_certificate", "acme_proto::http", props=["C02", "C09", "C04", "C18"], fns={"get_certificate": c["get_certificate"]})
    simple = "    requires" + NET_PRE + DB_PRE + "    ensures" + NET_POST + "        final(w).net.posts <= old(w).net.posts + 10, final(w).net.waited <= old(w).net.waited + POST_WAIT_NS(),\n"
    for name in ["post_jose_no_response", "new_account", "new_order", "get_authorization", "finalize_order"]:
        u.verify(PH, name, "acme_proto::http", props=["C09", "C04", "C18"], fns={name: FnSpec(ret="r", ghost=True, sig=simple)})
    u.verify(PH, "refresh_directory", "acme_proto::http", props=["C09", "C04", "C18"],
             fns={"refresh_directory": FnSpec(ret="r", ghost=True, sig="    requires" + NET_PRE + "    ensures" + NET_POST.replace("        final(endpoint).dir == old(endpoint).dir,", "       ") + "        final(w).net.posts == old(w).net.posts, final(w).net.waited == old(w).net.waited,\n")})
    return u


STRUCTS_SPEC = """
broadcast use crate::stdax::axiom_str_ext;
pub open spec fn is_recoverable_spec(e: AcmeError) -> bool {
    // the set named by the property statement (RFC 8555 section 6.7 types worth a retry)
    e is BadNonce || e is Connection || e is Dns || e is Malformed || e is RateLimited || e is ServerInternal || e is Tls
}
pub open spec fn acme_error_of(s: Seq<char>) -> AcmeError {
    if s == "urn:ietf:params:acme:error:accountDoesNotExist"@ { AcmeError::AccountDoesNotExist }
    else if s == "urn:ietf:params:acme:error:alreadyRevoked"@ { AcmeError::AlreadyRevoked }
    else if s == "urn:ietf:params:acme:error:badCSR"@ { AcmeError::BadCSR }
    else if s == "urn:ietf:params:acme:error:badNonce"@ { AcmeError::BadNonce }
    else if s == "urn:ietf:params:acme:error:badPublicKey"@ { AcmeError::BadPublicKey }
    else if s == "urn:ietf:params:acme:error:badRevocationReason"@ { AcmeError::BadRevocationReason }
    else if s == "urn:ietf:params:acme:error:badSignatureAlgorithm"@ { AcmeError::BadSignatureAlgorithm }
    else if s == "urn:ietf:params:acme:error:caa"@ { AcmeError::Caa }
    else if s == "urn:ietf:params:acme:error:compound"@ { AcmeError::Compound }
    else if s == "urn:ietf:params:acme:error:connection"@ { AcmeError::Connection }
    else if s == "urn:ietf:params:acme:error:dns"@ { AcmeError::Dns }
    else if s == "urn:ietf:params:acme:error:externalAccountRequired"@ { AcmeError::ExternalAccountRequired }
    else if s == "urn:ietf:params:acme:error:incorrectResponse"@ { AcmeError::IncorrectResponse }
    else if s == "urn:ietf:params:acme:error:invalidContact"@ { AcmeError::InvalidContact }
    else if s == "urn:ietf:params:acme:error:malformed"@ { AcmeError::Malformed }
    else if s == "urn:ietf:params:acme:error:orderNotReady"@ { AcmeError::OrderNotReady }
    else if s == "urn:ietf:params:acme:error:rateLimited"@ { AcmeError::RateLimited }
    else if s == "urn:ietf:params:acme:error:rejectedIdentifier"@ { AcmeError::RejectedIdentifier }
    else if s == "urn:ietf:params:acme:error:serverInternal"@ { AcmeError::ServerInternal }
    else if s == "urn:ietf:params:acme:error:tls"@ { AcmeError::Tls }
    else if s == "urn:ietf:params:acme:error:unauthorized"@ { AcmeError::Unauthorized }
    else if s == "urn:ietf:params:acme:error:unsupportedContact"@ { AcmeError::UnsupportedContact }
    else if s == "urn:ietf:params:acme:error:unsupportedIdentifier"@ { AcmeError::UnsupportedIdentifier }
    else if s == "urn:ietf:params:acme:error:userActionRequired"@ { AcmeError::UserActionRequired }
    else { AcmeError::Unknown }
}
// the derived PartialEq of AcmeError is checked against structural equality
impl vstd::std_specs::cmp::PartialEqSpecImpl for AcmeError {
    open spec fn obeys_eq_spec() -> bool { true }
    open spec fn eq_spec(&self, other: &AcmeError) -> bool { *self == *other }
}
impl vstd::std_specs::convert::FromSpecImpl<String> for AcmeError {
    open spec fn obeys_from_spec() -> bool { true }
    open spec fn from_spec(e: String) -> Self { acme_error_of(e@) }
}
impl HttpApiError {
    pub closed spec fn type_view(&self) -> Seq<char> {
        match self.error_type { Some(s) => s@, None => "about:blank"@ }
    }
}
pub open spec fn acme_type_of(e: HttpApiError) -> AcmeError { acme_error_of(e.type_view()) }
impl crate::serde::de::DeserializeOwned for HttpApiError {}
impl crate::serde::de::DeserializeOwned for Directory {}
// protocol objects that this unit only passes through (their own contracts live in other units)
pub struct Authorization { pub opaque: u8 }
pub struct Order { pub opaque: u8 }
pub struct AccountResponse { pub opaque: u8 }
impl crate::serde::de::DeserializeOwned for Authorization {}
impl crate::serde::de::DeserializeOwned for Order {}
impl crate::serde::de::DeserializeOwned for AccountResponse {}
"""

HTTP_SPEC = """
// the pauses of the HTTP layer, in nanoseconds, as the constants of main.rs give them (whatever their values are: the bounds below are finite)
pub open spec fn FAIL_WAIT_NS() -> nat { crate::DEFAULT_HTTP_FAIL_WAIT_SEC as nat * 1_000_000_000 }
pub open spec fn POST_WAIT_NS() -> nat { crate::DEFAULT_HTTP_FAIL_NB_RETRY as nat * FAIL_WAIT_NS() }
pub open spec fn POOL_WAIT_NS() -> nat { crate::DEFAULT_POOL_WAIT_SEC as nat * 1_000_000_000 }
pub uninterp spec fn json_spec<T>(body: Seq<char>) -> Option<T>;
pub open spec fn nonce_view(n: Option<String>) -> Option<Seq<char>> {
    match n { Some(s) => Some(s@), None => None }
}
// the endpoint's stored nonce is the newest well-formed nonce the server issued
pub open spec fn nonce_sync(e: Endpoint, w: World) -> bool { nonce_view(e.nonce) == w.net.latest_nonce }
pub open spec fn roots_content(files: Seq<String>) -> Seq<Seq<u8>> {
    files.map_values(|s: String| crate::rootfs::file_content(s@))
}
// the certificates held by the configured files, and the first certificate of each
pub open spec fn all_certs(files: Seq<Seq<u8>>) -> Set<Seq<u8>>
    decreases files.len()
{
    if files.len() == 0 { Set::empty() } else { all_certs(files.drop_last()).union(reqwest::pem_certs(files.last()).to_set()) }
}
pub open spec fn first_certs(files: Seq<Seq<u8>>) -> Set<Seq<u8>>
    decreases files.len()
{
    if files.len() == 0 { Set::empty() } else { first_certs(files.drop_last()).insert(reqwest::pem_certs(files.last())[0]) }
}
pub open spec fn all_nonempty(files: Seq<Seq<u8>>) -> bool
    decreases files.len()
{
    files.len() == 0 || (all_nonempty(files.drop_last()) && reqwest::pem_certs(files.last()).len() >= 1)
}
// every trusted extra root is a certificate of one of the configured files, and every configured file contributes
// at least its first certificate (so a file without any certificate cannot be passed over)
pub open spec fn roots_match(roots: Set<Seq<u8>>, files: Seq<Seq<u8>>) -> bool {
    roots.subset_of(all_certs(files)) && first_certs(files).subset_of(roots) && all_nonempty(files)
}
// one loop round: the builder gained certificates of `file` only, among them its first one
pub proof fn lemma_roots_step(r0: Set<Seq<u8>>, r1: Set<Seq<u8>>, files: Seq<Seq<u8>>, file: Seq<u8>)
    requires roots_match(r0, files), reqwest::pem_certs(file).len() >= 1,
        r0.subset_of(r1), r1.subset_of(r0.union(reqwest::pem_certs(file).to_set())), r1.contains(reqwest::pem_certs(file)[0]),
    ensures roots_match(r1, files.push(file))
{
    let f1 = files.push(file);
    assert(f1.drop_last() =~= files);
    assert(f1.last() == file);
}
pub open spec fn recoverable_body(b: Seq<char>) -> bool {
    json_spec::<HttpApiError>(b) matches Some(e) && is_recoverable_spec(acme_type_of(e))
}
impl vstd::std_specs::convert::FromSpecImpl<Error> for HttpError {
    open spec fn obeys_from_spec() -> bool { true }
    open spec fn from_spec(e: Error) -> Self { HttpError::GenericError(e) }
}
impl vstd::std_specs::convert::FromSpecImpl<HttpApiError> for HttpError {
    open spec fn obeys_from_spec() -> bool { true }
    open spec fn from_spec(e: HttpApiError) -> Self { HttpError::ApiError(e) }
}
impl<'a> vstd::std_specs::convert::FromSpecImpl<&'a str> for HttpError {
    open spec fn obeys_from_spec() -> bool { false }
    open spec fn from_spec(e: &'a str) -> Self { arbitrary() }
}
impl vstd::std_specs::convert::FromSpecImpl<String> for HttpError {
    open spec fn obeys_from_spec() -> bool { false }
    open spec fn from_spec(e: String) -> Self { arbitrary() }
}
impl vstd::std_specs::convert::FromSpecImpl<reqwest::Error> for HttpError {
    open spec fn obeys_from_spec() -> bool { false }
    open spec fn from_spec(e: reqwest::Error) -> Self { arbitrary() }
}
"""
