"""U5 - file storage (acmed/src/storage.rs).  Serves C02 (exact content), C13 (mode/owner), C10 (hook bracket)."""
from unit import Unit, FnSpec

S = "acmed/src/storage.rs"

FS_FRAME = "final(w).clock == old(w).clock, final(w).admissions == old(w).admissions, final(w).net == old(w).net,"


def contracts():
    c = {}
    c["get_file_full_path"] = FnSpec(ret="r", sig="""
    ensures
        // each file type lives in its own directory under its own name: the key file follows the key settings, the certificate file the
        // certificate settings, the account file the account name
        r matches Ok(t) ==> t.2@ == file_path_spec(*fm, file_type) && t.0@ == file_dir_spec(*fm, file_type)
                && t.1@ == file_name_spec(*fm, file_type), //@C02.each_file_type_has_its_own_path,C03.each_file_type_has_its_own_path,C13.each_file_type_has_its_own_path,C01.the_key_file_is_beside_the_certificate_file
        (r is Ok) == path_ok(*fm, file_type),
""", rewrites=[("T-FMT", r"format!\(\s*\"\{account\}\.\{file_type\}\.\{ext\}\",\s*account = (?P<a>[^,]+),\s*file_type = (?P<b>\w+),\s*ext = (?P<c>\w+),?\s*\)",
                lambda m: f"dot3(&{m.group('a').strip()}, &{m.group('b')}, &{m.group('c')})")],
)
    c["get_file_path"] = FnSpec(ret="r", sig="""
    ensures r matches Ok(p) ==> p@ == file_path_spec(*fm, file_type), (r is Ok) == path_ok(*fm, file_type),
""")
    c["read_file"] = FnSpec(ret="r", ghost=True, sig="""
    ensures *final(w) == *old(w),
        r matches Ok(v) ==> old(w).fs.files.contains_key(path@) && v@ == old(w).fs.files[path@],
        (r is Ok) == (old(w).fs.files.contains_key(path@) && !crate::vfs::read_faults(old(w).fs, path@)),
""")
    c["set_owner"] = FnSpec(ret="r", ghost=True, sig="""
    ensures """ + FS_FRAME + """
        final(w).fs.files == old(w).fs.files, final(w).fs.modes == old(w).fs.modes,
        // account files are never chown'ed; key and certificate files get exactly one chown with the resolved ids
        file_type is Account ==> r is Ok && final(w).fs.events == old(w).fs.events, //@C13.account_not_chowned
        !(file_type is Account) && r is Ok ==> final(w).fs.events == old(w).fs.events.push(FsEvent::Chown {
            path: path@, uid: uid_spec(owner_cfg(*fm, file_type)), gid: gid_spec(group_cfg(*fm, file_type)) }), //@C13.chown_with_configured_ids
        // a configured but unresolvable numeric id is an error, never silently skipped
        !(file_type is Account) && r is Ok ==> (owner_cfg(*fm, file_type) matches Some(u) && crate::vparse::all_digits(u@) ==> uid_spec(owner_cfg(*fm, file_type)) is Some), //@C13.numeric_uid_must_parse
        !(file_type is Account) && r is Ok ==> (group_cfg(*fm, file_type) matches Some(g) && crate::vparse::all_digits(g@) ==> gid_spec(group_cfg(*fm, file_type)) is Some), //@C13.numeric_gid_must_parse
        !(file_type is Account) && r is Err ==> final(w).fs.events == old(w).fs.events
            || exists|e: FsEvent| final(w).fs.events == old(w).fs.events.push(e) && e is Chown,
""", rewrites=[("T-ITER", r"(?P<v>\w+)\.bytes\(\)\.all\(\|b\| b\.is_ascii_digit\(\)\)", r"crate::vparse::all_ascii_digit(&\g<v>)", 2),
               ("T-PARSE", r"(?P<v>\w+)\s*\.parse::<u32>\(\)", r"crate::vparse::parse_u32(&\g<v>)", 2)],
        )
    # (the two projection closures `|u| u.uid` / `|g| g.gid` are annotated by the generic rule T-CLOSURE)
    c["write_file"] = FnSpec(ret="r", ghost=True, sig="""
    ensures """ + FS_FRAME + """
        // C02: whatever the file held before, a successful write leaves exactly the new content
        r is Ok ==> final(w).fs.files.contains_key(file_path_spec(*fm, file_type))
            && final(w).fs.files[file_path_spec(*fm, file_type)] == data@, //@C02.exact_content,C07.success_is_reported_only_when_the_file_is_installed,C03.what_is_reported_written_is_written,C01.the_key_that_is_stored_is_the_key_of_the_csr,C11.what_is_reported_written_is_written
        // nothing but the target file is touched
        others_untouched(old(w).fs, final(w).fs, file_path_spec(*fm, file_type)), //@C02.other_files_untouched
        // C13: a file that did not exist is created with the mode configured for its type (0600 for accounts)
        r is Ok && !old(w).fs.files.contains_key(file_path_spec(*fm, file_type)) ==>
            final(w).fs.modes[file_path_spec(*fm, file_type)] == mode_cfg(*fm, file_type), //@C13.created_with_configured_mode
        // an existing file keeps the mode it was created with (it is rewritten in place, not replaced by a file made with other permissions)
        r is Ok && old(w).fs.files.contains_key(file_path_spec(*fm, file_type)) ==>
            final(w).fs.modes[file_path_spec(*fm, file_type)] == old(w).fs.modes[file_path_spec(*fm, file_type)], //@C13.existing_file_keeps_its_mode
        // C10/C13: pre hook, open, write, (chown), post hook - in this order, create or edit consistently
        r is Ok ==> final(w).fs.events == old(w).fs.events + write_trace(*fm, file_type, !old(w).fs.files.contains_key(file_path_spec(*fm, file_type))), //@C10.file_hook_bracket,C13.chown_after_write
        // whatever happens (a hook that fails, an unwritable target), what has been done so far is the beginning of that
        // sequence: in particular an installed file is opened - and emptied - only once its pre-edit hooks have succeeded
        adds_a_beginning_of(old(w).fs.events, final(w).fs.events,
            write_trace(*fm, file_type, !old(w).fs.files.contains_key(file_path_spec(*fm, file_type)))), //@C03.installed_file_is_touched_only_after_its_pre_hooks,C10.file_hook_bracket
""", at=[("before_tail", None, 1, """
    proof {
        let p = file_path_spec(*fm, file_type);
        // (stated before the trace below: a failed proof step is assumed by the verifier, and must not hide this clause)
        assert(w.fs.files.contains_key(p) && w.fs.files[p] == data@); //@C02.exact_content,C07.success_is_reported_only_when_the_file_is_installed,C03.what_is_reported_written_is_written,C01.the_key_that_is_stored_is_the_key_of_the_csr,C11.what_is_reported_written_is_written
        assert(w.fs.events =~= old(w).fs.events + write_trace(*fm, file_type, !old(w).fs.files.contains_key(p))); //@C10.file_hook_bracket,C13.chown_after_write
    }""")])
    for name, ft in [("set_account_data", "Account"), ("write_certificate", "Certificate")]:
        c[name] = FnSpec(ret="r", ghost=True, sig=c["write_file"].sig.replace("file_type", f"FileType::{ft}"))
    c["set_keypair"] = FnSpec(ret="r", ghost=True, sig=c["write_file"].sig.replace("file_type", "FileType::PrivateKey")
                              .replace("== data@", "== crate::acme_common::crypto::key_pem(*key_pair)"))
    c["get_keypair"] = FnSpec(ret="r", ghost=True, sig="""
    ensures *final(w) == *old(w),
        r matches Ok(k) ==> old(w).fs.files.contains_key(file_path_spec(*fm, FileType::PrivateKey))
            && crate::acme_common::crypto::pem_key(old(w).fs.files[file_path_spec(*fm, FileType::PrivateKey)]) == Some(k), //@C01.key_read_from_key_file,C02.key_of_the_csr_is_read_from_the_key_file,C03.key_of_the_csr_is_read_from_the_key_file
        // a stored key that can be read and parsed IS handed back (nothing else makes the read fail)
        (r is Ok) == key_usable(old(w).fs, *fm), //@C03.a_usable_stored_key_is_read_back
""")
    c["get_certificate"] = FnSpec(ret="r", ghost=True, sig="""
    ensures *final(w) == *old(w),
        r matches Ok(k) ==> old(w).fs.files.contains_key(file_path_spec(*fm, FileType::Certificate))
            && crate::acme_common::crypto::pem_cert(old(w).fs.files[file_path_spec(*fm, FileType::Certificate)]) == Some(k),
""")
    c["get_keypair_path"] = FnSpec(ret="r", sig="    ensures r matches Ok(p) ==> p@ == file_path_spec(*fm, FileType::PrivateKey), (r is Ok) == path_ok(*fm, FileType::PrivateKey),\n")
    c["get_certificate_path"] = FnSpec(ret="r", sig="    ensures r matches Ok(p) ==> p@ == file_path_spec(*fm, FileType::Certificate),\n")
    c["get_account_data"] = FnSpec(ret="r", ghost=True, sig="""
    ensures *final(w) == *old(w),
        r matches Ok(v) ==> old(w).fs.files.contains_key(file_path_spec(*fm, FileType::Account))
            && v@ == old(w).fs.files[file_path_spec(*fm, FileType::Account)],
""")
    c["check_files"] = FnSpec(ret="r", ghost=True, sig="""
    ensures *final(w) == *old(w),
        // exactly: every listed file has a path and is there (a missing one means "request now", all present means "look at the certificate")
        r == (forall|i: int| 0 <= i < file_types@.len() ==> path_ok(*fm, #[trigger] file_types@[i])
                && old(w).fs.files.contains_key(file_path_spec(*fm, file_types@[i]))), //@C06.files_exist_exactly,C07.files_exist_exactly,C11.files_exist_exactly
""", loops={1: """
    invariant *w == *old(w),
        forall|i: int| 0 <= i < it.index@ ==> path_ok(*fm, #[trigger] file_types@[i]) && old(w).fs.files.contains_key(file_path_spec(*fm, file_types@[i])),
"""}, rewrites=[("T-ITER", r"for (?P<x>\w+) in (?P<v>[\w\.]+)\.iter\(\)\.cloned\(\)", r"for \g<x>__ in it: \g<v>.iter()")],
        at=[("loop_start", None, 1, "let t = t__.clone();", "T-ITER")])
    c["certificate_files_exists"] = FnSpec(ret="r", ghost=True, sig="""
    ensures *final(w) == *old(w),
        r == (path_ok(*fm, FileType::PrivateKey) && old(w).fs.files.contains_key(file_path_spec(*fm, FileType::PrivateKey))
            && path_ok(*fm, FileType::Certificate) && old(w).fs.files.contains_key(file_path_spec(*fm, FileType::Certificate))), //@C06.files_exist_exactly,C07.files_exist_exactly,C11.files_exist_exactly
""", at=[("before_stmt", "check_files(", 1, "proof { assert(file_types@[0] is PrivateKey && file_types@[1] is Certificate && file_types@.len() == 2); }")])
    c["account_files_exists"] = FnSpec(ret="r", ghost=True, sig="""
    ensures *final(w) == *old(w),
        r == old(w).fs.files.contains_key(file_path_spec(*fm, FileType::Account)), //@C11.account_file_presence_is_exact
""", at=[("before_stmt", "check_files(", 1, "proof { assert(file_types@[0] is Account && file_types@.len() == 1); }")])
    return c


def build():
    u = Unit("storage", "acmed")
    u.prelude("err", "log", "stdx", "time", "world", "fs")
    u.ghost_call("is_file", method=True)
    u.ghost_call("symlink_metadata", method=True)
    for f in ["metadata", "try_exists", "read", "write", "rename", "remove_file"]:
        u.ghost_call(f, quals=("fs",))
    u.ghost_call("flush", method=True)
    u.ghost_call("sync_all", method=True)
    u.ghost_call("open", method=True)
    u.ghost_call("open", quals=("File",))
    u.ghost_call("create", quals=("File",))
    u.ghost_call("write_all", method=True)
    u.ghost_call("write", method=True)
    u.ghost_call("read_to_end", method=True)
    u.ghost_call("chown", quals=("unistd",))
    u.ghost_call("fchownat", quals=("unistd",))
    u.ghost_call("set_permissions", method=True)
    u.ghost_call("call", quals=("hooks",))
    u.take("acmed/src/main.rs", "DEFAULT_ACCOUNT_FILE_MODE", "")
    u.drop_derives = {"Debug", "Eq", "Hash", "PartialEq", "Clone"}
    u.module("config", "")
    u.take("acmed/src/config.rs", "HookType", "config", keep_derives=())
    u.module("logs", "")
    u.take("acmed/src/logs.rs", "HasLogger", "logs")
    u.module("hooks", "use crate::*;\npub use crate::config::HookType;\nuse crate::logs::HasLogger;\nuse crate::acme_common::error::Error;\n"
             "use std::collections::HashMap;\nuse crate::vpath::PathBuf;")
    u.raw("hooks", HOOKS_STUB, trusted=True)
    u.take("acmed/src/hooks.rs", "FileStorageHookData", "hooks")
    u.module("storage", "use crate::*;\nuse crate::hooks::{self, FileStorageHookData, Hook, HookEnvData, HookType};\n"
             "use crate::logs::HasLogger;\nuse crate::acme_common::crypto::{KeyPair, X509Certificate};\n"
             "use crate::acme_common::error::Error;\nuse std::collections::HashMap;\nuse crate::vpath::{Path, PathBuf};\n"
             "use crate::vfs::{File, OpenOptions};\nuse crate::nix;")
    u.take(S, "FileManager", "storage")
    u.take(S, "FileType", "storage")
    u.take(S, "CertFileFormat", "storage")
    u.verify(S, "impl HasLogger for FileManager", "storage", props=["C10"])
    u.raw("storage", SPEC)
    c = contracts()
    u.verify(S, "get_file_full_path", "storage", props=["C02", "C03", "C13"], fns={"get_file_full_path": c["get_file_full_path"]})
    for name, props in [("get_file_path", ["C02"]), ("read_file", ["C02"]), ("set_owner", ["C13"]),
                        ("write_file", ["C02", "C13", "C10", "C03", "C07"]), ("get_account_data", ["C11"]),
                        ("set_account_data", ["C02", "C13", "C11"]), ("get_keypair_path", ["C02"]), ("get_keypair", ["C01", "C02", "C03"]),
                        ("set_keypair", ["C02", "C13", "C03", "C07"]), ("get_certificate_path", ["C02"]), ("get_certificate", ["C06"]),
                        ("write_certificate", ["C02", "C13", "C03", "C07"]), ("check_files", ["C06"]),
                        ("account_files_exists", ["C11"]), ("certificate_files_exists", ["C06"])]:
        u.verify(S, name, "storage", props=props, fns={name: c[name]} if name in c else {name: FnSpec(ret="r")})
    # --- acme_proto/certificate.rs: where the key pair of an issuance comes from
    u.module("certificate", "use crate::*;\nuse crate::storage::FileManager;\nuse crate::acme_common::crypto::KeyType;")
    u.raw("certificate", "pub struct Certificate { pub key_type: KeyType, pub kp_reuse: bool, pub file_manager: FileManager }\n"
          "// impl HasLogger for Certificate (certificate.rs): log lines, no other effect\n"
          "impl crate::logs::HasLogger for Certificate {\n"
          "    #[verifier::external_body] fn warn(&self, msg: &str) { unimplemented!() }\n    #[verifier::external_body] fn info(&self, msg: &str) { unimplemented!() }\n"
          "    #[verifier::external_body] fn debug(&self, msg: &str) { unimplemented!() }\n    #[verifier::external_body] fn trace(&self, msg: &str) { unimplemented!() }\n}\n", trusted=True)
    u.module("acme_proto", "")
    u.module("acme_proto::certificate", "use crate::*;\nuse crate::logs::HasLogger;\nuse crate::certificate::Certificate;\nuse crate::storage;\nuse crate::storage::{FileType, file_path_spec};\n"
             "use crate::acme_common::crypto::{gen_keypair, KeyPair, key_pem, pem_key};\nuse crate::acme_common::error::Error;")
    u.ghost_call("set_keypair", quals=("storage",))
    u.ghost_call("get_keypair", quals=("storage",))
    PCF = "acmed/src/acme_proto/certificate.rs"
    key_ok = """
    ensures """ + FS_FRAME + """
        // the key pair handed to the CSR is the key in the key file: read from it, or generated and written to it
        r matches Ok(k) ==> final(w).fs.files.contains_key(file_path_spec(cert.file_manager, FileType::PrivateKey))
            && (final(w).fs.files[file_path_spec(cert.file_manager, FileType::PrivateKey)] == key_pem(k)
                || pem_key(final(w).fs.files[file_path_spec(cert.file_manager, FileType::PrivateKey)]) == Some(k)), //@C01.key_pair_is_the_key_in_the_key_file,C03.key_of_the_coming_certificate_is_the_key_in_the_key_file,C02.key_of_the_csr_is_the_key_in_the_key_file
"""
    # C03: with kp_reuse the installed key is replaced only when it cannot be used (absent, unreadable, unparseable) - the issuance
    # (unit issue) relies on exactly this when it calls get_key_pair next to an installed pair
    kept = {"gen_key_pair": "",
            "read_key_pair": "        final(w).fs == old(w).fs, (r is Ok) == crate::storage::key_usable(old(w).fs, cert.file_manager), //@C03.a_usable_stored_key_is_kept_when_reuse_is_configured\n",
            "get_key_pair": "        cert.kp_reuse && crate::storage::key_usable(old(w).fs, cert.file_manager) ==> r is Ok && final(w).fs == old(w).fs, //@C03.a_usable_stored_key_is_kept_when_reuse_is_configured\n"}
    for name in ["gen_key_pair", "read_key_pair", "get_key_pair"]:
        u.verify(PCF, name, "acme_proto::certificate", props=["C01", "C03", "C02"], fns={name: FnSpec(ret="r", ghost=True, sig=key_ok + kept[name])})
    return u


HOOKS_STUB = """
// hooks.rs is verified in unit `hooks`; here only what storage.rs needs of it, as contracts.
pub struct Hook { pub opaque: u8 }
pub trait HookEnvData {
    fn set_env(&mut self, env: &HashMap<String, String>);
}
pub open spec fn hook_type_id(t: HookType) -> int {
    match t {
        HookType::FilePreCreate => 0, HookType::FilePostCreate => 1, HookType::FilePreEdit => 2, HookType::FilePostEdit => 3,
        HookType::ChallengeHttp01 => 4, HookType::ChallengeHttp01Clean => 5, HookType::ChallengeDns01 => 6,
        HookType::ChallengeDns01Clean => 7, HookType::ChallengeTlsAlpn01 => 8, HookType::ChallengeTlsAlpn01Clean => 9,
        HookType::PostOperation => 10,
    }
}
// identity of a hook-data value as the hooks see it (template variables); environment handled in unit `hooks`
pub uninterp spec fn file_hook_data_id(file_name: Seq<char>, file_directory: Seq<char>, file_path: Seq<char>) -> int;
pub uninterp spec fn hook_data_id<T>(d: T) -> int;
#[verifier::external_body]
pub broadcast proof fn axiom_file_hook_data_id(d: FileStorageHookData)
    ensures #[trigger] hook_data_id(d) == file_hook_data_id(d.file_name@, d.file_directory@, d.file_path@) {}
impl HookEnvData for FileStorageHookData {
    #[verifier::external_body]
    fn set_env(&mut self, env: &HashMap<String, String>)
        ensures final(self).file_name == old(self).file_name, final(self).file_directory == old(self).file_directory,
                final(self).file_path == old(self).file_path
    { unimplemented!() }
}
#[verifier::external_body]
pub fn call<L: HasLogger, T: HookEnvData>(logger: &L, hooks: &[Hook], data: &T, hook_type: HookType, Tracked(w): Tracked<&mut World>) -> (r: Result<(), Error>)
    ensures final(w).clock == old(w).clock, final(w).admissions == old(w).admissions, final(w).net == old(w).net,
        final(w).fs.files == old(w).fs.files, final(w).fs.modes == old(w).fs.modes,
        final(w).fs.events == old(w).fs.events.push(FsEvent::Hook { ty: hook_type_id(hook_type), data: hook_data_id(*data), ok: r is Ok }),
{ unimplemented!() }
"""

SPEC = """
pub open spec fn others_untouched(a: Fs, b: Fs, p: Seq<char>) -> bool {
    forall|q: Seq<char>| q != p ==> #[trigger] b.files.contains_key(q) == a.files.contains_key(q) && b.files[q] == a.files[q]
}
// #[derive(Clone)] on FileType (dropped by T-ATTR) re-stated as an explicit, verified impl so that its meaning is known
impl Clone for FileType {
    fn clone(&self) -> (r: Self) ensures r == *self {
        match self { FileType::Account => FileType::Account, FileType::PrivateKey => FileType::PrivateKey, FileType::Certificate => FileType::Certificate }
    }
}
broadcast use {crate::hooks::axiom_file_hook_data_id, crate::stdax2::axiom_to_string_string, vstd::string::to_string_from_display_ensures_for_str};
// where a file of a given type lives (get_file_full_path): account files in the account directory under
// "<b64(account name)>.account.bin"; key and certificate files in the certificate directory under the rendered name format, each
// with the extension configured for ITS OWN type ("pem" when none is) and its own type text ("pk" / "crt")
pub open spec fn opt_text(o: Option<String>, d: Seq<char>) -> Seq<char> { match o { Some(s) => s@, None => d } }
pub open spec fn ext_spec(fm: FileManager, t: FileType) -> Seq<char> {
    match t { FileType::Account => "bin"@, FileType::PrivateKey => opt_text(fm.pk_file_ext, "pem"@), FileType::Certificate => opt_text(fm.cert_file_ext, "pem"@) }
}
pub open spec fn type_text(t: FileType) -> Seq<char> { match t { FileType::Account => "account"@, FileType::PrivateKey => "pk"@, FileType::Certificate => "crt"@ } }
pub uninterp spec fn b64_text(s: Seq<char>) -> Seq<char>;
// whether the file-name template renders for these values (minijinja: a function of template and data)
pub uninterp spec fn name_renders(fmt: Seq<char>, key_type: Seq<char>, ext: Seq<char>, file_type: Seq<char>, name: Seq<char>) -> bool;
pub open spec fn path_ok(fm: FileManager, t: FileType) -> bool {
    t is Account || name_renders(fm.crt_name_format@, fm.crt_key_type@, ext_spec(fm, t), type_text(t), fm.crt_name@)
}
pub uninterp spec fn render_name(fmt: Seq<char>, key_type: Seq<char>, ext: Seq<char>, file_type: Seq<char>, name: Seq<char>) -> Seq<char>;
pub open spec fn file_dir_spec(fm: FileManager, t: FileType) -> Seq<char> { match t { FileType::Account => fm.account_directory@, _ => fm.crt_directory@ } }
pub open spec fn file_name_spec(fm: FileManager, t: FileType) -> Seq<char> {
    match t {
        FileType::Account => b64_text(fm.account_name@) + "."@ + type_text(t) + "."@ + ext_spec(fm, t),
        _ => render_name(fm.crt_name_format@, fm.crt_key_type@, ext_spec(fm, t), type_text(t), fm.crt_name@),
    }
}
pub open spec fn file_path_spec(fm: FileManager, t: FileType) -> Seq<char> { crate::vpath::path_join(file_dir_spec(fm, t), file_name_spec(fm, t)) }
// the stored private key can be used again: its path renders, the file exists, reads without fault and parses
pub open spec fn key_usable(fs: Fs, fm: FileManager) -> bool {
    let p = file_path_spec(fm, FileType::PrivateKey);
    path_ok(fm, FileType::PrivateKey) && fs.files.contains_key(p) && !crate::vfs::read_faults(fs, p)
        && crate::acme_common::crypto::pem_key(fs.files[p]) is Some
}
// storage.rs helpers of get_file_full_path (trusted): base64url of the account name, the Display of FileType, minijinja rendering
#[verifier::external_body]
pub fn b64_encode(s: &String) -> (r: String) ensures r@ == b64_text(s@) { unimplemented!() }
impl FileType {
    #[verifier::external_body]
    pub fn to_string(&self) -> (r: String) ensures r@ == type_text(*self) { unimplemented!() }
}
#[verifier::external_body]
pub fn render_template(t: &String, d: &CertFileFormat) -> (r: Result<String, Error>)
    ensures r matches Ok(s) ==> s@ == render_name(t@, d.key_type@, d.ext@, d.file_type@, d.name@),
        (r is Ok) == name_renders(t@, d.key_type@, d.ext@, d.file_type@, d.name@) { unimplemented!() }
// format!("{account}.{file_type}.{ext}", ..)  (rule T-FMT)
#[verifier::external_body]
pub fn dot3(a: &String, b: &FileType, c: &String) -> (r: String) ensures r@ == a@ + "."@ + type_text(*b) + "."@ + c@ { unimplemented!() }
// C13: the mode each file type is created with; 0o600 for account files is pinned here, not read from the code
pub open spec fn mode_cfg(fm: FileManager, t: FileType) -> u32 {
    match t { FileType::Certificate => fm.cert_file_mode, FileType::PrivateKey => fm.pk_file_mode, FileType::Account => 0o600u32 }
}
pub open spec fn owner_cfg(fm: FileManager, t: FileType) -> Option<String> {
    match t { FileType::Certificate => fm.cert_file_owner, FileType::PrivateKey => fm.pk_file_owner, FileType::Account => None }
}
pub open spec fn group_cfg(fm: FileManager, t: FileType) -> Option<String> {
    match t { FileType::Certificate => fm.cert_file_group, FileType::PrivateKey => fm.pk_file_group, FileType::Account => None }
}
// numeric names are taken literally, other names are looked up; nothing configured -> id left unchanged
pub open spec fn uid_spec(o: Option<String>) -> Option<u32> {
    match o { Some(u) => if crate::vparse::all_digits(u@) { crate::vparse::parse_u32_spec(u@) } else { crate::nix::unistd::user_db(u@) }, None => None }
}
pub open spec fn gid_spec(o: Option<String>) -> Option<u32> {
    match o { Some(g) => if crate::vparse::all_digits(g@) { crate::vparse::parse_u32_spec(g@) } else { crate::nix::unistd::group_db(g@) }, None => None }
}
pub open spec fn hook_ev(fm: FileManager, t: FileType, ty: HookType) -> FsEvent {
    FsEvent::Hook { ty: crate::hooks::hook_type_id(ty),
        data: crate::hooks::file_hook_data_id(file_name_spec(fm, t), file_dir_spec(fm, t), file_path_spec(fm, t)), ok: true }
}
// the kind of an effect (which hook type / open / write / chown), without its details
pub open spec fn ev_kind(e: FsEvent) -> int {
    match e { FsEvent::Hook { ty, .. } => ty, FsEvent::Open { .. } => 100, FsEvent::Write { .. } => 101, FsEvent::Chown { .. } => 102, FsEvent::Rename { .. } => 103, FsEvent::Remove { .. } => 104, FsEvent::Lchown { .. } => 105, FsEvent::Chmod { .. } => 106 }
}
// b continues a, and what it adds is, kind by kind, a beginning of t
pub open spec fn adds_a_beginning_of(a: Seq<FsEvent>, b: Seq<FsEvent>, t: Seq<FsEvent>) -> bool {
    a.len() <= b.len() && b.len() - a.len() <= t.len()
    && (forall|i: int| 0 <= i < a.len() ==> a[i] == b[i])
    && (forall|i: int| a.len() <= i < b.len() ==> ev_kind(b[i]) == ev_kind(t[i - a.len()]))
}
// the observable trace of one successful write_file
pub open spec fn write_trace(fm: FileManager, t: FileType, is_new: bool) -> Seq<FsEvent> {
    let p = file_path_spec(fm, t);
    let pre = hook_ev(fm, t, if is_new { HookType::FilePreCreate } else { HookType::FilePreEdit });
    let post = hook_ev(fm, t, if is_new { HookType::FilePostCreate } else { HookType::FilePostEdit });
    let open = FsEvent::Open { path: p, mode: mode_cfg(fm, t), created: is_new, truncated: true };
    let write = FsEvent::Write { path: p };
    if t is Account {
        seq![pre, open, write, post]
    } else {
        seq![pre, open, write, FsEvent::Chown { path: p, uid: uid_spec(owner_cfg(fm, t)), gid: gid_spec(group_cfg(fm, t)) }, post]
    }
}
"""
