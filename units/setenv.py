"""hooks.rs: the three `imple_hook_data_env!` expansions (set_env): the precedence clause of C10
(what is given over what is already set over the daemon's own environment)."""
from unit import Unit, FnSpec

H = "acmed/src/hooks.rs"

FRAME = {
    "ChallengeHookData": "final(self).identifier == old(self).identifier, final(self).identifier_tls_alpn == old(self).identifier_tls_alpn, "
                         "final(self).challenge == old(self).challenge, final(self).file_name == old(self).file_name, final(self).proof == old(self).proof, "
                         "final(self).raw_proof == old(self).raw_proof, final(self).is_clean_hook == old(self).is_clean_hook,",
    "PostOperationHookData": "final(self).identifiers == old(self).identifiers, final(self).key_type == old(self).key_type, final(self).status == old(self).status, "
                             "final(self).is_success == old(self).is_success, final(self).certificate_path == old(self).certificate_path, "
                             "final(self).private_key_path == old(self).private_key_path,",
    "FileStorageHookData": "final(self).file_name == old(self).file_name, final(self).file_directory == old(self).file_directory, final(self).file_path == old(self).file_path,",
}


def spec(t):
    return FnSpec(sig=f"""
    ensures
        // the given variables over what a previous, more specific call has set over the daemon's own environment
        envmap(final(self).env) == set_env_spec(envmap(old(self).env), envmap(*env)), //@C10.environment_precedence
        {FRAME[t]} //@C10.set_env_changes_only_the_environment
""", attrs="#[verifier::loop_isolation(false)]", loops={1: """
    invariant envmap(self.env) == map_first(pv__@.take(it1.index@ as int)).union_prefer_right(envmap(old(self).env)),
        """ + FRAME[t].replace("final(self)", "self"), 2: """
    invariant envmap(self.env) == proc_env().union_prefer_right(envmap(old(self).env)).union_prefer_right(map_last(gv__@.take(it2.index@ as int))),
        map_last(gv__@) == envmap(*env),
        """ + FRAME[t].replace("final(self)", "self")},
        rewrites=[("T-ENV", r"for \(key, value\) in env::vars\(\)", "let pv__ = crate::venv2::proc_vars();\nfor (key, value) in it1: pv__"),
                  ("T-ITER", r"for \(key, value\) in env\.iter\(\)\.map\(deref\)", "let gv__ = crate::venv2::owned_pairs(env);\nproof { assert(pv__@.take(pv__@.len() as int) =~= pv__@); assert(gv__@.take(0) =~= Seq::empty());"
                   " assert(envmap(self.env) =~= proc_env().union_prefer_right(envmap(old(self).env)).union_prefer_right(map_last(gv__@.take(0)))); }\nfor (key, value) in it2: gv__"),
                  ("T-MAP", r"self\.env\.entry\(key\)\.or_insert\(value\);", "crate::venv2::insert_if_absent(&mut self.env, key, value);", None),
                  ("T-MAP", r"self\.env\.insert\(key, value\);", "crate::venv2::insert(&mut self.env, key, value);", None)],
        at=[("exits", None, 1, "proof { assert(gv__@.take(gv__@.len() as int) =~= gv__@); }"),
            ("loop_start", None, 1, "proof { let i__ = it1.index@ as int; assert(pv__@.take(i__ + 1).drop_last() =~= pv__@.take(i__)); assert(pv__@.take(i__ + 1).last() == pv__@[i__]); }"),
            ("loop_start", None, 2, "proof { let i__ = it2.index@ as int; assert(gv__@.take(i__ + 1).drop_last() =~= gv__@.take(i__)); assert(gv__@.take(i__ + 1).last() == gv__@[i__]); }"),
            ("loop_end", None, 1, "proof { assert(envmap(self.env) =~= map_first(pv__@.take(it1.index@ as int + 1)).union_prefer_right(envmap(old(self).env))); //@C10.environment_precedence\n }"),
            ("loop_end", None, 2, "proof { assert(envmap(self.env) =~= proc_env().union_prefer_right(envmap(old(self).env)).union_prefer_right(map_last(gv__@.take(it2.index@ as int + 1)))); //@C10.environment_precedence\n }"),
            ])


def build():
    u = Unit("setenv", "acmed")
    u.prelude("err", "log", "stdx", "time", "world", "fs", "env_shims", "setenv_shims")
    u.module("hooks", "use crate::*;\nuse crate::venv::*;\nuse crate::venv2::*;\nuse std::collections::HashMap;\nuse crate::vpath::PathBuf;\nuse std::collections::hash_map::Iter;")
    u.raw("hooks", "pub trait HookEnvData { fn set_env(&mut self, env: &HashMap<String, String>); fn get_env(&self) -> Iter<String, String>; }", trusted=False)
    for t in ("PostOperationHookData", "ChallengeHookData", "FileStorageHookData"):
        u.take(H, t, "hooks")
        pseudo = u.macro_items(H, "imple_hook_data_env", [t])
        u.verify(pseudo, f"impl HookEnvData for {t}", "hooks", props=["C10"], fns={"set_env": spec(t), "get_env": FnSpec(attrs="#[verifier::external_body]")})
    return u
