"""U15 - one issuance (acmed/src/acme_proto.rs::request_certificate, acme_proto/certificate.rs).
Serves C03 (what is written when), C05 (order of hooks / challenge POST / clean hooks), C07 (success only after the
certificate is installed), C01 (which identifiers and key reach the order and the CSR), C02 (what is stored)."""
import re
from unit import Unit, FnSpec

AP = "acmed/src/acme_proto.rs"
PC = "acmed/src/acme_proto/certificate.rs"


def builder_rw(m):
    """T-CLOSURE: the data-builder closure (a single call of encode_kid) gets `ensures result == what that call yields`:
    the request is signed by the account's current key, carries the account URL of this endpoint as kid, and DATA as payload"""
    data = m.group("data").strip()
    return ("move |n: &str, url: &str| -> (jws__: Result<String, Error>)\n"
            "    ensures jws__ matches Ok(s__) ==> crate::jws::kid_request(s__@, (*account.r).current_key, crate::account::acct_url(*account.r, endpoint_name@), "
            + spec_bytes(data) + ", url@, n@)\n{ " + re.sub(r'b("[^"]*")', r'crate::jws::bytes_lit(\1)', m.group(0)[m.group(0).index("encode_kid"):]))


def spec_bytes(data):
    d = data.strip()
    if d.startswith('b"'):
        return "crate::jws::lit_bytes(" + d[1:] + "@)"
    if d.endswith(".as_bytes()"):
        return "crate::utf8_bytes(" + d[:-len(".as_bytes()")] + "@)"
    raise Exception("data builder payload outside the supported shapes")


def build():
    u = Unit("issue", "acmed")
    u.prelude("err", "log", "stdx", "time", "issue_shims")
    u.raw("", WORLD, trusted=True)
    for f in ["refresh_directory", "new_order", "get_authorization", "post_jose_no_response", "pool_authorization", "pool_order",
              "finalize_order", "get_certificate"]:
        u.ghost_call(f, quals=("http",))
    u.ghost_call("synchronize", method=True)
    u.ghost_call("register", method=True)
    u.ghost_call("call_challenge_hooks", method=True)
    u.ghost_call("call_challenge_hooks_clean", method=True)
    u.ghost_call("get_key_pair", quals=("certificate",))
    u.ghost_call("write_certificate", quals=("storage",))
    u.macro(AP, "set_data_builder_sync")
    u.macro(AP, "set_data_builder")
    u.module("acme_proto", "use crate::*;\nuse crate::shims::*;\nuse crate::shims::structs::*;\nuse crate::shims::{http, storage, certificate, serde_json};\n"
             "use crate::jws::encode_kid;\nuse crate::acme_common::error::Error;")
    u.verify(AP, "request_certificate", "acme_proto", props=["C03", "C05", "C07", "C01", "C02", "C10", "C11"], fns={"request_certificate": FnSpec(
        ret="r", ghost=True, locks=True, attrs="#[verifier::exec_allows_no_decreases_clause]",
        # the contract speaks of the order that is finalized / whose certificate is downloaded: the variables the code itself uses there
        names={"oauth": r"for \w+ in (\w+)\.authorizations\.iter\(\)", "ofin": r"&(\w+)\.finalize\b", "ocert": r"(?<![\w.])(\w+)\s*\.certificate\b(?!\s*[(:])"}, sig="""
    requires old(w).pending_clean.len() == 0, !old(w).hooks_ok, !old(w).cert_written, old(w).cur_auth is None, old(w).downloaded is None, old(w).settled == 0,
    ensures
        // success is reported only after the downloaded certificate has been written next to the key
        r is Ok ==> final(w).cert_written, //@C07.success_only_after_the_certificate_is_installed,C02.success_only_after_the_certificate_is_installed
        // every validated challenge has been followed by its clean hooks
        r is Ok ==> final(w).pending_clean.len() == 0, //@C10.every_validated_challenge_is_cleaned
        // an attempt that fails has not touched the certificate file
        r is Err ==> !final(w).cert_written, //@C03.failed_attempt_leaves_the_certificate_file_alone
""", loops={1: """
    invariant brk__ is None ==> true, w.pending_clean.len() == 0, !w.hooks_ok, !w.cert_written, w.cur_auth is None, w.downloaded is None, w.settled == 0,
    ensures brk__ is Some, w.pending_clean.len() == 0, !w.hooks_ok, !w.cert_written, w.cur_auth is None, w.downloaded is None, w.settled == 0,
    // the newOrder step is tried at most twice: once more after one re-registration, never again
    decreases (if new_reg { 0int } else { 1int }), //@C07.the_new_order_step_is_tried_at_most_twice,C08.the_new_order_step_is_tried_at_most_twice
""", 2: """
    invariant w.pending_clean == clean_views(hook_datas@), hook_datas@.len() == 0, !w.hooks_ok, !w.cert_written, w.downloaded is None,
        // every authorization of the order gone through so far has been seen valid: none is passed over
        w.settled == it2.index@, //@C05.no_authorization_of_the_order_is_passed_over,C01.no_authorization_of_the_order_is_passed_over
""", 3: """
    invariant w.pending_clean == clean_views(hook_datas@), !w.hooks_ok, !w.cert_written, w.downloaded is None,
        w.cur_auth == Some(auth_view(auth)), auth.status is Pending, w.settled == it2.index@,
        chosen_for(*cert, auth.identifier.value@, is_wildcard) == Some(current_identifier), current_challenge == current_identifier.challenge,
        is_wildcard == wildcard_of(auth),
""", 4: """
    invariant w.pending_clean == clean_views(hook_datas@.skip(it4.index@)), !w.hooks_ok, !w.cert_written, w.downloaded is None, w.settled == it2.index@ + 1,
"""},
        rewrites=[("T-CLOSURE", r"move \|n: &str, url: &str\| \{\s*encode_kid\(\s*&account\.current_key\.key,\s*&account\.current_key\.signature_algorithm,\s*"
                                r"&\(account\.get_endpoint\(endpoint_name\)\?\.account_url\),\s*(?P<data>[^,]+),\s*url,\s*n,?\s*\)", builder_rw, None),
                  ("T-FMT", r"format!\(\s*\"\{\}: authorization status is \{\}\",\s*auth\.identifier, auth\.status\s*\)", "crate::opaque_string()"),
                  ("T-JSON", r"json!\(\{\s*\"csr\": csr\.to_der_base64\(\)\?,\s*\}\)", 'crate::shims::json_csr(csr.to_der_base64()?)'),
                  ("T-ITER", r"(?P<src>cert|order)\s*\.identifiers\s*\.iter\(\)\s*\.filter\(\|(?P<e>\w+)\| (?P=e)\.id_type == IdentifierType::(?P<t>Dns|Ip)\)\s*\.map\(\|(?P<f>\w+)\| (?P=f)\.value\.(?:to_owned|clone|to_string)\(\)\)\s*\.collect(?:::<Vec<String>>)?\(\)",
                   lambda m: ("crate::shims::values_of_type(&cert.identifiers, IdentifierType::" if m.group("src") == "cert" else "crate::shims::order_values_of_type(&order.identifiers, IdentifierType::") + m.group("t") + ")", 2),
                  ("T-ITER", r"for \(data, hook_type\) in hook_datas\.iter\(\)", "for (data, hook_type) in it4: hook_datas.iter()"),
                  ("T-ITER", r"for (?P<v>\w+) in (?P<o>\w+)\.authorizations\.iter\(\)", r"for \g<v> in it2: \g<o>.authorizations.iter()"),
                  # T-CLOSURE: a pure predicate closure gets `ensures result == its own body`
                  ("T-CLOSURE", r"let break_fn = \|(?P<p>\w+): &(?P<t>\w+)\| (?P<body>[^;{}]+);",
                   lambda m: f"let break_fn = |{m.group('p')}: &{m.group('t')}| -> (b__: bool) ensures b__ == ({m.group('body')}) {{ {m.group('body')} }};", None),
                  ],
        at=[("after_stmt_re", r"let (\w+) = NewOrder::new\(", 1, "let ghost order_struct__ = $1;"),
            ("loop_after", None, 2, """
    proof {
        // the loop has gone through every authorization of the order (it is not left early): all of them have been seen valid
        assert(w.settled == $oauth.authorizations@.len()); //@C05.no_authorization_of_the_order_is_passed_over,C01.no_authorization_of_the_order_is_passed_over
    }"""),
            ("after_stmt_re", r"let (\w+) = serde_json::to_string\(&\w+\)\?;", 1, """
        proof {
            // the newOrder payload is the serialisation of exactly the configured identifiers
            assert($1@ == crate::shims::serde_json::ser_spec(order_struct__) && order_struct__.ids@ == cert.identifiers@); //@C01.order_payload_lists_the_configured_identifiers
        }"""),
            ("after_stmt_re", r"let ips\b", 1, """
    proof {
        // the CSR names are the configured identifiers, split by type, in order
        assert(domains@.map_values(|s: String| s@) == values_spec(cert.identifiers@, IdentifierType::Dns)
            && ips@.map_values(|s: String| s@) == values_spec(cert.identifiers@, IdentifierType::Ip)); //@C01.csr_names_are_the_configured_identifiers_by_type
    }"""),
            ("after_stmt_re", r"let (\w+) = Csr::new\(", 1, """
    let ghost csr0 = $1;
    proof {
        // the CSR is for the key pair just obtained, which is the key in the key file
        assert(csr0.key@ == key_pair.id@ && w.disk_key == Some(key_pair.id@)); //@C01.csr_key_is_the_key_in_the_key_file,C02.key_file_holds_the_key_of_the_csr,C03.key_file_holds_the_key_of_the_csr
        assert(csr0.dns@ == values_spec(cert.identifiers@, IdentifierType::Dns) && csr0.ip@ == values_spec(cert.identifiers@, IdentifierType::Ip)); //@C01.csr_san_is_the_configured_identifiers
    }"""),
            ("after_stmt_re", r"let (\w+) = \w+\.to_string\(\);", 1, """
    proof { assert($1@ == crate::shims::csr_json(crate::shims::csr_b64(csr0))); } //@C01.finalize_payload_is_the_csr"""),
            ("before_stmt_re", r"let (?:mut )?\w+ = cert\s*\.call_challenge_hooks\(", 1, """
                proof {
                    // only a challenge of the type configured for this identifier is acted on
                    assert(same_type(current_identifier.challenge, *challenge)); //@C05.only_challenges_of_the_configured_type_are_acted_on
                }"""),
            ("before_stmt_re", r"let \w+ = http::finalize_order\(", 1, """
    proof {
        // the CSR goes to an order the CA reports ready (RFC 8555 section 7.4): an order that is already valid has been finalized with
        // another CSR, and its certificate is for that other key
        assert($ofin.status is Ready); //@C03.only_an_order_that_is_ready_is_finalized,C01.only_an_order_that_is_ready_is_finalized
    }"""),
            ("before_stmt_re", r"(?<![\w.])\w+\s*\.certificate\b(?!\s*[(:])", 1, "let ghost order_cert__ = $ocert.certificate; let ghost order_valid__ = $ocert.status is Valid;"),
            ("before_stmt", "http::get_certificate(", 1, """
    proof {
        // what is downloaded is what the order names as its certificate
        w.cert_url = match order_cert__ { Some(u) => Some(u@), None => None };
        // the certificate is fetched only from an order the CA reports valid (an announced URL alone is not an issued certificate)
        assert(order_valid__); //@C03.certificate_is_downloaded_only_from_a_valid_order,C07.certificate_is_downloaded_only_from_a_valid_order
    }"""),
            ("before_stmt_re", r"\.register\(", 1, """
                    proof {
                        // the account is registered again from here only because the CA has just answered that it does not know it
                        assert(crate::shims::err_is(e, AcmeError::AccountDoesNotExist)); //@C11.account_is_registered_again_only_when_the_ca_reports_it_unknown,C08.a_refused_request_is_sent_again_only_after_account_does_not_exist
                    }"""),
            ("before_stmt", "hook_datas.clear()", 1, "proof { assert(hook_datas@.skip(hook_datas@.len() as int) =~= Seq::empty()); }"),
            ("after_stmt", "hook_datas.clear()", 1, "proof { assert(clean_views(hook_datas@) =~= Seq::empty()); }"),
            ])})
    return u


WORLD = r"""
// Ghost world of one issuance: the authorization being worked on, whether its challenge hooks have succeeded, the clean
// hooks still owed, what was downloaded and what has been written.
pub ghost struct AuthView { pub identifier: Seq<char>, pub wildcard: bool, pub pending: bool }
pub ghost struct CleanView { pub data: int, pub ty: int }
pub tracked struct World {
    pub ghost cur_auth: Option<AuthView>,
    pub ghost hooks_ok: bool,
    pub ghost pending_clean: Seq<CleanView>,
    pub ghost downloaded: Option<Seq<char>>,
    pub ghost key_written: bool,
    pub ghost cert_written: bool,
    pub ghost pair_installed: bool,     // a certificate and its matching key were on disk when the attempt started
    pub ghost disk_key: Option<int>,    // identity of the key in the key file, when known
    pub ghost cert_url: Option<Seq<char>>, // the certificate URL the (valid) order gives, once it has been read from it
    pub ghost settled: int,             // authorizations of the order seen valid so far (already valid when fetched, or polled until valid)
}
"""
