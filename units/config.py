"""U8 - configuration resolution (acmed/src/config.rs).
Serves C14 (most specific setting wins, include merge), C19 (hook-group expansion terminates),
C18 (root certificate list), C10 (hook/group resolution in declaration order), C13 (mode getters)."""
import re
from unit import Unit, FnSpec

C = "acmed/src/config.rs"
MAIN = "acmed/src/main.rs"

THIRTY_DAYS_NS = "30 * 24 * 60 * 60 * 1_000_000_000nat"


GLOBAL_OPT_FIELDS = ["accounts_directory", "cert_file_group", "cert_file_mode", "cert_file_user", "cert_file_ext",
                     "certificates_directory", "file_name_format", "pk_file_group", "pk_file_mode", "pk_file_user",
                     "pk_file_ext", "random_early_renew", "renew_delay", "root_certificates"]


def merge_hints():
    """proof hints (independent of statement order): each merge statement changes exactly its own field of tmp_glob.
    Field-wise equations keep every step one if-then-else deep for the solver."""
    out = []
    allf = GLOBAL_OPT_FIELDS + ["env"]
    for f in allf:
        needle = f"new_glob.{f}" if f != "env" else "new_glob.env.is_empty"
        out.append(("before_stmt", needle, 1, f"let ghost g_{f} = tmp_glob; let ghost n_{f} = new_glob.{f};"))
        lines = []
        for h in allf:
            if h == f:
                if f == "env":
                    lines.append(f"assert(tmp_glob.env == (if n_env@.len() > 0 {{ n_env }} else {{ g_env.env }})); //@HINT")
                else:
                    lines.append(f"assert(tmp_glob.{f} == later(g_{f}.{f}, n_{f})); //@HINT")
            else:
                lines.append(f"assert(tmp_glob.{h} == g_{f}.{h}); //@HINT")
        out.append(("after_stmt", needle, 1, "proof {\n" + "\n".join(lines) + "\n}"))
    return out


def dur_res(src, default_ns, label):
    """contract clause: result r follows the three-level source `src` (an Option<Option<Seq<char>>> spec expression)"""
    return f"""
        match {src} {{
            None => r is Err,
            Some(None) => r matches Ok(d) && dur(d) == {default_ns},
            Some(Some(s)) => (match r {{ Ok(d) => pd_spec(s) == Some(d), Err(_) => pd_spec(s) is None }}),
        }}, //@{label}
"""


def contracts():
    c = {}
    # ---- three levels: global
    c["GlobalOptions::get_renew_delay"] = FnSpec(ret="r", sig="    ensures" + dur_res("Some(self.renew_delay_src())", THIRTY_DAYS_NS, "C14.global_renew_delay_default_30d,C06.renewal_settings_are_the_most_specific_configured"))
    c["GlobalOptions::get_random_early_renew"] = FnSpec(ret="r", sig="    ensures" + dur_res("Some(self.early_src())", "0nat", "C14.global_early_renew_default_0,C06.renewal_settings_are_the_most_specific_configured"))
    c["GlobalOptions::get_crt_name_format"] = FnSpec(ret="r", sig="    ensures r@ == self.fmt_src(), //@C14.global_format\n")
    # ---- endpoint over global
    c["Endpoint::get_renew_delay"] = FnSpec(ret="r", sig="    ensures" + dur_res("Some(self.renew_delay_src(*cnf))", THIRTY_DAYS_NS, "C14.endpoint_over_global_renew_delay,C06.renewal_settings_are_the_most_specific_configured"))
    c["Endpoint::get_random_early_renew"] = FnSpec(ret="r", sig="    ensures" + dur_res("Some(self.early_src(*cnf))", "0nat", "C14.endpoint_over_global_early_renew,C06.renewal_settings_are_the_most_specific_configured"))
    c["Endpoint::get_crt_name_format"] = FnSpec(ret="r", sig="    ensures r@ == self.fmt_src(*cnf), //@C14.endpoint_over_global_format\n")
    # ---- certificate over endpoint over global
    c["Certificate::do_get_endpoint"] = FnSpec(ret="r", sig="""
    ensures match r {
            Ok(ep) => exists|i: int| first_endpoint(*cnf, self.endpoint@, i) && ep == cnf.endpoint@[i],
            Err(_) => no_endpoint(*cnf, self.endpoint@),
        }, //@C14.endpoint_reference_resolves_or_error
""", loops={1: "    invariant forall|j: int| 0 <= j < it.index@ ==> cnf.endpoint@[j].name@ != self.endpoint@,"},
        at=[("loop_iter", None, 1, "it:"),
            ("before_stmt", "return Ok(endpoint.clone())", 1, "proof { assert(first_endpoint(*cnf, self.endpoint@, it.index@)); }")])
    cert_pre = ""
    c["Certificate::get_renew_delay"] = FnSpec(ret="r", sig="    ensures" + dur_res("self.renew_delay_src(*cnf)", THIRTY_DAYS_NS, "C14.certificate_over_endpoint_over_global_renew_delay,C06.renewal_settings_are_the_most_specific_configured"),
        at=[("after_stmt", "self.do_get_endpoint", 1, "proof { lemma_first_unique(*cnf, self.endpoint@); }")])
    c["Certificate::get_random_early_renew"] = FnSpec(ret="r", sig="    ensures" + dur_res("self.early_src(*cnf)", "0nat", "C14.certificate_over_endpoint_over_global_early_renew,C06.renewal_settings_are_the_most_specific_configured"),
        at=[("after_stmt", "self.do_get_endpoint", 1, "proof { lemma_first_unique(*cnf, self.endpoint@); }")])
    c["Certificate::get_crt_name_format"] = FnSpec(ret="r", sig="""
    ensures match self.fmt_src(*cnf) { None => r is Err, Some(s) => r matches Ok(v) && v@ == s }, //@C14.certificate_over_endpoint_over_global_format
""", at=[("after_stmt", "self.do_get_endpoint", 1, "proof { lemma_first_unique(*cnf, self.endpoint@); }")])
    c["Certificate::get_crt_dir"] = FnSpec(ret="r", sig="""
    ensures r@ == (match self.directory { Some(d) => d@, None => match cnf.global {
                Some(g) => (match g.certificates_directory { Some(d) => d@, None => crate::DEFAULT_CERT_DIR@ }),
                None => crate::DEFAULT_CERT_DIR@ } }), //@C14.certificate_over_global_directory,C02.certificate_over_global_directory,C03.certificate_over_global_directory
""")
    c["Config::get_account_dir"] = FnSpec(ret="r", sig="""
    ensures r@ == (match self.global { Some(g) => (match g.accounts_directory { Some(d) => d@, None => crate::DEFAULT_ACCOUNTS_DIR@ }),
                None => crate::DEFAULT_ACCOUNTS_DIR@ }), //@C14.accounts_directory
""")
    c["Config::get_rate_limit"] = FnSpec(ret="r", sig="""
    ensures match r {
            Ok(t) => exists|i: int| 0 <= i < self.rate_limit@.len() && self.rate_limit@[i].name@ == name@
                        && t.0 == self.rate_limit@[i].number && t.1@ == self.rate_limit@[i].period@
                        && forall|j: int| 0 <= j < i ==> self.rate_limit@[j].name@ != name@,
            Err(_) => forall|i: int| 0 <= i < self.rate_limit@.len() ==> self.rate_limit@[i].name@ != name@,
        }, //@C14.rate_limit_reference_resolves_or_error
""", loops={1: "    invariant forall|j: int| 0 <= j < it.index@ ==> self.rate_limit@[j].name@ != name@,"},
        at=[("loop_iter", None, 1, "it:")])
    # ---- C13: mode getters, defaults pinned
    c["Config::get_cert_file_mode"] = FnSpec(ret="r", sig="""
    ensures r == (match self.global { Some(g) => (match g.cert_file_mode { Some(m) => m, None => 0o644u32 }), None => 0o644u32 }), //@C13.cert_mode_default_0644
""")
    c["Config::get_pk_file_mode"] = FnSpec(ret="r", sig="""
    ensures r == (match self.global { Some(g) => (match g.pk_file_mode { Some(m) => m, None => 0o600u32 }), None => 0o600u32 }), //@C13.pk_mode_default_0600
""")
    for f in ["cert_file_user", "cert_file_group", "cert_file_ext", "pk_file_user", "pk_file_group", "pk_file_ext"]:
        c[f"Config::get_{f}"] = FnSpec(ret="r", sig=f"""
    ensures r == (match self.global {{ Some(g) => g.{f}, None => None }}), //@C13.{f}_from_global
""")
    # ---- hook / group resolution (C10 order, C14 unresolved reference, C19 termination)
    from schedule import ENV_IDIOMS
    c["dispatch_global_env_vars"] = FnSpec(sig="""
    ensures
        // the global environment reaches every certificate, and a certificate's own variables win over the global ones
        final(config).certificate@.len() == old(config).certificate@.len(),
        forall|i: int| 0 <= i < old(config).certificate@.len() ==> crate::venv::envmap((#[trigger] final(config).certificate@[i]).env)
            =~= global_env_of(*old(config)).union_prefer_right(crate::venv::envmap(old(config).certificate@[i].env)), //@C10.env_certificate_over_global
        final(config).global == old(config).global,
""", loops={r"\.certificate\.iter_mut\(\)": """
    invariant n__ == config.certificate@.len(), i__ <= n__, config.certificate@.len() == old(config).certificate@.len(),
        config.global == old(config).global, glob.env == old(config).global.unwrap().env, crate::venv::envmap(glob.env).len() > 0 || true,
        forall|j: int| 0 <= j < i__ ==> crate::venv::envmap((#[trigger] config.certificate@[j]).env)
            =~= crate::venv::envmap(glob.env).union_prefer_right(crate::venv::envmap(old(config).certificate@[j].env)), //@C10.env_certificate_over_global
        forall|j: int| i__ <= j < n__ ==> config.certificate@[j] == old(config).certificate@[j],
    decreases n__ - i__,
"""}, at=[("loop_start", None, r"\.certificate\.iter_mut\(\)", "let cert = &mut config.certificate[i__];", "T-ITER"),
          ("loop_end", None, r"\.certificate\.iter_mut\(\)", "i__ += 1;", "T-ITER")],
        rewrites=[("T-ITER", r"for (?P<c>\w+) in config\.certificate\.iter_mut\(\)", "let n__ = config.certificate.len(); let mut i__: usize = 0; while i__ < n__", 1),
                  # `for (k, v) in B.iter() { A.insert(k.to_string(), v.to_string()); }`: B's entries are put into A one by one (B's override A's)
                  ("T-MAP", r"for \((?P<k>\w+), (?P<v>\w+)\) in (?P<b>[\w.]+)\.iter\(\) \{\s*(?P<a>\w+)\.insert\((?P=k)\.(?:to_string|to_owned|clone)\(\), (?P=v)\.(?:to_string|to_owned|clone)\(\)\);\s*\}",
                   lambda m: f"crate::venv::extend_from(&mut {m.group('a')}, &{m.group('b')});", None),
                  ("T-MAP", r"(?P<b>glob\.env)\.clone\(\)", lambda m: f"crate::venv::clone_map(&{m.group('b')})", None),
                  ("T-MAP", r"(?P<b>glob\.env|cert\.env)\.is_empty\(\)", lambda m: f"crate::venv::map_is_empty(&{m.group('b')})", None)] + ENV_IDIOMS)
    c["get_stdin"] = FnSpec(ret="r", sig="""
    ensures
        // a hook's standard input is the configured file, or the configured text, or nothing; configuring both is an error
        match (hook.stdin, hook.stdin_str) {
            (Some(f), None) => r matches Ok(hooks::HookStdin::File(p)) && p@ == f@,
            (None, Some(t)) => r matches Ok(hooks::HookStdin::Str(x)) && x@ == t@,
            (None, None) => r matches Ok(hooks::HookStdin::None),
            (Some(_), Some(_)) => r is Err,
        }, //@C10.hook_stdin_is_the_configured_file_or_text
""")
    c["Config::get_hook_rec"] = FnSpec(ret="r", sig="""
    ensures
        // a hook name yields that hook; a group name yields its members' expansions in declaration order;
        // anything that does not resolve (or nests deeper than max_depth) is an error
        r matches Ok(v) ==> expand(*self, name@, max_depth as nat) == Some(hook_names(v@)), //@C10.groups_expanded_in_place_in_order,C14.hook_reference_resolves_or_error
    decreases max_depth, //@C19.group_expansion_terminates
""", loops={1: "    invariant forall|j: int| 0 <= j < it1.index@ ==> self.hook@[j].name@ != name@,",
            2: "    invariant forall|j: int| 0 <= j < it2.index@ ==> self.group@[j].name@ != name@, no_hook(*self, name@),",
            3: """
    invariant no_hook(*self, name@), first_group(*self, name@, it2.index@), max_depth > 0, *$grp == self.group@[it2.index@ as int],
        expand_list(*self, $grp.hooks@.take(it3.index@), (max_depth - 1) as nat) == Some(hook_names($ret@)),
"""},
        at=[("loop_iter", None, 1, "it1:"), ("loop_iter", None, 2, "it2:"), ("loop_iter", None, 3, "it3:"),
            ("before_stmt", "return Ok(vec![$h1])", 1, """
                proof {
                    assert(first_hook(*self, name@, it1.index@));
                    lemma_hook_unique(*self, name@);
                    assert(hook_names(seq![$h1]) =~= seq![name@]);
                }"""),
            ("before_stmt", "let mut $ret = vec![]", 1, """
                proof {
                    assert(first_group(*self, name@, it2.index@));
                    assert($grp.hooks@.take(0) =~= Seq::<String>::empty());
                    assert(hook_names(Seq::<hooks::Hook>::empty()) =~= Seq::<Seq<char>>::empty());
                }"""),
            ("after_stmt", "$ret.append(&mut $h2)", 1, """
                    proof {
                        let k = it3.index@;
                        let d = (max_depth - 1) as nat;
                        assert($grp.hooks@.take(k + 1).drop_last() =~= $grp.hooks@.take(k));
                        assert($grp.hooks@.take(k + 1).last() == $grp.hooks@[k]);
                        assert(hook_names($ret@) =~= hook_names(ret_before@) + hook_names(h_before@));
                    }"""),
            ("before_stmt", "$ret.append(&mut $h2)", 1, "let ghost ret_before = $ret; let ghost h_before = $h2;"),
            ("before_stmt", "return Ok($ret)", 1, """
                proof {
                    assert($grp.hooks@.take($grp.hooks@.len() as int) =~= $grp.hooks@);
                    lemma_group_unique(*self, name@);
                }"""),
            ("before_stmt", "Err(format!(\"{name}: hook not found\")", 1, "proof { lemma_group_unique(*self, name@); lemma_hook_unique(*self, name@); }"),
            ("before_stmt", "return Err(format!(\"{name}: hook group cycle", 1, "proof { assert(first_group(*self, name@, it2.index@)); lemma_group_unique(*self, name@); }"),
            ],
        rewrites=[("T-ITER", r"(?P<h>\w+)\.hook_type\.iter\(\)\.(?:map\(\|(?P<e>\w+)\| (?P=e)\.(?:to_owned|clone)\(\)\)|cloned\(\)|copied\(\))\.collect\(\)", lambda m: f"crate::titer2::vec_to_hashset(&{m.group('h')}.hook_type)")],
        names={"ret": r"let mut (\w+) = vec!\[\];", "h2": r"let mut (\w+) = self\.get_hook\w*\(", "h1": r"let (\w+) = hooks::Hook \{", "grp": r"for (\w+) in self\.group\.iter\(\)"})
    c["Config::get_hook"] = FnSpec(ret="r", sig="""
    ensures r matches Ok(v) ==> expand(*self, name@, self.group@.len()) == Some(hook_names(v@)), //@C10.groups_expanded_in_place_in_order
""")
    for who in ["Account", "Certificate"]:
        lst = "self.hooks@" if who == "Certificate" else "(match self.hooks { Some(h) => h@, None => Seq::<String>::empty() })"
        c[f"{who}::get_hooks"] = FnSpec(ret="r", sig=f"""
    ensures r matches Ok(v) ==> expand_list(*cnf, {lst}, cnf.group@.len()) == Some(hook_names(v@)), //@C10.hook_list_in_declaration_order,C14.hook_reference_resolves_or_error
""")
    c["Certificate::get_hooks"].loops = {1: "    invariant expand_list(*cnf, self.hooks@.take(it.index@), cnf.group@.len()) == Some(hook_names(res@)),"}
    c["Certificate::get_hooks"].at = [
        ("loop_iter", None, 1, "it:"),
        ("before_stmt", "for name in", 1, "proof { assert(self.hooks@.take(0) =~= Seq::<String>::empty()); assert(hook_names(res@) =~= Seq::<Seq<char>>::empty()); }"),
        ("before_stmt", "res.append(&mut h)", 1, "let ghost res_before = res; let ghost h_before = h;"),
        ("after_stmt", "res.append(&mut h)", 1, """
            proof {
                let k = it.index@;
                assert(self.hooks@.take(k + 1).drop_last() =~= self.hooks@.take(k));
                assert(self.hooks@.take(k + 1).last() == self.hooks@[k]);
                assert(hook_names(res@) =~= hook_names(res_before@) + hook_names(h_before@));
            }"""),
        ("before_tail", None, 1, "proof { assert(self.hooks@.take(self.hooks@.len() as int) =~= self.hooks@); }")]
    c["Account::get_hooks"].loops = {1: "    invariant expand_list(*cnf, h@.take(it.index@), cnf.group@.len()) == Some(hook_names(res@)), self.hooks == Some(*h), hs@ == h@,"}
    c["Account::get_hooks"].at = [
        ("loop_iter", None, 1, "it:"),
        ("before_stmt", "for name in", 1, "proof { assert(h@.take(0) =~= Seq::<String>::empty()); assert(hook_names(res@) =~= Seq::<Seq<char>>::empty()); }"),
        ("before_stmt", "res.append(&mut h)", 1, "let ghost res_before = res; let ghost h_before = h;"),
        ("after_stmt", "res.append(&mut h)", 1, """
                    proof {
                        let k = it.index@;
                        assert(hs@.take(k + 1).drop_last() =~= hs@.take(k));
                        assert(hs@.take(k + 1).last() == hs@[k]);
                        assert(hook_names(res@) =~= hook_names(res_before@) + hook_names(h_before@));
                    }"""),
        ("after_stmt", "let mut res = vec![]", 1, "let ghost hs = *h;"),
        ("after_stmt", "for name in h.iter()", 1, "proof { assert(hs@.take(hs@.len() as int) =~= hs@); }"),
        ("before_tail", None, 1, "proof { assert(hook_names(Seq::<hooks::Hook>::empty()) =~= Seq::<Seq<char>>::empty()); }")]
    # ---- C18: the root certificate list handed to the HTTP layer = command line ++ endpoint ++ global, in this order
    c["Endpoint::to_generic"] = FnSpec(ret="r", body_start="broadcast use crate::endpoint::lemma_raw_view_push;", sig="""
    ensures
        r matches Ok(e) ==> strs(e.root_certificates@) == strs_ref(root_certs@) + opt_strs(self.root_certificates)
                + (match cnf.global { Some(g) => opt_strs(g.root_certificates), None => Seq::<Seq<char>>::empty() }), //@C18.roots_are_cmdline_then_endpoint_then_global
        r matches Ok(e) ==> e.name@ == self.name@ && e.url@ == self.url@ && e.tos_agreed == self.tos_agreed && e.nonce is None,
        // every rate limit the endpoint names must exist
        r is Ok ==> forall|k: int| 0 <= k < self.rate_limits@.len() ==> rl_exists(*cnf, #[trigger] self.rate_limits@[k]@), //@C14.rate_limit_reference_resolves_or_error,C09.every_limit_the_endpoint_names_is_attached_or_start_up_fails
        // and the endpoint's limiter is built from exactly those limits: one entry for each name, with the number and period configured under that name
        r matches Ok(e) ==> crate::endpoint::rl_raw(e.rl).len() == self.rate_limits@.len()
            && forall|k: int| 0 <= k < self.rate_limits@.len() ==> attached(*cnf, self.rate_limits@[k]@, #[trigger] crate::endpoint::rl_raw(e.rl)[k]), //@C09.every_limit_the_endpoint_names_is_attached_or_start_up_fails,C14.every_limit_the_endpoint_names_is_attached
""", loops={1: """
    invariant forall|k: int| 0 <= k < it.index@ ==> rl_exists(*cnf, #[trigger] self.rate_limits@[k]@), //@C14.rate_limit_reference_resolves_or_error,C09.every_limit_the_endpoint_names_is_attached_or_start_up_fails
        limits@.len() == it.index@,
        forall|k: int| 0 <= k < it.index@ ==> attached(*cnf, self.rate_limits@[k]@, #[trigger] crate::endpoint::raw_view(limits@)[k]), //@C09.every_limit_the_endpoint_names_is_attached_or_start_up_fails,C14.every_limit_the_endpoint_names_is_attached
"""}, at=[("loop_iter", None, 1, "it:"),
          ("before_stmt", "crate::endpoint::Endpoint::new(", 1, """
        proof {
            assert(strs(root_lst@) =~= strs_ref(root_certs@) + opt_strs(self.root_certificates)
                + (match cnf.global { Some(g) => opt_strs(g.root_certificates), None => Seq::<Seq<char>>::empty() }));
        }""")],
        rewrites=[("T-ITER", r"(?P<v>\w+)\.extend\((?P<w>\w+)\.iter\(\)\.map\(\|v\| v\.to_string\(\)\)\)", r"crate::titer2::extend_from_strs(&mut \g<v>, \g<w>)", None),
                  ("T-ITER", r"(?P<v>\w+)\.extend\((?P<w>\w+)\.iter\(\)\.map\(\|v\| v\.to_owned\(\)\)\)", r"crate::titer2::extend_from_strings(&mut \g<v>, \g<w>)", None)])
    # the endpoint object of a certificate: its configured endpoint, built with the root certificates of the command line
    c["Certificate::get_endpoint"] = FnSpec(ret="r", sig="""
    ensures
        r matches Ok(e) ==> exists|i: int| first_endpoint(*cnf, self.endpoint@, i) && e.name@ == cnf.endpoint@[i].name@ && e.url@ == cnf.endpoint@[i].url@
            && strs(e.root_certificates@) == strs_ref(root_certs@) + opt_strs(cnf.endpoint@[i].root_certificates)
                + (match cnf.global { Some(g) => opt_strs(g.root_certificates), None => Seq::<Seq<char>>::empty() }), //@C18.the_endpoint_of_a_certificate_gets_the_command_line_roots,C14.endpoint_reference_resolves_or_error
        r is Err ==> true,
""")
    # the configuration the daemon starts with: what read_cnf gives for the file, with the global environment dispatched
    c["from_file"] = FnSpec(ret="r", ghost=True, sig="""
    requires old(w).opened == Set::<Seq<char>>::empty(), cnf_universe().finite(),
    ensures
        // every variable of the [global] environment is in the environment of every certificate (its own value, if it sets one)
        r matches Ok(c) ==> forall|i: int, k: Seq<char>| 0 <= i < c.certificate@.len() && global_env_of(c).contains_key(k)
            ==> #[trigger] crate::venv::envmap(c.certificate@[i].env).contains_key(k), //@C10.the_global_environment_reaches_every_certificate
""", rewrites=[("T-MAP", r"BTreeSet::new\(\)", "crate::config::empty_path_set()", 1)],
        at=[("before_stmt", "let mut config = read_cnf(", 1, """
    proof {
        let e = loaded_files@.map_values(|p: PathBuf| p@);
        assert(e.len() == 0);
        assert(paths(loaded_files@) =~= Set::<Seq<char>>::empty()) by {
            assert forall|x: Seq<char>| !e.to_set().contains(x) by { if e.to_set().contains(x) { let i = choose|i: int| 0 <= i < e.len() && e[i] == x; } }
        }
    }"""),
            ("before_tail", None, 1, """
    proof {
        assert forall|i: int, k: Seq<char>| 0 <= i < config.certificate@.len() && global_env_of(config).contains_key(k)
            implies #[trigger] crate::venv::envmap(config.certificate@[i].env).contains_key(k) by { //@C10.the_global_environment_reaches_every_certificate
            let g = global_env_of(config);
        }
    }""")])
    # ---- include handling: every file read once, recursion terminates, lists appended, global options: later file wins
    c["read_cnf"] = FnSpec(ret="r", ghost=True, sig="""
    requires old(w).opened == paths(old(loaded_files)@), paths(old(loaded_files)@).subset_of(cnf_universe()), cnf_universe().finite(),
        all_canonical(paths(old(loaded_files)@)),
    ensures r is Ok ==> final(w).opened == paths(final(loaded_files)@) && paths(final(loaded_files)@).subset_of(cnf_universe())
        && all_canonical(paths(final(loaded_files)@))
        && paths(old(loaded_files)@).subset_of(paths(final(loaded_files)@)),
    decreases cnf_universe().len() - paths(old(loaded_files)@).len(), //@C19.include_recursion_terminates
""", loops={1: """
    invariant cnf_inv(*w, loaded_files@, old(loaded_files)@, path@),
    decreases config.include@.len() - it1.index@,
""", 2: """
    invariant cnf_inv(*w, loaded_files@, old(loaded_files)@, path@),
"""},
        at=[("loop_iter", None, 1, "it1:"),
            ("before_stmt", "let mut add_cnf = read_cnf", 1, """
            let ghost lf_before = loaded_files@;
            proof {
                // the recursive call works on a strictly larger set of loaded files
                lemma_cnf_call(*w, loaded_files@, old(loaded_files)@, path@); //@C14.each_file_read_once,C19.include_recursion_terminates
            }
            let ghost cfg0 = config;"""),
            ("after_stmt", "let mut add_cnf = read_cnf", 1, """
            let ghost add0 = add_cnf;
            proof { lemma_cnf_after(*w, lf_before, loaded_files@, old(loaded_files)@, path@); } //@C14.each_file_read_once,C19.include_recursion_terminates"""),
            ("before_stmt", "for cnf_name in", 1, "proof { lemma_cnf_start(*w, loaded_files@, old(loaded_files)@, path@); } //@C14.each_file_read_once,C19.include_recursion_terminates"),
            ("before_tail", None, 1, "proof { lemma_cnf_end(*w, loaded_files@, old(loaded_files)@, path@); } //@C14.each_file_read_once,C19.include_recursion_terminates"),
            ("before_stmt", "if config.global.is_none()", 1, """
            proof {
                // C14: sections of included files are appended, none is dropped
                assert(config.endpoint@ == cfg0.endpoint@ + add0.endpoint@); //@C14.include_appends_endpoints
                assert(config.rate_limit@ == cfg0.rate_limit@ + add0.rate_limit@); //@C14.include_appends_rate_limits
                assert(config.hook@ == cfg0.hook@ + add0.hook@); //@C14.include_appends_hooks
                assert(config.group@ == cfg0.group@ + add0.group@); //@C14.include_appends_groups
                assert(config.account@ == cfg0.account@ + add0.account@); //@C14.include_appends_accounts
                assert(config.certificate@ == cfg0.certificate@ + add0.certificate@); //@C14.include_appends_certificates
            }"""),
            ("after_stmt", "if config.global.is_none()", 1, """
            proof {
                // C14: for each of the 15 global options, the value of the later-included file wins when it sets one
                assert(merged_file_settings(cfg0.global, add0.global, config.global)); //@C14.later_global_option_wins,C13.file_modes_and_owners_of_an_included_global_section_are_kept_apart
                assert(merged_roots(cfg0.global, add0.global, config.global)); //@C14.later_global_option_wins,C18.root_certificates_of_an_included_global_section
                assert(merged_env(cfg0.global, add0.global, config.global)); //@C14.later_global_option_wins,C10.environment_of_an_included_global_section
                assert(merged_renewal(cfg0.global, add0.global, config.global)); //@C14.later_global_option_wins,C06.renewal_settings_of_an_included_global_section
                assert(merged_directories(cfg0.global, add0.global, config.global)); //@C14.later_global_option_wins,C11.accounts_directory_of_an_included_global_section,C02.storage_directories_of_an_included_global_section,C03.storage_directories_of_an_included_global_section
                assert(global_merged(cfg0.global, add0.global, config.global)); //@C14.later_global_option_wins
            }"""),
            ],
        )
    return c


def build():
    u = Unit("config", "acmed")
    u.prelude("err", "log", "stdx", "time", "titer2", "env_shims")
    for cst in ["DEFAULT_ACCOUNTS_DIR", "DEFAULT_CERT_DIR", "DEFAULT_CERT_FORMAT", "DEFAULT_CERT_FILE_MODE",
                "DEFAULT_CERT_RANDOM_EARLY_RENEW", "DEFAULT_CERT_RENEW_DELAY", "DEFAULT_PK_FILE_MODE",
                "DEFAULT_HOOK_ALLOW_FAILURE"]:
        u.take(MAIN, cst, "")
    u.drop_derives = {"Debug", "Eq", "Hash", "PartialEq", "Clone", "Default"}
    u.module("duration", "use crate::acme_common::error::Error;\nuse std::time::Duration;")
    u.raw("duration", """
pub uninterp spec fn pd_spec(s: Seq<char>) -> Option<Duration>;
// verified in unit `duration`; here its result is an uninterpreted function of the text
#[verifier::external_body]
pub fn parse_duration(input: &str) -> (r: Result<Duration, Error>)
    ensures match r { Ok(d) => pd_spec(input@) == Some(d), Err(_) => pd_spec(input@) is None }
{ unimplemented!() }
""", trusted=True)
    u.module("config", "use crate::*;\nuse crate::duration::{parse_duration, pd_spec};\nuse crate::acme_common::error::Error;\n"
             "use std::collections::HashMap;\nuse std::result::Result;\nuse std::time::Duration;")
    for t in ["Config", "GlobalOptions", "Endpoint", "RateLimit", "Hook", "HookType", "Group", "ExternalAccount", "Account",
              "AccountContact", "Certificate", "Identifier", "SubjectAttributes"]:
        u.take(C, t, "config", keep_derives=("Eq", "Hash", "PartialEq", "Clone") if t == "HookType" else ())
    u.raw("config", SPEC)
    u.raw("config", """
// the built-in defaults are the documented ones (acmed.toml(5)): the contracts above speak of `the default`, this says which
pub proof fn documented_defaults()
    ensures
        crate::DEFAULT_HOOK_ALLOW_FAILURE == false, //@C10.a_hook_may_fail_only_when_allow_failure_says_so_by_default_it_may_not,C05.a_hook_may_fail_only_when_allow_failure_says_so_by_default_it_may_not,C07.a_hook_may_fail_only_when_allow_failure_says_so_by_default_it_may_not
        crate::DEFAULT_CERT_FILE_MODE == 0o644 && crate::DEFAULT_PK_FILE_MODE == 0o600, //@C13.default_modes_are_0644_and_0600
        // acmed.toml(5): certificates and keys under the data directory, accounts too; the configuration file under the configuration directory
        crate::DEFAULT_CERT_DIR@ == "<data directory>/certs"@ && crate::DEFAULT_ACCOUNTS_DIR@ == "<data directory>/accounts"@, //@C14.default_storage_directories_are_the_documented_ones,C02.default_storage_directories_are_the_documented_ones,C11.default_storage_directories_are_the_documented_ones
        // acmed.toml(5), file_name_format: the key type is part of the default name (an RSA and an ECDSA certificate of one name do not share files)
        crate::DEFAULT_CERT_FORMAT@ == "{{ name }}_{{ key_type }}.{{ file_type }}.{{ ext }}"@, //@C14.default_file_name_format_is_the_documented_one,C02.default_file_name_format_is_the_documented_one,C03.default_file_name_format_is_the_documented_one
        crate::DEFAULT_CERT_RENEW_DELAY == 30 * 24 * 60 * 60 && crate::DEFAULT_CERT_RANDOM_EARLY_RENEW == 0, //@C06.default_renew_delay_is_30_days_no_early_renewal,C14.default_renew_delay_is_30_days_no_early_renewal
{}
""")
    u.raw("config", CNF_SHIMS, trusted=True)
    from unit import fmt_to_cat
    def fmt_rw(m):
        args = [a for a in re.split(r",\s*(?![^()]*\))", m.group("args").lstrip(", ")) if a.strip()] if m.group("args") else []
        e = fmt_to_cat(m.group("lit"), cat="crate::config::cat2", args=args)
        return e if e is not None else "crate::opaque_string()"
    u.verify(C, "get_cnf_path", "config", props=["C14"], fns={"get_cnf_path": FnSpec(ret="r", sig="""
    ensures
        // an include is resolved against the directory of the file that names it; an absolute one is taken as it is
        r matches Ok(v) ==> (is_absolute(file@) ==> paths_text(v@) == glob_files(file@)), //@C14.absolute_includes_are_taken_as_they_are
        r matches Ok(v) ==> (!is_absolute(file@) && !has_glob_meta(parent_spec(canon(from@))) ==>
            paths_text(v@) == glob_files(join_spec(parent_spec(canon(from@)), file@))), //@C14.relative_includes_are_resolved_against_the_including_file
""", rewrites=[("T-ITER", r"glob\((?P<p>[^()]+)\)\?\s*\.filter_map\(Result::ok\)\s*\.collect::<Vec<PathBuf>>\(\)", r"crate::config::glob_readable(glob(\g<p>)?)", None),
               ("T-FMT", r"format!\((?P<lit>\"[^\"]*\")(?P<args>(?:,\s*[^;]+?)?)\)(?=;)", fmt_rw, None)])})
    c = contracts()
    props = {"C13": ["get_cert_file_mode", "get_pk_file_mode", "get_cert_file_user", "get_cert_file_group", "get_cert_file_ext",
                     "get_pk_file_user", "get_pk_file_group", "get_pk_file_ext"]}
    u.module("hooks", "use crate::*;\nuse crate::config::HookType;\nuse std::collections::{HashMap, HashSet};")
    u.take("acmed/src/hooks.rs", "HookStdin", "hooks")
    u.take("acmed/src/hooks.rs", "Hook", "hooks")
    u.raw("", WORLD, trusted=True)
    u.ghost_call("open", quals=("File",))
    u.ghost_call("read_to_string", quals=("fs",))
    u.macro_as_fn(C, "set_cfg_attr", "config",
                  "pub fn set_cfg_attr__fn<T>(to__: &mut Option<T>, from__: Option<T>)\n"
                  "    ensures *final(to__) == later(*old(to__), from__), //@C14.set_cfg_attr_takes_the_later_value,C13.set_cfg_attr_takes_the_later_value,C18.set_cfg_attr_takes_the_later_value,C06.set_cfg_attr_takes_the_later_value",
                  {"to": "*to__", "from": "from__"}, "crate::config::set_cfg_attr__fn(&mut $to, $from)")
    u.module("acme_proto", "")
    u.module("acme_proto::structs", "")
    u.take("acmed/src/acme_proto/structs/directory.rs", "DirectoryMeta", "acme_proto::structs")
    u.take("acmed/src/acme_proto/structs/directory.rs", "Directory", "acme_proto::structs")
    u.module("endpoint", "use crate::*;\nuse crate::config::strs;\nuse crate::acme_proto::structs::Directory;\nuse crate::acme_common::error::Error;\nuse std::time::{Duration, Instant};")
    u.take("acmed/src/endpoint.rs", "Endpoint", "endpoint")
    u.take("acmed/src/endpoint.rs", "RateLimit", "endpoint")
    u.raw("endpoint", """
// what a limiter was built from (RateLimit::new is verified in unit ratelimit: every (number, period) it is given is enforced)
pub uninterp spec fn rl_raw(rl: RateLimit) -> Seq<(usize, Seq<char>)>;
pub open spec fn raw_view(s: Seq<(usize, String)>) -> Seq<(usize, Seq<char>)> { s.map_values(|t: (usize, String)| (t.0, t.1@)) }
pub broadcast proof fn lemma_raw_view_push(s: Seq<(usize, String)>, x: (usize, String))
    ensures #[trigger] raw_view(s.push(x)) =~= raw_view(s).push((x.0, x.1@)) {}
""")
    u.stub("acmed/src/endpoint.rs", "RateLimit::new", "endpoint", fns={"new": FnSpec(ret="r", sig="    ensures r matches Ok(x) ==> rl_raw(x) == raw_view(raw_limits@),\n")})
    u.verify("acmed/src/endpoint.rs", "Endpoint::new", "endpoint", props=["C18"], fns={"new": FnSpec(ret="r", sig="""
    ensures r matches Ok(e) ==> strs(e.root_certificates@) =~= strs(root_certs@) && e.name@ == name@ && e.url@ == url@ && e.tos_agreed == tos_agreed && e.nonce is None, //@C18.endpoint_keeps_the_root_list
        r matches Ok(e) ==> rl_raw(e.rl) == raw_view(limits@), //@C09.the_endpoint_limiter_is_built_from_the_limits_given
""")})
    u.verify(C, "get_stdin", "config", props=["C10"], fns={"get_stdin": c.pop("get_stdin")})
    u.verify(C, "dispatch_global_env_vars", "config", props=["C10"], fns={"dispatch_global_env_vars": c.pop("dispatch_global_env_vars")})
    for key, fs in c.items():
        ty, fn = key.split("::") if "::" in key else ("", key)
        if "::" not in key:
            u.verify(C, key, "config", props=["C14", "C19"] + (["C13", "C18", "C10", "C06"] if key == "read_cnf" else []), fns={key: fs})
            continue
        p = ["C14", "C06"] if fn in ("get_renew_delay", "get_random_early_renew") else ["C13"] if fn in props["C13"] else ["C14", "C10", "C19"] if "hook" in fn else ["C18", "C14", "C09"] if fn in ("to_generic", "get_endpoint") else ["C18", "C14"] if fn == "to_generic" else ["C14"]
        u.verify(C, key, "config", props=p, fns={fn: fs})
    return u


WORLD = """
// ghost world of the configuration loader: the configuration files opened so far
pub tracked struct World { pub ghost opened: Set<Seq<char>> }
"""

CNF_SHIMS = """
// Trusted model of std::path / std::fs / toml / BTreeSet as used by read_cnf.
pub struct PathBuf { pub s: String }
pub type Path = PathBuf;
pub struct Display { pub s: String }
impl Display { #[verifier::external_body] pub fn to_string(&self) -> String { unimplemented!() } }
pub uninterp spec fn cnf_universe() -> Set<Seq<char>>;   // assumption: finitely many configuration files exist
// the identity of the file a path designates: its canonical path (symlinks, `..` and relative parts resolved)
pub uninterp spec fn canon(p: Seq<char>) -> Seq<char>;
impl Clone for PathBuf { #[verifier::external_body] fn clone(&self) -> (r: Self) ensures r == *self { unimplemented!() } }
impl<'a> From<&'a str> for PathBuf { #[verifier::external_body] fn from(s: &'a str) -> (r: PathBuf) ensures r@ == s@ { unimplemented!() } }
impl<'a> vstd::std_specs::convert::FromSpecImpl<&'a str> for PathBuf {
    open spec fn obeys_from_spec() -> bool { false }
    open spec fn from_spec(s: &'a str) -> Self { arbitrary() }
}
impl PathBuf {
    pub open spec fn view(&self) -> Seq<char> { self.s@ }
    #[verifier::external_body]
    pub fn canonicalize(&self) -> (r: Result<PathBuf, crate::acme_common::error::IoError>)
        ensures r matches Ok(p) ==> cnf_universe().contains(p@) && p@ == canon(self@) && canon(p@) == p@ { unimplemented!() }
    #[verifier::external_body]
    pub fn to_path_buf(&self) -> (r: PathBuf) ensures r == *self { unimplemented!() }
    #[verifier::external_body]
    pub fn display(&self) -> Display { unimplemented!() }
    // PathBuf::pop / push / to_str / is_absolute as documented: pop leaves the parent directory; pushing an absolute path
    // replaces the whole path, pushing a relative one appends it after a separator
    #[verifier::external_body]
    pub fn pop(&mut self) -> (r: bool) ensures final(self)@ == parent_spec(old(self)@) { unimplemented!() }
    #[verifier::external_body]
    pub fn push(&mut self, p: &str) ensures final(self)@ == join_spec(old(self)@, p@) { unimplemented!() }
    #[verifier::external_body]
    pub fn to_str(&self) -> (r: Option<&str>) ensures r matches Some(s) ==> s@ == self@ { unimplemented!() }
    #[verifier::external_body]
    pub fn is_absolute(&self) -> (r: bool) ensures r == is_absolute(self@) { unimplemented!() }
    #[verifier::external_body]
    pub fn join(&self, p: &str) -> (r: PathBuf) ensures r@ == join_spec(self@, p@) { unimplemented!() }
    #[verifier::external_body]
    pub fn new(s: &str) -> (r: &PathBuf) ensures r@ == s@ { unimplemented!() }
}
pub uninterp spec fn parent_spec(p: Seq<char>) -> Seq<char>;
pub uninterp spec fn is_absolute(p: Seq<char>) -> bool;
pub open spec fn join_spec(d: Seq<char>, p: Seq<char>) -> Seq<char> {
    // (a separator is added unless the directory is the root itself - a configuration file directly under `/` is left out of the model)
    if is_absolute(p) { p } else { d + "/"@ + p }
}
// the glob crate: the readable files a pattern matches, in the order glob yields them; characters with a special meaning in
// a pattern; Pattern::escape gives a pattern that matches the text literally (and is that text when nothing is special in it)
pub uninterp spec fn glob_files(pattern: Seq<char>) -> Seq<Seq<char>>;
pub uninterp spec fn has_glob_meta(s: Seq<char>) -> bool;
pub uninterp spec fn escape_spec(s: Seq<char>) -> Seq<char>;
pub open spec fn paths_text(v: Seq<PathBuf>) -> Seq<Seq<char>> { v.map_values(|p: PathBuf| p@) }
pub struct GlobPaths { pub pattern: Ghost<Seq<char>> }
pub struct PatternError { pub x: u8 }
impl vstd::std_specs::convert::FromSpecImpl<PatternError> for crate::acme_common::error::Error {
    open spec fn obeys_from_spec() -> bool { false }
    open spec fn from_spec(e: PatternError) -> Self { arbitrary() }
}
impl From<PatternError> for crate::acme_common::error::Error { #[verifier::external_body] fn from(e: PatternError) -> Self { unimplemented!() } }
#[verifier::external_body]
pub fn glob(pattern: &str) -> (r: Result<GlobPaths, PatternError>) ensures r matches Ok(g) ==> g.pattern@ == pattern@ { unimplemented!() }
// glob(..)?.filter_map(Result::ok).collect::<Vec<PathBuf>>()  (rule T-ITER): the matches that could be read
#[verifier::external_body]
pub fn glob_readable(g: GlobPaths) -> (r: Vec<PathBuf>) ensures paths_text(r@) == glob_files(g.pattern@) { unimplemented!() }
pub struct Pattern { pub x: u8 }
impl Pattern {
    #[verifier::external_body]
    pub fn escape(s: &str) -> (r: String) ensures r@ == escape_spec(s@), !has_glob_meta(s@) ==> r@ == s@ { unimplemented!() }
}
#[verifier::external_body]
pub fn cat2(a: &str, b: &str) -> (r: String) ensures r@ == a@ + b@ { unimplemented!() }
pub struct BTreeSet<T> { pub v: Vec<T> }
pub open spec fn paths(s: Seq<PathBuf>) -> Set<Seq<char>> { s.map_values(|p: PathBuf| p@).to_set() }
impl BTreeSet<PathBuf> {
    pub open spec fn view(&self) -> Seq<PathBuf> { self.v@ }
    #[verifier::external_body]
    pub fn contains(&self, p: &PathBuf) -> (r: bool) ensures r == paths(self@).contains(p@) { unimplemented!() }
    #[verifier::external_body]
    pub fn insert(&mut self, p: PathBuf) -> (r: bool) ensures paths(final(self)@) == paths(old(self)@).insert(p@) { unimplemented!() }
    #[verifier::external_body]
    pub fn remove(&mut self, p: &PathBuf) -> (r: bool) ensures paths(final(self)@) == paths(old(self)@).remove(p@), r == paths(old(self)@).contains(p@) { unimplemented!() }
    #[verifier::external_body]
    pub fn len(&self) -> (r: usize) ensures r == paths(self@).len() { unimplemented!() }
    #[verifier::external_body]
    pub fn is_empty(&self) -> (r: bool) ensures r == (paths(self@).len() == 0) { unimplemented!() }
    #[verifier::external_body]
    pub fn clear(&mut self) ensures paths(final(self)@) == Set::<Seq<char>>::empty() { unimplemented!() }
}
#[verifier::external_body]
pub fn empty_path_set() -> (r: BTreeSet<PathBuf>) ensures r@.len() == 0 { unimplemented!() }
// init_directories: creates the account and certificate directories when they do not exist (no effect on the configuration)
#[verifier::external_body]
fn init_directories(config: &Config) -> (r: Result<(), Error>) { unimplemented!() }
pub struct File { pub path: Ghost<Seq<char>> }
impl File {
    // C14: a configuration file is opened only if it has not been opened before
    #[verifier::external_body]
    pub fn open(p: &PathBuf, Tracked(w): Tracked<&mut World>) -> (r: Result<File, crate::acme_common::error::IoError>)
        requires !old(w).opened.contains(canon(p@)), //@C14.each_file_read_once
        ensures final(w).opened == old(w).opened.insert(canon(p@))
    { unimplemented!() }
    #[verifier::external_body]
    pub fn read_to_string(&mut self, s: &mut String) -> (r: Result<usize, crate::acme_common::error::IoError>) { unimplemented!() }
}
// std::fs::read_to_string(path) = File::open(path) + read_to_string: the same bookkeeping of opened files
pub mod fs {
    use vstd::prelude::*;
    use super::{PathBuf, World, canon};
    verus! {
    #[verifier::external_body]
    pub fn read_to_string(p: &PathBuf, Tracked(w): Tracked<&mut World>) -> (r: Result<String, crate::acme_common::error::IoError>)
        requires !old(w).opened.contains(canon(p@)), //@C14.each_file_read_once
        ensures final(w).opened == old(w).opened.insert(canon(p@))
    { unimplemented!() }
    }
}
pub mod toml {
    use vstd::prelude::*;
    verus! {
    pub struct TomlError { pub x: u8 }
    impl vstd::std_specs::convert::FromSpecImpl<TomlError> for crate::acme_common::error::Error {
        open spec fn obeys_from_spec() -> bool { false }
        open spec fn from_spec(e: TomlError) -> Self { arbitrary() }
    }
    impl From<TomlError> for crate::acme_common::error::Error { #[verifier::external_body] fn from(e: TomlError) -> Self { unimplemented!() } }
    #[verifier::external_body]
    pub fn from_str(s: &str) -> Result<crate::config::Config, TomlError> { unimplemented!() }
    }
}
// #[derive(Default)] of Config and #[derive(Clone)] of GlobalOptions (dropped by T-ATTR), restated as trusted specs
impl Default for Config {
    #[verifier::external_body]
    fn default() -> (r: Self)
        ensures r.global is None, r.endpoint@.len() == 0, r.rate_limit@.len() == 0, r.hook@.len() == 0, r.group@.len() == 0,
            r.account@.len() == 0, r.certificate@.len() == 0, r.include@.len() == 0
    { unimplemented!() }
}
impl Clone for GlobalOptions {
    #[verifier::external_body]
    fn clone(&self) -> (r: Self) ensures r == *self { unimplemented!() }
}
"""

SPEC = """
// ---- include bookkeeping, kept opaque so that the set algebra stays out of the big loop-body query
pub open spec fn all_canonical(s: Set<Seq<char>>) -> bool { forall|x: Seq<char>| s.contains(x) ==> canon(x) == x }
#[verifier::opaque]
pub open spec fn cnf_inv(w: World, loaded: Seq<PathBuf>, loaded0: Seq<PathBuf>, path: Seq<char>) -> bool {
    &&& w.opened == paths(loaded) && paths(loaded).subset_of(cnf_universe()) && cnf_universe().finite() && all_canonical(paths(loaded))
    &&& paths(loaded0).insert(path).subset_of(paths(loaded)) && !paths(loaded0).contains(path)
}
pub proof fn lemma_cnf_start(w: World, loaded: Seq<PathBuf>, loaded0: Seq<PathBuf>, path: Seq<char>)
    requires w.opened == paths(loaded), paths(loaded) == paths(loaded0).insert(path), paths(loaded0).subset_of(cnf_universe()),
        cnf_universe().finite(), cnf_universe().contains(path), !paths(loaded0).contains(path), all_canonical(paths(loaded0)), canon(path) == path
    ensures cnf_inv(w, loaded, loaded0, path)
{ reveal(cnf_inv); }
pub proof fn lemma_cnf_call(w: World, loaded: Seq<PathBuf>, loaded0: Seq<PathBuf>, path: Seq<char>)
    requires cnf_inv(w, loaded, loaded0, path)
    ensures w.opened == paths(loaded), paths(loaded).subset_of(cnf_universe()), cnf_universe().finite(), all_canonical(paths(loaded)),
        cnf_universe().len() - paths(loaded).len() < cnf_universe().len() - paths(loaded0).len(),
        cnf_universe().len() - paths(loaded).len() >= 0
{
    reveal(cnf_inv);
    vstd::set_lib::lemma_len_subset(paths(loaded0).insert(path), paths(loaded));
    vstd::set_lib::lemma_len_subset(paths(loaded), cnf_universe());
}
pub proof fn lemma_cnf_after(w: World, before: Seq<PathBuf>, loaded: Seq<PathBuf>, loaded0: Seq<PathBuf>, path: Seq<char>)
    requires cnf_inv(World { opened: paths(before) }, before, loaded0, path),
        w.opened == paths(loaded), paths(loaded).subset_of(cnf_universe()), paths(before).subset_of(paths(loaded)), all_canonical(paths(loaded))
    ensures cnf_inv(w, loaded, loaded0, path)
{ reveal(cnf_inv); }
pub proof fn lemma_cnf_end(w: World, loaded: Seq<PathBuf>, loaded0: Seq<PathBuf>, path: Seq<char>)
    requires cnf_inv(w, loaded, loaded0, path)
    ensures w.opened == paths(loaded), paths(loaded).subset_of(cnf_universe()), paths(loaded0).subset_of(paths(loaded)), all_canonical(paths(loaded))
{ reveal(cnf_inv); }
// ---- include merge: for each global option the later file's value wins when it gives one
pub open spec fn later<T>(earlier: Option<T>, newer: Option<T>) -> Option<T> { match newer { Some(v) => Some(v), None => earlier } }
pub open spec fn global_merged(a: Option<GlobalOptions>, b: Option<GlobalOptions>, m: Option<GlobalOptions>) -> bool {
    match (a, b) {
        (None, _) => m == b,
        (Some(x), None) => m == a,
        (Some(x), Some(y)) => m matches Some(z)
            && z.accounts_directory == later(x.accounts_directory, y.accounts_directory)
            && z.cert_file_group == later(x.cert_file_group, y.cert_file_group)
            && z.cert_file_mode == later(x.cert_file_mode, y.cert_file_mode)
            && z.cert_file_user == later(x.cert_file_user, y.cert_file_user)
            && z.cert_file_ext == later(x.cert_file_ext, y.cert_file_ext)
            && z.certificates_directory == later(x.certificates_directory, y.certificates_directory)
            && z.env == (if y.env@.len() > 0 { y.env } else { x.env })
            && z.file_name_format == later(x.file_name_format, y.file_name_format)
            && z.pk_file_group == later(x.pk_file_group, y.pk_file_group)
            && z.pk_file_mode == later(x.pk_file_mode, y.pk_file_mode)
            && z.pk_file_user == later(x.pk_file_user, y.pk_file_user)
            && z.pk_file_ext == later(x.pk_file_ext, y.pk_file_ext)
            && z.random_early_renew == later(x.random_early_renew, y.random_early_renew)
            && z.renew_delay == later(x.renew_delay, y.renew_delay)
            && z.root_certificates == later(x.root_certificates, y.root_certificates),
    }
}
// the same, option group by option group (each group feeds another property)
pub open spec fn merged_file_settings(a: Option<GlobalOptions>, b: Option<GlobalOptions>, m: Option<GlobalOptions>) -> bool {
    match (a, b) {
        (Some(x), Some(y)) => m matches Some(z)
            && z.cert_file_group == later(x.cert_file_group, y.cert_file_group) && z.cert_file_mode == later(x.cert_file_mode, y.cert_file_mode)
            && z.cert_file_user == later(x.cert_file_user, y.cert_file_user) && z.cert_file_ext == later(x.cert_file_ext, y.cert_file_ext)
            && z.pk_file_group == later(x.pk_file_group, y.pk_file_group) && z.pk_file_mode == later(x.pk_file_mode, y.pk_file_mode)
            && z.pk_file_user == later(x.pk_file_user, y.pk_file_user) && z.pk_file_ext == later(x.pk_file_ext, y.pk_file_ext),
        _ => true,
    }
}
pub open spec fn merged_roots(a: Option<GlobalOptions>, b: Option<GlobalOptions>, m: Option<GlobalOptions>) -> bool {
    match (a, b) { (Some(x), Some(y)) => m matches Some(z) && z.root_certificates == later(x.root_certificates, y.root_certificates), _ => true }
}
pub open spec fn merged_env(a: Option<GlobalOptions>, b: Option<GlobalOptions>, m: Option<GlobalOptions>) -> bool {
    match (a, b) { (Some(x), Some(y)) => m matches Some(z) && z.env == (if y.env@.len() > 0 { y.env } else { x.env }), _ => true }
}
pub open spec fn merged_directories(a: Option<GlobalOptions>, b: Option<GlobalOptions>, m: Option<GlobalOptions>) -> bool {
    match (a, b) { (Some(x), Some(y)) => m matches Some(z) && z.accounts_directory == later(x.accounts_directory, y.accounts_directory)
        && z.certificates_directory == later(x.certificates_directory, y.certificates_directory), _ => true }
}
pub open spec fn merged_renewal(a: Option<GlobalOptions>, b: Option<GlobalOptions>, m: Option<GlobalOptions>) -> bool {
    match (a, b) { (Some(x), Some(y)) => m matches Some(z) && z.random_early_renew == later(x.random_early_renew, y.random_early_renew)
        && z.renew_delay == later(x.renew_delay, y.renew_delay), _ => true }
}
// the [global] environment (empty when there is no [global] section)
pub open spec fn global_env_of(c: Config) -> Map<Seq<char>, Seq<char>> {
    match c.global { Some(g) => crate::venv::envmap(g.env), None => Map::<Seq<char>, Seq<char>>::empty() }
}
// ---- hook and group resolution
pub open spec fn first_hook(cnf: Config, name: Seq<char>, i: int) -> bool {
    0 <= i < cnf.hook@.len() && cnf.hook@[i].name@ == name && forall|j: int| 0 <= j < i ==> cnf.hook@[j].name@ != name
}
pub open spec fn no_hook(cnf: Config, name: Seq<char>) -> bool { forall|i: int| 0 <= i < cnf.hook@.len() ==> cnf.hook@[i].name@ != name }
pub open spec fn first_group(cnf: Config, name: Seq<char>, i: int) -> bool {
    0 <= i < cnf.group@.len() && cnf.group@[i].name@ == name && forall|j: int| 0 <= j < i ==> cnf.group@[j].name@ != name
}
pub open spec fn no_group(cnf: Config, name: Seq<char>) -> bool { forall|i: int| 0 <= i < cnf.group@.len() ==> cnf.group@[i].name@ != name }
pub open spec fn hook_names(v: Seq<hooks::Hook>) -> Seq<Seq<char>> { v.map_values(|h: hooks::Hook| h.name@) }
// the names of the hooks a name stands for, in order; None = it does not resolve within `depth` levels of groups
pub open spec fn expand(cnf: Config, name: Seq<char>, depth: nat) -> Option<Seq<Seq<char>>>
    decreases depth, 0nat
{
    if exists|i: int| first_hook(cnf, name, i) { Some(seq![name]) }
    else if exists|g: int| first_group(cnf, name, g) {
        if depth == 0 { None } else { expand_list(cnf, cnf.group@[choose|g: int| first_group(cnf, name, g)].hooks@, (depth - 1) as nat) }
    } else { None }
}
pub open spec fn expand_list(cnf: Config, names: Seq<String>, depth: nat) -> Option<Seq<Seq<char>>>
    decreases depth, 1 + names.len()
{
    if names.len() == 0 { Some(Seq::empty()) } else {
        match (expand_list(cnf, names.drop_last(), depth), expand(cnf, names.last()@, depth)) {
            (Some(a), Some(b)) => Some(a + b),
            _ => None,
        }
    }
}
pub proof fn lemma_hook_unique(cnf: Config, name: Seq<char>)
    ensures forall|i: int, j: int| first_hook(cnf, name, i) && first_hook(cnf, name, j) ==> i == j,
            no_hook(cnf, name) ==> !(exists|i: int| first_hook(cnf, name, i)),
{
    assert forall|i: int, j: int| first_hook(cnf, name, i) && first_hook(cnf, name, j) implies i == j by {
        if i < j { assert(cnf.hook@[i].name@ != name); } else if j < i { assert(cnf.hook@[j].name@ != name); }
    }
}
pub proof fn lemma_group_unique(cnf: Config, name: Seq<char>)
    ensures forall|i: int, j: int| first_group(cnf, name, i) && first_group(cnf, name, j) ==> i == j,
            no_group(cnf, name) ==> !(exists|i: int| first_group(cnf, name, i)),
{
    assert forall|i: int, j: int| first_group(cnf, name, i) && first_group(cnf, name, j) implies i == j by {
        if i < j { assert(cnf.group@[i].name@ != name); } else if j < i { assert(cnf.group@[j].name@ != name); }
    }
}
broadcast use {crate::stdax::axiom_str_ext, crate::stdax2::axiom_to_string_string, vstd::string::to_string_from_display_ensures_for_str};
// #[derive(Clone)] of config::Endpoint (dropped by T-ATTR), restated as a trusted spec: a clone equals its source
impl Clone for Endpoint {
    #[verifier::external_body]
    fn clone(&self) -> (r: Self) ensures r == *self { unimplemented!() }
}
// the limit configured under a name: the first [[rate-limit]] entry of that name, its number and its period
pub open spec fn attached(cnf: Config, name: Seq<char>, t: (usize, Seq<char>)) -> bool {
    exists|i: int| 0 <= i < cnf.rate_limit@.len() && #[trigger] cnf.rate_limit@[i].name@ == name
        && t.0 == cnf.rate_limit@[i].number && t.1 == cnf.rate_limit@[i].period@
        && forall|j: int| 0 <= j < i ==> cnf.rate_limit@[j].name@ != name
}
pub open spec fn rl_exists(cnf: Config, name: Seq<char>) -> bool {
    exists|i: int| 0 <= i < cnf.rate_limit@.len() && cnf.rate_limit@[i].name@ == name
}
pub open spec fn strs(v: Seq<String>) -> Seq<Seq<char>> { v.map_values(|s: String| s@) }
pub open spec fn strs_ref(v: Seq<&str>) -> Seq<Seq<char>> { v.map_values(|s: &str| s@) }
pub open spec fn opt_strs(o: Option<Vec<String>>) -> Seq<Seq<char>> { match o { Some(v) => strs(v@), None => Seq::empty() } }
pub open spec fn view_opt(o: Option<String>) -> Option<Seq<char>> { match o { Some(s) => Some(s@), None => None } }
pub open spec fn first_endpoint(cnf: Config, name: Seq<char>, i: int) -> bool {
    0 <= i < cnf.endpoint@.len() && cnf.endpoint@[i].name@ == name
        && forall|j: int| 0 <= j < i ==> cnf.endpoint@[j].name@ != name
}
pub open spec fn no_endpoint(cnf: Config, name: Seq<char>) -> bool {
    forall|i: int| 0 <= i < cnf.endpoint@.len() ==> cnf.endpoint@[i].name@ != name
}
pub open spec fn the_endpoint(cnf: Config, name: Seq<char>) -> Option<Endpoint> {
    if exists|i: int| first_endpoint(cnf, name, i) { Some(cnf.endpoint@[choose|i: int| first_endpoint(cnf, name, i)]) } else { None }
}
pub proof fn lemma_first_unique(cnf: Config, name: Seq<char>)
    ensures forall|i: int, j: int| first_endpoint(cnf, name, i) && first_endpoint(cnf, name, j) ==> i == j,
            no_endpoint(cnf, name) ==> the_endpoint(cnf, name) is None,
            forall|i: int| first_endpoint(cnf, name, i) ==> the_endpoint(cnf, name) == Some(cnf.endpoint@[i]),
{
    assert forall|i: int, j: int| first_endpoint(cnf, name, i) && first_endpoint(cnf, name, j) implies i == j by {
        if i < j { assert(cnf.endpoint@[i].name@ != name); } else if j < i { assert(cnf.endpoint@[j].name@ != name); }
    }
}
// The property, verbatim: the most specific value given wins - certificate, then endpoint, then global, then the default
// (Some(None)); None = the certificate's endpoint does not exist.
impl GlobalOptions {
    pub open spec fn renew_delay_src(&self) -> Option<Seq<char>> { view_opt(self.renew_delay) }
    pub open spec fn early_src(&self) -> Option<Seq<char>> { view_opt(self.random_early_renew) }
    pub open spec fn fmt_src(&self) -> Seq<char> { match self.file_name_format { Some(n) => n@, None => crate::DEFAULT_CERT_FORMAT@ } }
}
pub open spec fn global_renew_delay(cnf: Config) -> Option<Seq<char>> { match cnf.global { Some(g) => g.renew_delay_src(), None => None } }
pub open spec fn global_early(cnf: Config) -> Option<Seq<char>> { match cnf.global { Some(g) => g.early_src(), None => None } }
pub open spec fn global_fmt(cnf: Config) -> Seq<char> { match cnf.global { Some(g) => g.fmt_src(), None => crate::DEFAULT_CERT_FORMAT@ } }
impl Endpoint {
    pub open spec fn renew_delay_src(&self, cnf: Config) -> Option<Seq<char>> {
        match self.renew_delay { Some(d) => Some(d@), None => global_renew_delay(cnf) } }
    pub open spec fn early_src(&self, cnf: Config) -> Option<Seq<char>> {
        match self.random_early_renew { Some(d) => Some(d@), None => global_early(cnf) } }
    pub open spec fn fmt_src(&self, cnf: Config) -> Seq<char> {
        match self.file_name_format { Some(n) => n@, None => global_fmt(cnf) } }
}
impl Certificate {
    pub open spec fn renew_delay_src(&self, cnf: Config) -> Option<Option<Seq<char>>> {
        match self.renew_delay { Some(d) => Some(Some(d@)), None => match the_endpoint(cnf, self.endpoint@) {
            Some(ep) => Some(ep.renew_delay_src(cnf)), None => None } } }
    pub open spec fn early_src(&self, cnf: Config) -> Option<Option<Seq<char>>> {
        match self.random_early_renew { Some(d) => Some(Some(d@)), None => match the_endpoint(cnf, self.endpoint@) {
            Some(ep) => Some(ep.early_src(cnf)), None => None } } }
    pub open spec fn fmt_src(&self, cnf: Config) -> Option<Seq<char>> {
        match self.file_name_format { Some(n) => Some(n@), None => match the_endpoint(cnf, self.endpoint@) {
            Some(ep) => Some(ep.fmt_src(cnf)), None => None } } }
}
"""
